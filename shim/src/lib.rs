//! Reference implementations of std combinators (iterator adapters and consumers, Option / Result / bool helpers) in plain
//! Rust.  mirsym cannot see the MIR of std's generic functions (rustc only prints the local crate's bodies), so when the code
//! under analysis calls one of them and no hand-written model exists, the interpreter executes the body of the same name
//! from THIS crate instead (dumped with the same nightly, generic MIR, executed like the crate's own generic code).
//! Every function is the textbook definition of the std function it stands for; nothing here knows about deadpool.
#![allow(clippy::all, dead_code)]

pub mod iter {
    use std::collections::VecDeque;

    pub struct Map<I, F> { pub iter: I, pub f: F }
    impl<B, I: Iterator, F: FnMut(I::Item) -> B> Iterator for Map<I, F> {
        type Item = B;
        fn next(&mut self) -> Option<B> { match self.iter.next() { Some(x) => Some((self.f)(x)), None => None } }
    }
    impl<B, I: DoubleEndedIterator, F: FnMut(I::Item) -> B> DoubleEndedIterator for Map<I, F> {
        fn next_back(&mut self) -> Option<B> { match self.iter.next_back() { Some(x) => Some((self.f)(x)), None => None } }
    }
    pub fn vsi_map<B, I: Iterator, F: FnMut(I::Item) -> B>(iter: I, f: F) -> Map<I, F> { Map { iter, f } }

    pub struct Filter<I, P> { pub iter: I, pub p: P }
    impl<I: Iterator, P: FnMut(&I::Item) -> bool> Iterator for Filter<I, P> {
        type Item = I::Item;
        fn next(&mut self) -> Option<I::Item> {
            loop { match self.iter.next() { Some(x) => { if (self.p)(&x) { return Some(x); } } None => return None } }
        }
    }
    pub fn vsi_filter<I: Iterator, P: FnMut(&I::Item) -> bool>(iter: I, p: P) -> Filter<I, P> { Filter { iter, p } }

    pub struct FilterMap<I, F> { pub iter: I, pub f: F }
    impl<B, I: Iterator, F: FnMut(I::Item) -> Option<B>> Iterator for FilterMap<I, F> {
        type Item = B;
        fn next(&mut self) -> Option<B> {
            loop { match self.iter.next() { Some(x) => { if let Some(y) = (self.f)(x) { return Some(y); } } None => return None } }
        }
    }
    pub fn vsi_filter_map<B, I: Iterator, F: FnMut(I::Item) -> Option<B>>(iter: I, f: F) -> FilterMap<I, F> { FilterMap { iter, f } }

    pub struct Chain<A, B> { pub a: A, pub b: B, pub a_done: bool }
    impl<A: Iterator, B: Iterator<Item = A::Item>> Iterator for Chain<A, B> {
        type Item = A::Item;
        fn next(&mut self) -> Option<A::Item> {
            if !self.a_done {
                match self.a.next() { Some(x) => return Some(x), None => { self.a_done = true; } }
            }
            self.b.next()
        }
    }
    pub fn vsi_chain<A: Iterator, U: IntoIterator<Item = A::Item>>(a: A, b: U) -> Chain<A, U::IntoIter> { Chain { a, b: b.into_iter(), a_done: false } }

    pub struct Flatten<I, U> { pub iter: I, pub cur: Option<U> }
    impl<I: Iterator, U: Iterator> Iterator for Flatten<I, U> where I::Item: IntoIterator<IntoIter = U, Item = U::Item> {
        type Item = U::Item;
        fn next(&mut self) -> Option<U::Item> {
            loop {
                if let Some(inner) = &mut self.cur {
                    match inner.next() { Some(x) => return Some(x), None => { self.cur = None; } }
                }
                match self.iter.next() { Some(it) => { self.cur = Some(it.into_iter()); } None => return None }
            }
        }
    }
    pub fn vsi_flatten<I: Iterator>(iter: I) -> Flatten<I, <I::Item as IntoIterator>::IntoIter> where I::Item: IntoIterator { Flatten { iter, cur: None } }

    pub struct FlatMap<I, U, F> { pub iter: I, pub f: F, pub cur: Option<U> }
    impl<I: Iterator, V: IntoIterator, F: FnMut(I::Item) -> V> Iterator for FlatMap<I, V::IntoIter, F> {
        type Item = V::Item;
        fn next(&mut self) -> Option<V::Item> {
            loop {
                if let Some(inner) = &mut self.cur {
                    match inner.next() { Some(x) => return Some(x), None => { self.cur = None; } }
                }
                match self.iter.next() { Some(x) => { self.cur = Some((self.f)(x).into_iter()); } None => return None }
            }
        }
    }
    pub fn vsi_flat_map<I: Iterator, V: IntoIterator, F: FnMut(I::Item) -> V>(iter: I, f: F) -> FlatMap<I, V::IntoIter, F> { FlatMap { iter, f, cur: None } }

    pub struct Enumerate<I> { pub iter: I, pub count: usize }
    impl<I: Iterator> Iterator for Enumerate<I> {
        type Item = (usize, I::Item);
        fn next(&mut self) -> Option<(usize, I::Item)> {
            match self.iter.next() { Some(x) => { let i = self.count; self.count += 1; Some((i, x)) } None => None }
        }
    }
    pub fn vsi_enumerate<I: Iterator>(iter: I) -> Enumerate<I> { Enumerate { iter, count: 0 } }

    pub struct Zip<A, B> { pub a: A, pub b: B }
    impl<A: Iterator, B: Iterator> Iterator for Zip<A, B> {
        type Item = (A::Item, B::Item);
        fn next(&mut self) -> Option<(A::Item, B::Item)> {
            let x = match self.a.next() { Some(x) => x, None => return None };
            let y = match self.b.next() { Some(y) => y, None => return None };
            Some((x, y))
        }
    }
    pub fn vsi_zip<A: Iterator, U: IntoIterator>(a: A, b: U) -> Zip<A, U::IntoIter> { Zip { a, b: b.into_iter() } }

    pub struct Take<I> { pub iter: I, pub n: usize }
    impl<I: Iterator> Iterator for Take<I> {
        type Item = I::Item;
        fn next(&mut self) -> Option<I::Item> { if self.n == 0 { None } else { self.n -= 1; self.iter.next() } }
    }
    pub fn vsi_take<I: Iterator>(iter: I, n: usize) -> Take<I> { Take { iter, n } }

    pub struct Skip<I> { pub iter: I, pub n: usize }
    impl<I: Iterator> Iterator for Skip<I> {
        type Item = I::Item;
        fn next(&mut self) -> Option<I::Item> {
            while self.n > 0 { self.n -= 1; if self.iter.next().is_none() { return None; } }
            self.iter.next()
        }
    }
    pub fn vsi_skip<I: Iterator>(iter: I, n: usize) -> Skip<I> { Skip { iter, n } }

    pub struct TakeWhile<I, P> { pub iter: I, pub p: P, pub done: bool }
    impl<I: Iterator, P: FnMut(&I::Item) -> bool> Iterator for TakeWhile<I, P> {
        type Item = I::Item;
        fn next(&mut self) -> Option<I::Item> {
            if self.done { return None; }
            match self.iter.next() { Some(x) => { if (self.p)(&x) { Some(x) } else { self.done = true; None } } None => None }
        }
    }
    pub fn vsi_take_while<I: Iterator, P: FnMut(&I::Item) -> bool>(iter: I, p: P) -> TakeWhile<I, P> { TakeWhile { iter, p, done: false } }

    pub struct SkipWhile<I, P> { pub iter: I, pub p: P, pub started: bool }
    impl<I: Iterator, P: FnMut(&I::Item) -> bool> Iterator for SkipWhile<I, P> {
        type Item = I::Item;
        fn next(&mut self) -> Option<I::Item> {
            loop {
                match self.iter.next() {
                    Some(x) => { if self.started || !(self.p)(&x) { self.started = true; return Some(x); } }
                    None => return None,
                }
            }
        }
    }
    pub fn vsi_skip_while<I: Iterator, P: FnMut(&I::Item) -> bool>(iter: I, p: P) -> SkipWhile<I, P> { SkipWhile { iter, p, started: false } }

    pub struct Inspect<I, F> { pub iter: I, pub f: F }
    impl<I: Iterator, F: FnMut(&I::Item)> Iterator for Inspect<I, F> {
        type Item = I::Item;
        fn next(&mut self) -> Option<I::Item> { match self.iter.next() { Some(x) => { (self.f)(&x); Some(x) } None => None } }
    }
    pub fn vsi_inspect<I: Iterator, F: FnMut(&I::Item)>(iter: I, f: F) -> Inspect<I, F> { Inspect { iter, f } }

    pub struct Cloned<I> { pub iter: I }
    impl<'a, T: 'a + Clone, I: Iterator<Item = &'a T>> Iterator for Cloned<I> {
        type Item = T;
        fn next(&mut self) -> Option<T> { match self.iter.next() { Some(x) => Some(x.clone()), None => None } }
    }
    pub fn vsi_cloned<'a, T: 'a + Clone, I: Iterator<Item = &'a T>>(iter: I) -> Cloned<I> { Cloned { iter } }
    pub fn vsi_copied<'a, T: 'a + Clone, I: Iterator<Item = &'a T>>(iter: I) -> Cloned<I> { Cloned { iter } }

    pub struct Rev<I> { pub iter: I }
    impl<I: DoubleEndedIterator> Iterator for Rev<I> {
        type Item = I::Item;
        fn next(&mut self) -> Option<I::Item> { self.iter.next_back() }
    }
    impl<I: DoubleEndedIterator> DoubleEndedIterator for Rev<I> {
        fn next_back(&mut self) -> Option<I::Item> { self.iter.next() }
    }
    pub fn vsi_rev<I: DoubleEndedIterator>(iter: I) -> Rev<I> { Rev { iter } }

    pub struct Peekable<I: Iterator> { pub iter: I, pub peeked: Option<Option<I::Item>> }
    impl<I: Iterator> Iterator for Peekable<I> {
        type Item = I::Item;
        fn next(&mut self) -> Option<I::Item> { match self.peeked.take() { Some(v) => v, None => self.iter.next() } }
    }
    pub fn vsi_peekable<I: Iterator>(iter: I) -> Peekable<I> { Peekable { iter, peeked: None } }
    pub fn vsi_peek<I: Iterator>(p: &mut Peekable<I>) -> Option<&I::Item> {
        if p.peeked.is_none() { p.peeked = Some(p.iter.next()); }
        match &p.peeked { Some(Some(x)) => Some(x), _ => None }
    }

    pub fn vsi_by_ref<I: Iterator>(iter: &mut I) -> &mut I { iter }

    // ---- consumers
    pub fn vsi_for_each<I: Iterator, F: FnMut(I::Item)>(mut iter: I, mut f: F) {
        loop { match iter.next() { Some(x) => f(x), None => return } }
    }
    pub fn vsi_count<I: Iterator>(mut iter: I) -> usize {
        let mut n = 0usize;
        loop { match iter.next() { Some(_) => n += 1, None => return n } }
    }
    pub fn vsi_last<I: Iterator>(mut iter: I) -> Option<I::Item> {
        let mut last = None;
        loop { match iter.next() { Some(x) => last = Some(x), None => return last } }
    }
    pub fn vsi_nth<I: Iterator>(iter: &mut I, mut n: usize) -> Option<I::Item> {
        loop { match iter.next() { Some(x) => { if n == 0 { return Some(x); } n -= 1; } None => return None } }
    }
    pub fn vsi_any<I: Iterator, F: FnMut(I::Item) -> bool>(iter: &mut I, mut f: F) -> bool {
        loop { match iter.next() { Some(x) => { if f(x) { return true; } } None => return false } }
    }
    pub fn vsi_all<I: Iterator, F: FnMut(I::Item) -> bool>(iter: &mut I, mut f: F) -> bool {
        loop { match iter.next() { Some(x) => { if !f(x) { return false; } } None => return true } }
    }
    pub fn vsi_find<I: Iterator, P: FnMut(&I::Item) -> bool>(iter: &mut I, mut p: P) -> Option<I::Item> {
        loop { match iter.next() { Some(x) => { if p(&x) { return Some(x); } } None => return None } }
    }
    pub fn vsi_find_map<B, I: Iterator, F: FnMut(I::Item) -> Option<B>>(iter: &mut I, mut f: F) -> Option<B> {
        loop { match iter.next() { Some(x) => { if let Some(y) = f(x) { return Some(y); } } None => return None } }
    }
    pub fn vsi_position<I: Iterator, P: FnMut(I::Item) -> bool>(iter: &mut I, mut p: P) -> Option<usize> {
        let mut i = 0usize;
        loop { match iter.next() { Some(x) => { if p(x) { return Some(i); } i += 1; } None => return None } }
    }
    pub fn vsi_fold<B, I: Iterator, F: FnMut(B, I::Item) -> B>(mut iter: I, init: B, mut f: F) -> B {
        let mut acc = init;
        loop { match iter.next() { Some(x) => acc = f(acc, x), None => return acc } }
    }
    pub fn vsi_sum_usize<I: Iterator<Item = usize>>(mut iter: I) -> usize {
        let mut acc = 0usize;
        loop { match iter.next() { Some(x) => acc += x, None => return acc } }
    }
    pub fn vsi_max_usize<I: Iterator<Item = usize>>(mut iter: I) -> Option<usize> {
        let mut best: Option<usize> = None;
        loop { match iter.next() { Some(x) => { best = match best { Some(b) if b > x => Some(b), _ => Some(x) }; } None => return best } }
    }
    pub fn vsi_min_usize<I: Iterator<Item = usize>>(mut iter: I) -> Option<usize> {
        let mut best: Option<usize> = None;
        loop { match iter.next() { Some(x) => { best = match best { Some(b) if b <= x => Some(b), _ => Some(x) }; } None => return best } }
    }
    pub fn vsi_collect_vec<I: Iterator>(mut iter: I) -> Vec<I::Item> {
        let mut v = Vec::new();
        loop { match iter.next() { Some(x) => v.push(x), None => return v } }
    }
    pub fn vsi_collect_vecdeque<I: Iterator>(mut iter: I) -> VecDeque<I::Item> {
        let mut v = VecDeque::new();
        loop { match iter.next() { Some(x) => v.push_back(x), None => return v } }
    }
    pub fn vsi_collect_result_vec<T, E, I: Iterator<Item = Result<T, E>>>(mut iter: I) -> Result<Vec<T>, E> {
        let mut v = Vec::new();
        loop { match iter.next() { Some(Ok(x)) => v.push(x), Some(Err(e)) => return Err(e), None => return Ok(v) } }
    }
    pub fn vsi_collect_option_vec<T, I: Iterator<Item = Option<T>>>(mut iter: I) -> Option<Vec<T>> {
        let mut v = Vec::new();
        loop { match iter.next() { Some(Some(x)) => v.push(x), Some(None) => return None, None => return Some(v) } }
    }
    pub fn vsi_extend_vec<T, I: Iterator<Item = T>>(v: &mut Vec<T>, mut iter: I) {
        loop { match iter.next() { Some(x) => v.push(x), None => return } }
    }
    pub fn vsi_extend_vecdeque<T, I: Iterator<Item = T>>(v: &mut VecDeque<T>, mut iter: I) {
        loop { match iter.next() { Some(x) => v.push_back(x), None => return } }
    }
}

pub mod option {
    pub fn vso_map<T, U, F: FnOnce(T) -> U>(o: Option<T>, f: F) -> Option<U> { match o { Some(x) => Some(f(x)), None => None } }
    pub fn vso_map_or<T, U, F: FnOnce(T) -> U>(o: Option<T>, d: U, f: F) -> U { match o { Some(x) => f(x), None => d } }
    pub fn vso_map_or_else<T, U, D: FnOnce() -> U, F: FnOnce(T) -> U>(o: Option<T>, d: D, f: F) -> U { match o { Some(x) => f(x), None => d() } }
    pub fn vso_and_then<T, U, F: FnOnce(T) -> Option<U>>(o: Option<T>, f: F) -> Option<U> { match o { Some(x) => f(x), None => None } }
    pub fn vso_and<T, U>(o: Option<T>, b: Option<U>) -> Option<U> { match o { Some(_) => b, None => None } }
    pub fn vso_or<T>(o: Option<T>, b: Option<T>) -> Option<T> { match o { Some(x) => Some(x), None => b } }
    pub fn vso_or_else<T, F: FnOnce() -> Option<T>>(o: Option<T>, f: F) -> Option<T> { match o { Some(x) => Some(x), None => f() } }
    pub fn vso_xor<T>(o: Option<T>, b: Option<T>) -> Option<T> { match (o, b) { (Some(a), None) => Some(a), (None, Some(b)) => Some(b), _ => None } }
    pub fn vso_filter<T, P: FnOnce(&T) -> bool>(o: Option<T>, p: P) -> Option<T> { if let Some(x) = o { if p(&x) { return Some(x); } } None }
    pub fn vso_ok_or<T, E>(o: Option<T>, e: E) -> Result<T, E> { match o { Some(x) => Ok(x), None => Err(e) } }
    pub fn vso_ok_or_else<T, E, F: FnOnce() -> E>(o: Option<T>, f: F) -> Result<T, E> { match o { Some(x) => Ok(x), None => Err(f()) } }
    pub fn vso_unwrap_or<T>(o: Option<T>, d: T) -> T { match o { Some(x) => x, None => d } }
    pub fn vso_unwrap_or_else<T, F: FnOnce() -> T>(o: Option<T>, f: F) -> T { match o { Some(x) => x, None => f() } }
    pub fn vso_is_some_and<T, F: FnOnce(T) -> bool>(o: Option<T>, f: F) -> bool { match o { Some(x) => f(x), None => false } }
    pub fn vso_is_none_or<T, F: FnOnce(T) -> bool>(o: Option<T>, f: F) -> bool { match o { Some(x) => f(x), None => true } }
    pub fn vso_zip<T, U>(o: Option<T>, b: Option<U>) -> Option<(T, U)> { match (o, b) { (Some(a), Some(b)) => Some((a, b)), _ => None } }
    pub fn vso_insert<T>(o: &mut Option<T>, v: T) -> &mut T { *o = Some(v); match o { Some(x) => x, None => unreachable!() } }
    pub fn vso_get_or_insert<T>(o: &mut Option<T>, v: T) -> &mut T { if o.is_none() { *o = Some(v); } match o { Some(x) => x, None => unreachable!() } }
    pub fn vso_get_or_insert_with<T, F: FnOnce() -> T>(o: &mut Option<T>, f: F) -> &mut T { if o.is_none() { *o = Some(f()); } match o { Some(x) => x, None => unreachable!() } }
    pub fn vso_take_if<T, P: FnOnce(&mut T) -> bool>(o: &mut Option<T>, p: P) -> Option<T> {
        let hit = match o { Some(x) => p(x), None => false };
        if hit { o.take() } else { None }
    }
    pub fn vso_flatten<T>(o: Option<Option<T>>) -> Option<T> { match o { Some(x) => x, None => None } }
    pub fn vso_transpose<T, E>(o: Option<Result<T, E>>) -> Result<Option<T>, E> { match o { Some(Ok(x)) => Ok(Some(x)), Some(Err(e)) => Err(e), None => Ok(None) } }
    pub fn vso_inspect<T, F: FnOnce(&T)>(o: Option<T>, f: F) -> Option<T> { if let Some(x) = &o { f(x); } o }
    pub fn vso_unzip<T, U>(o: Option<(T, U)>) -> (Option<T>, Option<U>) { match o { Some((a, b)) => (Some(a), Some(b)), None => (None, None) } }
}

pub mod result {
    pub fn vsr_map<T, E, U, F: FnOnce(T) -> U>(r: Result<T, E>, f: F) -> Result<U, E> { match r { Ok(x) => Ok(f(x)), Err(e) => Err(e) } }
    pub fn vsr_map_err<T, E, G, F: FnOnce(E) -> G>(r: Result<T, E>, f: F) -> Result<T, G> { match r { Ok(x) => Ok(x), Err(e) => Err(f(e)) } }
    pub fn vsr_map_or<T, E, U, F: FnOnce(T) -> U>(r: Result<T, E>, d: U, f: F) -> U { match r { Ok(x) => f(x), Err(_) => d } }
    pub fn vsr_map_or_else<T, E, U, D: FnOnce(E) -> U, F: FnOnce(T) -> U>(r: Result<T, E>, d: D, f: F) -> U { match r { Ok(x) => f(x), Err(e) => d(e) } }
    pub fn vsr_and_then<T, E, U, F: FnOnce(T) -> Result<U, E>>(r: Result<T, E>, f: F) -> Result<U, E> { match r { Ok(x) => f(x), Err(e) => Err(e) } }
    pub fn vsr_and<T, E, U>(r: Result<T, E>, b: Result<U, E>) -> Result<U, E> { match r { Ok(_) => b, Err(e) => Err(e) } }
    pub fn vsr_or<T, E, G>(r: Result<T, E>, b: Result<T, G>) -> Result<T, G> { match r { Ok(x) => Ok(x), Err(_) => b } }
    pub fn vsr_or_else<T, E, G, F: FnOnce(E) -> Result<T, G>>(r: Result<T, E>, f: F) -> Result<T, G> { match r { Ok(x) => Ok(x), Err(e) => f(e) } }
    pub fn vsr_ok<T, E>(r: Result<T, E>) -> Option<T> { match r { Ok(x) => Some(x), Err(_) => None } }
    pub fn vsr_err<T, E>(r: Result<T, E>) -> Option<E> { match r { Ok(_) => None, Err(e) => Some(e) } }
    pub fn vsr_unwrap_or<T, E>(r: Result<T, E>, d: T) -> T { match r { Ok(x) => x, Err(_) => d } }
    pub fn vsr_unwrap_or_else<T, E, F: FnOnce(E) -> T>(r: Result<T, E>, f: F) -> T { match r { Ok(x) => x, Err(e) => f(e) } }
    pub fn vsr_is_ok_and<T, E, F: FnOnce(T) -> bool>(r: Result<T, E>, f: F) -> bool { match r { Ok(x) => f(x), Err(_) => false } }
    pub fn vsr_is_err_and<T, E, F: FnOnce(E) -> bool>(r: Result<T, E>, f: F) -> bool { match r { Ok(_) => false, Err(e) => f(e) } }
    pub fn vsr_inspect<T, E, F: FnOnce(&T)>(r: Result<T, E>, f: F) -> Result<T, E> { if let Ok(x) = &r { f(x); } r }
    pub fn vsr_inspect_err<T, E, F: FnOnce(&E)>(r: Result<T, E>, f: F) -> Result<T, E> { if let Err(e) = &r { f(e); } r }
    pub fn vsr_transpose<T, E>(r: Result<Option<T>, E>) -> Option<Result<T, E>> { match r { Ok(Some(x)) => Some(Ok(x)), Ok(None) => None, Err(e) => Some(Err(e)) } }
    pub fn vsr_flatten<T, E>(r: Result<Result<T, E>, E>) -> Result<T, E> { match r { Ok(x) => x, Err(e) => Err(e) } }
}

pub mod boolean {
    pub fn vsb_then<T, F: FnOnce() -> T>(b: bool, f: F) -> Option<T> { if b { Some(f()) } else { None } }
    pub fn vsb_then_some<T>(b: bool, v: T) -> Option<T> { if b { Some(v) } else { None } }
}
