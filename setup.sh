#!/bin/bash
# Run once after a fresh restore (offline): builds the framework's caches from files on disk.
set -e
cd "$(dirname "$0")"
export CARGO_NET_OFFLINE=true
mkdir -p .build evidence replays
python3-vt - <<'PY'
import sys
sys.path.insert(0, '/verif')
from mirsym import dump, replay, mir
# 1. MIR dump of every crate in scope (compiles the dependencies once into .build/mir) + parser self-test
import os
crates = ['deadpool', 'deadpool_runtime', 'deadpool_sync']
p = dump.Program()
for c in crates:
    p.add_crate(c)
n = p.selftest()
print(f'setup: MIR dumped for {crates}: {len(p.fns)} bodies, {len(p.shims)} drop shims, {n} blocks parsed, {p.dump_s:.1f} s')
# 2. native replay driver
replay.build_driver()
print('setup: native replay driver built')
PY
echo "setup: ok"
