#!/bin/bash
# Run once after a fresh restore (offline): builds the framework's caches from files on disk.
set -e
cd "$(dirname "$0")"
export CARGO_NET_OFFLINE=true
mkdir -p .build evidence replays
python3-vt - <<'PY'
import sys
sys.path.insert(0, '/verif')
from mirsym import dump, replay, mir
crates = ['deadpool', 'deadpool_runtime', 'deadpool_sync', 'deadpool_postgres', 'deadpool_redis', 'deadpool_sqlite', 'deadpool_r2d2', 'deadpool_diesel']
p = dump.Program()
for c in crates:
    p.add_crate(c)
n = p.selftest()
print(f'setup: MIR dumped for {len(crates)} crates: {len(p.fns)} bodies, {len(p.shims)} drop shims, {n} blocks parsed, {p.dump_s:.1f} s')
replay.build_driver(); replay.build_driver_pg(); replay.build_driver_sync()
print('setup: native replay drivers built')
PY
echo "setup: ok"
