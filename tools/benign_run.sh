#!/bin/bash
# smoke pass: every benign patch against the checks of its area, 10 s budget per family
slot=$1; shift
export DEVN=$slot VERIF_BUDGET_S=10
for spec in "$@"; do
  r=${spec%%:*}; props=${spec#*:}
  for k in 1 2 3; do for p in $props; do /verif/tools/dev_mutant.sh benign/$r/patch$k $p; done; done
done
