#!/bin/bash
# process_seeded.sh <id> <property> : collect a sub-agent's result, confirm it in a scratch worktree, run the quick check against it
id=$1; prop=$2
/verif/tools/save_seeded.sh $id || exit 1
/verif/tools/verify_seeded.sh $id | tail -1
DEVN=_$id /verif/tools/dev_mutant.sh $id $prop
git -C /repo worktree remove --force /tmp/devrepo_$id 2>/dev/null; rm -rf /tmp/devbuild_$id
