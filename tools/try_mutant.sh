#!/bin/bash
# usage: try_mutant.sh <seeded id> <property> [extra check args]   -- applies the seeded patch to /repo, runs the check, restores /repo
id=$1; prop=$2; shift 2
cd /repo || exit 9
if [ -n "$(git status --porcelain --untracked-files=no)" ]; then echo "repo dirty"; exit 9; fi
p=/verif/seeded/$id/patch.diff; [ -f $p ] || p=/verif/seeded/$id/patch.orig.diff
if ! git apply $p 2>/tmp/apply_$id.err && ! { git reset -q --hard HEAD; git apply -3 $p 2>>/tmp/apply_$id.err; }; then echo "PATCH DOES NOT APPLY: $id"; cat /tmp/apply_$id.err; git reset -q --hard HEAD; exit 8; fi
git diff HEAD > /tmp/applied_$id.diff
cd /verif; ./check $prop --tier quick --no-evidence "$@" > /tmp/mut_${id}_$prop.log 2>&1; rc=$?
cd /repo; git reset -q --hard HEAD
echo "== $id vs $prop: exit $rc"; grep -E "VIOLATION|KNOWN|INCONCL" -A1 /tmp/mut_${id}_$prop.log | head -8
exit 0
