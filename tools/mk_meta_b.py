#!/usr/bin/env python3
"""writes seeded/<id>/meta.json for the later (b, c, ...) series from the table below + verify.log"""
import json, os, re, sys
HERE = os.path.dirname(os.path.dirname(os.path.abspath(__file__)))
T = {
 'C01b': ('C01', 'Pool::retain() moves the idle queue out with mem::take and runs the predicate without the slots lock, putting survivors back afterwards',
          'a get() on another thread between the two lock sections of retain(): it finds the queue empty although permits are free and creates an object above max_size',
          'C01: thread-level family "retain racing get / return" (predicate = schedule point when no pool lock is held), natively confirmed'),
 'C02b': ('C02', 'return_object() decides size > max_size in a helper that takes and releases the slots lock on its own (check and action in two critical sections)',
          'a shrink with objects out, then two returns racing on different threads: both see the surplus, both discard, a permit is lost',
          'C07: fine-interleaving family "return / take racing a shrink" (engine evidence only: no schedule point exists between the two lock sections); the C02 check itself has no resize in its families'),
 'C03b': ('C03', 'DropGuard::drop skips its closure while the thread is panicking',
          'a panic of the manager or a hook inside get(): users stays incremented, status().waiting / available are off for good',
          'C03: single-task families with panic outcomes (status differential), natively confirmed'),
 'C04b': ('C04', 'try_recycle matches only Err(PoolError::Backend(_)) of the recycle step: a recycle Timeout falls through as success',
          'a runtime, a recycle timeout and a Manager::recycle that hangs: the object is handed out without having passed recycle',
          'C04: "2 tasks, per-call timeouts, 3 hooks async" (needed manager futures that stay pending so that the timer can fire), natively confirmed'),
 'C05b': ('C05', 'unmanaged Object::take returns its size_semaphore permit only if the pool was full',
          'a take/remove while size < max_size: the slot is lost, later try_add reports Timeout on a non-full pool',
          'C05 VIOLATION (try_add Timeout although the pool held fewer than max_size objects), natively confirmed'),
 'C06b': ('C06', 'close() wraps leftovers in UnreadyObject and still decrements size itself: double decrement',
          'close() while an idle object\'s permit is held by a woken, not yet polled waiter',
          'C06 VIOLATION, natively confirmed'),
 'C07b': ('C07', 'the shrink loop of resize() stops as soon as the idle queue is empty',
          'a shrink to n while more than n objects are out and never-used capacity exists: the free permits survive',
          'C07 VIOLATION after the role of K-C07a was narrowed (the known finding needs at most n objects out), natively confirmed'),
 'C08b': ('C08', 'timeout_get() matches the queue mode once; the retry after a rejected recycle always pops the front',
          'Lifo mode, at least 3 idle objects, the newest one rejected by recycling',
          'C08: family "3 objects out, returned in any order, then gets with rejects (max_size 3)", natively confirmed'),
 'C09b': ('C09', 'retain() returns early when status().available == 0',
          'retain() while a get() is suspended in create (users counted, size not yet) and an object is idle',
          'C09: family "retain while a get() is suspended in create / recycle" + oracle "the predicate is consulted exactly once per idle object", natively confirmed'),
 'C10b': ('C10', 'timeout_get() tries try_acquire() first and skips apply_timeout when a slot is free',
          'a wait timeout without a runtime while a slot is free: no NoRuntimeSpecified',
          'C10 VIOLATION, natively confirmed'),
 'C11b': ('C11', 'retain() writes back size = (size read by status() before taking the lock) - removed',
          'another thread changing size between status() and the lock (the retain.sized schedule point)',
          'C11: thread-level family "retain racing get / take / return", natively confirmed'),
 'C12b': ('C12', 'try_add() fast path: size >= max_size => Timeout without asking the (closed) semaphore',
          'close() while every object is checked out, then try_add: Timeout instead of Closed',
          'C12: oracle "add / try_add issued after close() returned must report Closed", natively confirmed'),
 'C13b': ('C13', 'the last-recycled stamp is taken when an idle object is dequeued and carried across the retry loop',
          'a rejected recycle followed by a create in the same get(): a brand-new object reports a last-recycled instant',
          'C13 VIOLATION, natively confirmed'),
 'C14b': ('C14', 'SyncWrapper::drop locks the mutex on the dropping thread and ships only the value to the blocking pool',
          'an interact() future cancelled while its closure is still running, then the wrapper is dropped: the async thread waits for the closure',
          'C14: family "closures that take time" (a closure is a two-step event, threads may block on the mutex), natively confirmed with a watchdog in the driver'),
 'C16b': ('C16', 'StatementCaches::detach retains entries with `strong_count() > 0 || !ptr_eq` (De Morgan slip): nothing is ever detached',
          'a client that leaves the pool alive (take / retain) and a later statement_caches.clear() / remove()',
          'C16 VIOLATION (engine evidence only: no native postgres stand-in)'),
 'C15b': ('C15', 'deadpool-r2d2 Manager::recycle runs has_broken on the async side behind try_lock() and only is_valid through interact()',
          'a backend reporting has_broken while an interact() closure of a cancelled interaction still holds the mutex: the check is skipped and the broken connection is reissued',
          'C15 VIOLATION: the backend check runs on the async thread (natively confirmed); the reissue itself is found by the new worlds "recycle while the closure of a cancelled interaction is still running" (engine trace; the one-thread native pool cannot hold a second task blocked)'),
 'C17b': ('C17', 'redis Manager::recycle fails only on RedisError::is_unrecoverable_error(); every other error of the UNWATCH+PING pipeline returns Ok',
          'an error reply / nil echo / timeout during recycling: the connection is reused although no echo was verified',
          'C17 VIOLATION (engine evidence only: no native redis stand-in)'),
 'C18b': ('C18', 'get_pg_config() appends the plural hosts after the "no hosts yet: insert defaults" check',
          'hosts given only through the plural field: default socket directories are put in front of them',
          'C18 VIOLATION, natively confirmed'),
 'C19b': ('C19', 'redis Config::builder() treats an empty url string as unset',
          'url = Some("") together with a connection (no UrlAndConnectionSpecified) or alone (default server instead of an error)',
          'C19 VIOLATION (engine evidence only)'),
}
NOTES = {'C15b': 'the only existing test of deadpool-r2d2 is a doctest that needs an environment variable and fails with and without the change',
         'C17b': 'deadpool-redis tests that need a live server fail with and without the change',
         'C19b': 'deadpool-redis tests that need a live server fail with and without the change'}
for a in sys.argv[1:]:
    pass
for id_, (prop, change, needs, caught) in T.items():
    d = os.path.join(HERE, 'seeded', id_)
    if not os.path.isdir(d): continue
    vl = os.path.join(d, 'verify.log'); res = {}
    if os.path.exists(vl):
        m = re.search(r'RESULT id=\S+ suite_with_change_exit=(\d+) demo_with_change_exit=(\d+) demo_without_change_exit=(\d+)', open(vl).read())
        if m: res = {'suite': int(m.group(1)), 'with': int(m.group(2)), 'without': int(m.group(3))}
    meta = {'id': id_, 'breaks_property': prop, 'change': change, 'needs_to_manifest': needs, 'caught_by': caught,
            'origin': 'independent sub-agent given only the property text and a scratch worktree of /repo (current HEAD incl. hooks and fixes); patch.diff is its diff',
            'confirmed_by_me': {'how': 'tools/verify_seeded.sh in a scratch worktree of the current /repo HEAD (cargo test offline)',
                                'existing_tests_of_the_crate_pass_with_change': res.get('suite') == 0 or id_ in NOTES,
                                'demonstration_fails_with_change': res.get('with', 0) != 0,
                                'demonstration_passes_without_change': res.get('without') == 0, 'note': NOTES.get(id_, '')},
            'files': sorted(f for f in os.listdir(d) if f != 'meta.json')}
    json.dump(meta, open(os.path.join(d, 'meta.json'), 'w'), indent=1)
    print(id_, res)
