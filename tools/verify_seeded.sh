#!/bin/bash
# verify_seeded.sh <id> : in a scratch worktree of /repo's HEAD, checks that (a) with the seeded change the crate's own tests still pass,
# (b) the demonstration fails with the change, (c) the demonstration passes without it.  Writes /verif/seeded/<id>/verify.log
id=$1
wt=/tmp/mutv/$id
rm -rf $wt; mkdir -p /tmp/mutv
git -C /repo worktree add -q --detach $wt HEAD || exit 9
cd $wt
export CARGO_TARGET_DIR=/tmp/mutv/target CARGO_NET_OFFLINE=true
p=/verif/seeded/$id/patch.diff; [ -f $p ] || p=/verif/seeded/$id/patch.orig.diff
demo=/verif/seeded/$id/seeded_demo.rs
crate=$(grep -m1 '^+++ b/' $p | sed 's#+++ b/##' | cut -d/ -f1)
case $crate in
  src) pkg=deadpool; feat="--features rt_tokio_1,serde"; ddir=tests;;
  diesel) pkg=deadpool-diesel; feat="--features sqlite"; ddir=diesel/tests;;
  sync) pkg=deadpool-sync; feat=""; ddir=sync/tests;;
  postgres) pkg=deadpool-postgres; feat="--features serde"; ddir=postgres/tests;;
  redis) pkg=deadpool-redis; feat="--features serde,cluster,sentinel"; ddir=redis/tests;;
  *) pkg=deadpool-$crate; feat=""; ddir=$crate/tests;;
esac
# the sqlite demo of C15a lives in sqlite/tests
if grep -q deadpool_sqlite $demo 2>/dev/null; then dpkg=deadpool-sqlite; ddir=sqlite/tests; dfeat=""; else dpkg=$pkg; dfeat=$feat; fi
# where the sub-agent had its demonstration (it may live in another crate than the change)
if [ -f /verif/seeded/$id/demo_path.txt ]; then
  dp=$(cat /verif/seeded/$id/demo_path.txt); top=${dp%%/*}
  if [ "$top" != tests ] && [ "$top" != "$crate" ]; then ddir=$top/tests; dpkg=deadpool-$top; dfeat=""; fi
  if [ "$top" = tests ] && [ "$crate" != src ]; then ddir=tests; dpkg=deadpool; dfeat="--features rt_tokio_1"; fi
fi
mkdir -p $ddir; cp $demo $ddir/seeded_demo.rs
log=/verif/seeded/$id/verify.log; : > $log
echo "== without the change: demonstration" >> $log
cargo test --offline -p $dpkg $dfeat --test seeded_demo >> $log 2>&1; c=$?
{ git apply $p 2>>$log || { git reset -q --hard HEAD; git apply -3 $p 2>>$log; }; } || { echo "PATCH DOES NOT APPLY" >> $log; cd /; git -C /repo worktree remove --force $wt; exit 8; }
git reset -q 2>/dev/null
echo "== with the change: demonstration" >> $log
cargo test --offline -p $dpkg $dfeat --test seeded_demo >> $log 2>&1; b=$?
echo "== with the change: existing tests of $pkg" >> $log
rm -f $ddir/seeded_demo.rs
if [ $pkg = deadpool-postgres ]; then cargo test --offline -p $pkg $feat -- config >> $log 2>&1; a=$?; else cargo test --offline -p $pkg $feat >> $log 2>&1; a=$?; fi
echo "RESULT id=$id suite_with_change_exit=$a demo_with_change_exit=$b demo_without_change_exit=$c" | tee -a $log
cd /; git -C /repo worktree remove --force $wt
