#!/usr/bin/env python3
"""regenerates MANIFEST.json from the table below (kept in one place so that it stays valid)"""
import json, subprocess
CLAIMED = {
 'C01': ('model_checking', 'Bounded symbolic exploration of the real MIR of src/managed/*: every interleaving (task level; thread level at the schedule points of the hooks) of get/return/take/retain/status by 2-3 tasks, max_size symbolic in 0..=2, every per-call outcome of create/recycle/hooks (ok, error, pending, never, panic), cancellation at every await; the number of live objects is counted from harness-owned identities, not from the pool. Counterexamples are replayed against the real crate before being reported.', '8 C01'),
 'C02': ('model_checking', 'Same exploration with, at every merged state, an end-of-history capacity probe executed on the MIR (cancel all, return all, then exactly max_size non-blocking gets must succeed and one more must time out); deadpool-raised panics and self-deadlocks on any path are violations.', '8 C02'),
 'C03': ('model_checking', 'Every suspension point of get() is enumerated from the coroutine MIR (state discriminants reached are listed in the evidence) and abandoned by drop, by an enclosing timeout or by a panic of the manager/hook; single-task differential on ground truth + real status(), multi-task global invariants.', '8 C03'),
 'C04': ('model_checking', 'Per-object trail of verification steps (create, each hook, recycle) with solver-chosen outcomes; at every hand-out the trail must be the complete all-ok sequence in registration order; rejected objects must be destroyed and detached exactly once; error variants must match the failing step.', '8 C04'),
 'C05': ('model_checking', 'Bounded symbolic exploration of the real MIR of src/unmanaged/mod.rs: pools built by new / from_config / From<Vec>, every interleaving (task level and thread level at the schedule points between the steps of Object::drop, take, _add, try_get/timeout_get) of get/try_get/timeout_get/remove/try_remove/add/try_add/take/return with cancellation of waiting get()/add(); every object is a harness-owned identity tag whose place (pool / held by one caller / handed back) is tracked independently; status() and the queue length are compared with the ground truth at rest. The genuine defect found here (status().waiting always 0) was repaired in /repo (fix commit 591ae14).', '8 C05'),
 'C06': ('model_checking', 'Task-level and thread-level (schedule points in close/resize/return_object/detach_object) exploration of close() against gets in every phase, returns, takes and resize; ground-truth idle set of the closed pool at quiescence; results of all gets issued after close returned.', '8 C06'),
 'C07': ('model_checking', 'Histories of 1-3 resizes (targets 0..=3) interleaved with gets/returns/takes/retain; after every resize the real status().max_size, the ground-truth idle set and (at rest) a capacity probe against the last target; admissions of gets issued after the resize. Two genuine defects are known findings (K-C07a/b), decided by the role of the history in the concrete replay.', '8 C07'),
 'C08': ('model_checking', 'Reference queue built from the ground-truth return log predicts which idle object get() offers first (fifo and lifo), across rejects, retain and takes; create only with an empty idle set; every user callback is attributed to the operation in progress; building the pool (real builder MIR) logs no callback.', '8 C08'),
 'C09': ('model_checking', 'retain() with the predicate as an arbitrary per-call choice (any subset, stateful), take(), resize/close: removed set = rejected set, retained count, detach count per object exactly once iff the pool let go of it; thread-level take racing get/return.', '8 C09'),
 'C10': ('model_checking', 'Decision table over pool-level and per-call wait/create/recycle in {none, zero, finite} x runtime present/absent with the timer expiry of every Runtime::timeout instance racing the completion of its inner future; build() through the real builder MIR.', '8 C10'),
 'C11': ('model_checking', 'The real status() MIR is run on a copy of every explored state: exact against ground truth at rest, plausible otherwise; overflow asserts reachable = violation (dev profile) and a second family interprets failed overflow checks as wrapping (release profile) and bounds the counters.', '8 C11'),
 'C12': ('model_checking', 'Same world with close() as a three-step operation at thread level racing every other call in every phase: any panic raised inside deadpool on a feasible path, any object left in a closed pool at quiescence, any caller not answered with Closed after close() returned is a violation.', '8 C12'),
 'C13': ('model_checking', 'Symbolic monotone clock; per-object shadow of what Object::metrics() last reported; every Metrics value shown to hooks, recycle and retain predicates and every hand-out is compared with the shadow and the independent hand-out count.', '8 C13'),
}
NOTE = ('Trusted base: the mirsym interpreter and the library models of DESIGN.md section 4 (tokio Semaphore, std Mutex/Arc/VecDeque/atomics as sequentially consistent); '
        'validated on every run by executing random traces in the engine and in the real crate (translation validation) and by native replay of every counterexample. '
        'std combinators without a model run the plain-Rust reference bodies of /verif/shim from their MIR (DESIGN.md 13.2a). '
        'Families named "fine interleaving" preempt before every access to shared state; their schedules cannot be forced on the real crate and are reported as engine evidence only. '
        'Bounds per family are in the evidence file; beyond them nothing is claimed.')
IND = (' In addition an inductive step: one complete operation (get with every outcome script and 0 or 3 hooks, return, take, retain of any subset, status) from an ARBITRARY rest state '
       '(max_size, objects out and recycle counts 64-bit symbolic, 0-2 idle objects) must re-establish the rest invariant and the operation\'s post-condition on every path - '
       'sequential histories of any length and any max_size.')
for _p in ('C01', 'C02', 'C09', 'C11'):
    pass
CLAIMED.update({
 'C14': ('model_checking', 'The real MIR of deadpool-sync (SyncWrapper::new / interact / Drop) and deadpool-runtime (spawn_blocking, spawn_blocking_background) on a model of the tokio blocking pool in which queued tasks run in any order on blocking threads: up to 3 interact calls (closure ok / panic; awaited, or cancelled before or after the closure ran), drop of the wrapper at any step. Every creation / closure / destructor event carries the kind of thread it ran on.', '8 C14'),
 'C15': ('model_checking', 'Manager::recycle of deadpool-sqlite, deadpool-r2d2 and deadpool-diesel (real MIR, linked with the real SyncWrapper MIR) for every history of the wrapper (fresh, used, poisoned, cancelled closure still queued that will panic or not), every backend answer (healthy, broken, invalid, wrong echo, failing ping / custom check, broken transaction manager) and every diesel recycling method, with the blocking pool running tasks in any order. recycle() may return Ok only for an unpoisoned, healthy connection and consults the backend only on blocking threads; composed with C04 and C14.', '8 C15'),
 'C16': ('other', 'Per-path obligations over the real MIR of postgres/src/lib.rs and config.rs on a model of tokio_postgres::Client: recycle for every method and reply; every sequence of <= 3-4 statement-cache operations over keys differing in text or only in types, plus overlapping prepares; every fate of 2-3 clients in the statement_caches registry.', '8 C16'),
 'C17': ('other', 'Per-path obligations over Manager::recycle of the three redis flavours with the ping counter symbolic (64 bit) and the reply an arbitrary string / error / never: commands sent, echo check, pairwise freshness of the PING values over 2-3 recycles whatever happened to the earlier ones.', '8 C17'),
 'C18': ('other', 'Config::get_pg_config executed symbolically with every payload symbolic (z3 strings, ports, addresses, durations) over a covering family of Option-tag patterns; ~15 000 obligations (error variants exactly when documented, each set option in effect, list order, defaults only without hosts, no panic), each proved valid by z3 under its path condition; falsified obligations are concretised and run through the real function natively.', '8 C18'),
 'C19': ('other', 'builder() and Default of the redis / cluster / sentinel Config and every From conversion between connection descriptions and the redis crate types, symbolic payloads, every variant and Option tag: ambiguity rejected before any client is built, defaults, exact server lists, error mapping, forth-and-back identity. The serde round-trip clause of C19 is NOT covered (see not_applicable note in DESIGN.md section 10): the check claims the rest of the property.', '8 C19'),
})
NA = {
 
 
}
def main():
    hooks_commit = subprocess.run(['git', '-C', '/repo', 'log', '--format=%H', '--grep', 'verif hooks'], capture_output=True, text=True).stdout.split()
    m = {'version': 1, 'setup_cmd': './setup.sh',
         'hooks': {'guard': '--cfg deadpool_verif', 'enable': "RUSTFLAGS='--cfg deadpool_verif' (set by ./check for the MIR dump and for the native replay driver build)",
                   'baseline_off_cmd': 'cd /repo && cargo test --workspace --no-fail-fast --offline', 'source_commits': hooks_commit, 'add_only': True},
         'engines': [{'name': 'mirsym', 'path': 'mirsym/', 'serves_properties': sorted(CLAIMED),
                      'kind_free_text': 'symbolic interpreter for rustc MIR (dumped from /repo on every run) with z3; bounded symbolic exploration + native replay driver in replay/'}],
         'checks': [], 'notes': 'see DESIGN.md (section 13 is authoritative); exit 0 = held (possibly with KNOWN-FINDING lines), 1 = VIOLATION (natively reproduced, or marked [engine evidence only: reason]), 2 = inconclusive',
         'not_applicable': [{'property_id': k, 'reason': v} for k, v in sorted(NA.items())]}
    for pid, (level, text, ref) in sorted(CLAIMED.items()):
        if pid in ('C01', 'C02', 'C09', 'C11'): text = text + IND
        m['checks'].append({'property_id': pid, 'quick_cmd': f'./check {pid} --tier quick', 'thorough_cmd': f'./check {pid} --tier thorough',
                            'evidence_file': f'/verif/evidence/{pid}.json', 'replay_cmd_template': f'./check {pid} --replay {{path}}', 'engine': 'mirsym',
                            'level_claimed': {'category': level, 'text': text, 'design_ref': 'DESIGN.md section ' + ref}, 'level_note': NOTE,
                            'technique': 'solver-based: symbolic execution of rustc MIR (mirsym) with z3 - ' + ('bounded symbolic exploration with state merging, counterexamples replayed natively' if level == 'model_checking' else 'per-path obligations over symbolic inputs proved valid by z3, counterexamples concretised and run natively where a native stand-in exists')})
    json.dump(m, open('/verif/MANIFEST.json', 'w'), indent=1)
main()
