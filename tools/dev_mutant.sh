#!/bin/bash
# usage: dev_mutant.sh <seeded id> <property> [extra check args]  -- like try_mutant.sh but against the scratch worktree
# /tmp/devrepo (created on demand, build output in /tmp/devbuild) so that /repo is never touched
id=$1; prop=$2; shift 2
W=/tmp/devrepo${DEVN:-}; B=/tmp/devbuild${DEVN:-}
[ -d $W ] || git -C /repo worktree add --detach $W HEAD >/dev/null 2>&1
cd $W || exit 9
git checkout -q --detach $(git -C /repo rev-parse HEAD); git reset -q --hard HEAD
if [ "$id" != none ]; then
p=/verif/seeded/$id/patch.diff; [ -f $p ] || p=/verif/seeded/$id/patch.orig.diff; [ -f $p ] || p=/verif/seeded/$id.diff
id=$(echo $id | tr / _)
if ! git apply $p 2>/tmp/apply_$id.err && ! { git reset -q --hard HEAD; git apply -3 $p 2>>/tmp/apply_$id.err; }; then echo "PATCH DOES NOT APPLY: $id"; cat /tmp/apply_$id.err; git reset -q --hard HEAD; exit 8; fi
fi
cd /verif; VERIF_REPO=$W VERIF_BUILD=$B ./check $prop --tier quick --no-evidence "$@" > /tmp/dev_${id}_$prop.log 2>&1; rc=$?
cd $W; git reset -q --hard HEAD
echo "== $id vs $prop: exit $rc"; grep -E "VIOLATION|KNOWN|INCONCL" -A1 /tmp/dev_${id}_$prop.log | head -${LINES_MAX:-8}
exit 0
