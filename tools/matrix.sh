#!/bin/bash
# matrix.sh <slot> <pairs...>   e.g. matrix.sh 2 "C01a C01" "C02b C07"   -- runs tools/dev_mutant.sh for each pair in scratch slot <slot>
slot=$1; shift
export DEVN=$slot LINES_MAX=${LINES_MAX:-4}
for m in "$@"; do /verif/tools/dev_mutant.sh $m; done
