#!/bin/bash
# save_seeded.sh <id>: collect a sub-agent's result from /tmp/mut/<id> into /verif/seeded/<id> and remove the worktree
id=$1; d=/tmp/mut/$id
[ -f $d/patch.diff ] || { echo "$id: no patch.diff"; exit 1; }
demo=$(find $d -name seeded_demo.rs -not -path "*/target/*" | head -1)
[ -n "$demo" ] || { echo "$id: no demonstration found"; exit 1; }
mkdir -p /verif/seeded/$id
# the patch must contain the library change only
(cd $d && git diff -- . ':(exclude)*seeded_demo.rs' ':(exclude)patch.diff' ':(exclude)SEEDED.md') > /verif/seeded/$id/patch.diff
[ -s /verif/seeded/$id/patch.diff ] || cp $d/patch.diff /verif/seeded/$id/patch.diff
cp $demo /verif/seeded/$id/seeded_demo.rs
echo "${demo#$d/}" > /verif/seeded/$id/demo_path.txt
cp $d/SEEDED.md /verif/seeded/$id/ 2>/dev/null
git -C /repo worktree remove --force $d && echo "$id saved (demo ${demo#$d/})"
