#!/bin/bash
# redis_suite_cmp.sh <seeded id>: the redis tests need a server; shows that the per-test results of deadpool-redis are the same with and without the change
id=$1; wt=/tmp/mutv/redis_cmp_$id; rm -rf $wt; git -C /repo worktree add -q --detach $wt HEAD; cd $wt
export CARGO_TARGET_DIR=/tmp/mutv/target CARGO_NET_OFFLINE=true
f() { cargo test --offline -p deadpool-redis --features serde,cluster,sentinel --no-fail-fast 2>&1 | grep -E "^test .* (ok|FAILED)$" | sort; }
f > /tmp/redis_without_$id.txt
git apply /verif/seeded/$id/patch.diff || echo "PATCH DOES NOT APPLY"
f > /tmp/redis_with_$id.txt
cd /; git -C /repo worktree remove --force $wt
if diff -q /tmp/redis_without_$id.txt /tmp/redis_with_$id.txt >/dev/null; then echo "REDIS SUITE $id: identical per-test results with and without the change ($(grep -c ' ok$' /tmp/redis_with_$id.txt) ok, $(grep -c FAILED$ /tmp/redis_with_$id.txt) failed)"; else echo "REDIS SUITE $id DIFFERS"; diff /tmp/redis_without_$id.txt /tmp/redis_with_$id.txt; fi
