#!/usr/bin/env python3
"""writes seeded/<id>/meta.json for round g (10 properties) from the table below + verify.log"""
import json, os, re
HERE = os.path.dirname(os.path.dirname(os.path.abspath(__file__)))
T = {
 'C05g': ('C05', 'unmanaged Object::drop discards the object (drop(obj); return) when std::thread::panicking() is true, leaving size / permits / available untouched',
          'a caller that panics and unwinds while holding an unmanaged Object while the pool stays open: the object is destroyed by the open pool, its slot is leaked, status() is wrong at rest',
          'C05: new action "an Object is returned while its holder unwinds" (engine: thread.panicking during Drop; native driver: the object is moved into a closure that panics) + family; natively confirmed; missed before'),
 'C06g': ('C06', 'the final sweep of close() takes the slots mutex with try_lock() and is skipped when the mutex is busy',
          'an idle object whose permit resize(0) cannot acquire (handed to a queued get) and another thread inside a slots critical section when close() reaches the sweep',
          'C06 (thread-level families with the lock-probe side condition: the crate now probes a lock, so callbacks under the lock are schedule points); see verify.log / DESIGN for the run on the ported patch'),
 'C08g': ('C08', 'impl Drop for PoolInner detaches every idle object when the last pool handle goes away',
          'an idle object and the last Pool handle dropped without close(): Manager::detach is invoked outside get / retain / take / resize / close / return',
          'C08 (family "objects that outlive every pool handle" of the managed world: user code only inside operations), natively confirmed'),
 'C10g': ('C10', 'try_recycle() returns Timeout(_) and NoRuntimeSpecified of the timed recycle step to the caller instead of counting the object as rejected',
          'a runtime, a recycle timeout, an idle object and a Manager::recycle that finishes after the deadline: get() fails with Timeout(Recycle)',
          'C10: new oracle "Timeout(Recycle) never surfaces" (the C04 oracle already reported it under C04; the C10 check only prints its own property), natively confirmed; missed by C10 before'),
 'C12g': ('C12', 'unmanaged close() clears the queue first and closes the semaphores afterwards; clear() runs the destructors after releasing the lock',
          'a return (or try_add) that completes entirely between clear() and Semaphore::close(): the closed pool keeps the object',
          'C12 (thread-level close families), natively confirmed'),
 'C14g': ('C14', 'SyncWrapper counts in-flight interact() calls (incremented before the await, decremented after it) and Drop returns early while the count is positive',
          'an interact() future cancelled after its first poll (the count is never decremented), the closure finishes, the wrapper is dropped: the value is destroyed on the dropping thread',
          'C14 after Atomic::get_mut was modelled (before: inconclusive); engine evidence only'),
 'C16g': ('C16', 'postgres Manager::recycle keeps a client whose recycling query was answered with a server-side DbError while the socket is still open',
          'recycling method Verified / Clean / Custom and a server that rejects the check with an ErrorResponse',
          'C16 after tokio_postgres::Error::as_db_error was modelled (either answer; before: inconclusive); engine evidence only'),
 'C17g': ('C17', 'the standalone manager pools a PooledConnection { conn, watching } and sends UNWATCH only when the flag is set; the flag is maintained by the wrapper\'s ConnectionLike impl only',
          'a WATCH issued through the raw connection (Deref / AsMut), the object returned, the next get(): recycle sends only PING',
          'C17 after the world builds the pooled value from the type recycle() takes (a wrapper struct of the crate: every other field is arbitrary); before: inconclusive (the world hard-coded the pooled type); engine evidence only'),
 'C18g': ('C18', 'get_pg_config() skips entries of the plural hosts that equal the singular host',
          'host and hosts both set with a common entry: a host is dropped while every port is kept',
          'C18 after Option<&String> equality was modelled (before: inconclusive), natively confirmed'),
 'C19g': ('C19', 'check_url_scheme() compares a fixed-length byte prefix of the URL (trimmed[..scheme.len()]) with the known schemes',
          'a malformed URL with a multi-byte character across byte offset 5, 6, 7 or 11: builder() panics instead of returning a configuration error',
          'NOT DETECTED: the C19 check is inconclusive on this change (exit 2, "Unmodelled: str::trim_start_matches"): strings are z3 sequences of characters, byte offsets and char boundaries of UTF-8 text are not modelled (DESIGN 13.7 round g)'),
}
for id_, (prop, change, needs, caught) in T.items():
    d = os.path.join(HERE, 'seeded', id_)
    log = open(os.path.join(d, 'verify.log')).read() if os.path.exists(os.path.join(d, 'verify.log')) else ''
    m = re.search(r'RESULT id=\S+ suite_with_change_exit=(\d+) demo_with_change_exit=(\d+) demo_without_change_exit=(\d+)', log)
    a, b, c = (int(x) for x in m.groups()) if m else (None, None, None)
    redis = prop in ('C17', 'C19')
    meta = {'id': id_, 'breaks_property': prop, 'change': change, 'needs_to_manifest': needs, 'caught_by': caught,
            'origin': 'independent sub-agent given only the property text, the ideas of earlier rounds and a scratch worktree of /repo (HEAD 7ba5c22 incl. hooks and fixes); patch.diff is its diff' + (' ported by hand to the tree with fix 2f7402d (patch.orig.diff is the sub-agent\'s)' if os.path.exists(os.path.join(d, 'patch.orig.diff')) else ''),
            'confirmed_by_me': {'how': 'tools/verify_seeded.sh in a scratch worktree of the current /repo HEAD (cargo test offline)',
                                'existing_tests_of_the_crate_pass_with_change': (a == 0) if not redis else 'the redis tests need a server and fail with and without the change (the sub-agent compared the per-test lists; I compared them for C17f, same suite)',
                                'demonstration_fails_with_change': b not in (0, None), 'demonstration_passes_without_change': c == 0, 'note': ''},
            'files': sorted(os.listdir(d))}
    json.dump(meta, open(os.path.join(d, 'meta.json'), 'w'), indent=1)
    print(id_, a, b, c)
