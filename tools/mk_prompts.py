#!/usr/bin/env python3
"""mk_prompts.py <round letter> <property ids...>: writes /tmp/mut/prompts/<id>.txt for sub-agents (property text + ideas already used; nothing else from /verif)"""
import json, glob, sys
rnd = sys.argv[1]; want = sys.argv[2:]
props = {}
for l in open('/verif/properties.jsonl'):
    d = json.loads(l); props[d['id']] = d
ideas = {}
for m in sorted(glob.glob('/verif/seeded/*/meta.json')):
    d = json.load(open(m)); bp = d.get('breaks_property')
    for b in (bp if isinstance(bp, list) else [bp]):
        if b: ideas.setdefault(b[:3], []).append(d.get('change', ''))
for pid in want:
    p = props[pid]; wt = f'/tmp/mut/{pid}{rnd}'
    txt = f"""You are helping to test a verification framework for the Rust project bikeshedder/deadpool (an async object/connection pool). Your job: write ONE realistic change (a "seeded defect") to the library source that BREAKS the semantic property given below, while the library still compiles and its existing test suite still passes. You work ONLY in your own scratch git worktree: {wt} (a worktree of the repository; already created). Do not touch /repo or /verif, do not read anything under /verif. No network is available (cargo must be run with --offline; set CARGO_TARGET_DIR=/tmp/mut/target_{pid}{rnd} so build output stays out of the tree). Do NOT use `git stash` (the stash is shared between all worktrees of the repository and other agents work in parallel): to compare with the unchanged tree use `git diff > patch.diff; git apply -R patch.diff; ...; git apply patch.diff`.

THE PROPERTY ({pid}):
{json.dumps(p, indent=1)}

REQUIREMENTS FOR THE CHANGE
- It must look like something a maintainer could plausibly write (a refactor, an "optimisation", a reordered statement, a fast path, a changed condition, an off-by-one, a forgotten case) - not sabotage, not a special case on magic values.
- It must need something SPECIFIC to manifest: a particular interleaving, a crash / panic / cancellation at a particular point, a multi-step sequence of operations, an unusual input or configuration, or two cooperating sites that each look fine alone. A change that ordinary use exposes at once is not wanted.
- It must compile (cargo build --offline for the affected crates, with the features the tests use) and the EXISTING tests of the affected crate(s) must still pass unedited (e.g. `cargo test --offline -p deadpool --features rt_tokio_1,serde`, `-p deadpool-sync`, `-p deadpool-postgres --features serde -- config` (the other postgres tests need a server and fail anyway), `-p deadpool-redis --features serde,cluster,sentinel` (tests needing a server fail with or without your change - compare with the unchanged tree), `-p deadpool-sqlite`, `-p deadpool-r2d2`, `-p deadpool-diesel --features sqlite`).
- Keep code behind `#[cfg(deadpool_verif)]` (calls to crate::verif::point(..), verif_snapshot accessors) in place and unchanged where possible; they are inert instrumentation. If you move code around, move those lines with the statements they sit next to.
- Ideas ALREADY USED for this property by earlier rounds - do NOT repeat these or near variants; pick a different clause of the property, a different function, or a different mechanism (read the property text clause by clause and choose one that none of these touches):
""" + ''.join(f'    * {i}\n' for i in ideas.get(pid, [])) + f"""
DELIVERABLES (all inside {wt})
1. The library change itself, left applied in the worktree (uncommitted).
2. A demonstration: an integration test file named `seeded_demo.rs` in the tests directory of the appropriate crate (e.g. {wt}/tests/seeded_demo.rs for the core crate, {wt}/sync/tests/seeded_demo.rs, {wt}/postgres/tests/seeded_demo.rs, {wt}/redis/tests/seeded_demo.rs ...) that FAILS with your change and PASSES on the unchanged tree (verify both). It must be deterministic (force the interleaving with barriers / manual polling / a scripted manager rather than hoping for a race; if an interleaving cannot be forced from outside, a demonstration that reliably shows the consequence is fine). It must not need a database or redis server.
3. `{wt}/patch.diff`: `git diff` of the library change only (not the demo).
4. `{wt}/SEEDED.md`: 10-20 lines: what was changed, which clause of the property it breaks, exactly what is needed for it to manifest, and the commands you ran with their results (existing tests with the change: pass; demo with the change: fail; demo without: pass).
Finally reply with a short summary (what you changed, what it needs to manifest, test results). Remove /tmp/mut/target_{pid}{rnd} when you are done."""
    open(f'/tmp/mut/prompts/{pid}.txt', 'w').write(txt)
print('ok', want)
