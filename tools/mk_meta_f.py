#!/usr/bin/env python3
"""writes seeded/<id>/meta.json for round f from the table below + verify.log"""
import json, os, re
HERE = os.path.dirname(os.path.dirname(os.path.abspath(__file__)))
T = {
 'C01f': ('C01', 'UnreadyObject::drop, when dropped while the thread unwinds from a panic, gives the size slot back but forgets the object (no detach, no destructor)',
          'a panic of Manager::recycle or of a hook while an object is in hand, contained by the caller, then the pool is used up to max_size again: max_size + k objects exist',
          'C01 (ground-truth object count, panic outcomes), natively confirmed'),
 'C02f': ('C02', 'timeout_get() gets a fast path for wait = 0 that compares the number of users with config.max_size (the size the pool was built with) and answers Timeout(Wait) without asking the semaphore',
          'a pool grown by resize() beyond its configured max_size, the original number of objects out, then a non-blocking get',
          'C02 (capacity probe after resize), natively confirmed'),
 'C03f': ('C03', 'creation moved out of the recycle loop: try_create() takes the permit by value and forgets it before the post_create hooks run; a hook error gives it back by hand, an abandoned call does not',
          'a get() on the create path abandoned (dropped / timed out / hook panic) while a post_create hook is running: the permit is lost for good',
          'C03 (status / permit differential after abandonment at every await), natively confirmed'),
 'C04f': ('C04', 'apply_timeout() looks durations up through a new Timeouts::get(TimeoutType) whose Recycle arm returns self.create',
          'create and recycle timeouts that differ, an idle object, a slow recycle: it hangs or a healthy object is rejected; without runtime a healthy idle object is discarded',
          'C04 (per-call timeout families), natively confirmed; also C10'),
 'C05f': ('C05', 'unmanaged Object::take() calls release_slots(), which "restores" size_semaphore to max_size - size by reading size and available_permits() and adding the difference',
          'a slot in flight (an adder that was handed its permit but has not been polled, or is between acquire and size += 1) while take / remove run: the slot is issued twice, the pool accepts max_size + 1 objects',
          'C05: new oracle "free slots + slots promised to waiting adders + objects held = max_size whenever no call is mid-step" (family "3 tasks, waiting adders and getters"), natively confirmed; missed before'),
 'C06f': ('C06', 'return_object() adds the permit before releasing the slots lock, and close() drops its final sweep of the idle queue "because the window is closed now"',
          'an exhausted pool with a queued get(), an object returned (its permit goes straight to the waiter), close() before the waiter is polled: the closed pool keeps the object',
          'C06, natively confirmed'),
 'C07f': ('C07', 'return_object() keeps a surplus object when callers are waiting (size <= max_size || users >= size)',
          'a shrink while more than n objects are out, a caller blocked in get(), one surplus object returned: the waiter is admitted above the new limit',
          'C07, natively confirmed'),
 'C08f': ('C08', 'a non-blocking get (wait = 0) takes the slots mutex with try_lock(); when it is busy the pop is skipped and the call creates',
          'idle objects, a non-blocking get and another thread inside a slots critical section (retain predicate): an object is created although idle ones exist, the queue-mode order is bypassed',
          'C08: new thread-level family "non-blocking get racing retain with 2 idle objects" (lock-probe side condition), natively confirmed; missed before (the same change is caught by C01 as C01e)'),
 'C09f': ('C09', 'retain() gets a fast path: position() finds the first rejected object, the removal loop then asks the predicate about that object a second time',
          'a stateful FnMut predicate whose answer depends on how often it was called, and at least one rejected object',
          'C09 (predicate consulted exactly once per idle object; stateful predicates), natively confirmed'),
 'C10f': ('C10', 'timeout_get() starts with timeouts.or(self.timeouts()): every per-call timeout left None inherits the pool-level value',
          'a pool with configured timeouts and a timeout_get() whose field is None, with the slot / create / recycle finishing after the pool-level deadline',
          'C10: new oracle "a deadline of a kind whose effective timeout is None never fires" + family with pool-level and per-call timeouts; natively confirmed. First inconclusive (Option::or resolved to the new Timeouts::or: fixed in call resolution), then missed'),
 'C11f': ('C11', 'the queue rebuild of a shrink becomes vec.extend(drain(..).take(max_size)): idle objects beyond max_size are dropped without size -= 1 and without detach',
          'idle objects whose permits are with woken, not yet polled waiters when resize(n) / close() run',
          'C11, natively confirmed'),
 'C12f': ('C12', 'unmanaged clear() returns early when available <= 0',
          'a caller parked in get() (available = -1), close(), then the object is returned before the woken waiter is polled: the closed pool keeps it',
          'C12, natively confirmed'),
 'C13f': ('C13', 'a rejected recycle of the last idle object is replaced in place (try_replace) without resetting the metrics',
          'the last idle object, reused at least once before, is rejected by Manager::recycle: the replacement reports the old recycle_count / created / recycled',
          'C13, natively confirmed'),
 'C14f': ('C14', 'SyncWrapper::drop ships only drop(arc) to the blocking pool; the wrapper\'s own Arc field is released by the drop glue on the dropping thread',
          'the pool thread runs drop(arc) before the dropping thread has released its field: the value is destroyed on the async thread',
          'C14: new action "the task Drop spawns runs before the drop glue continues" (a spawn is a schedule point of the async thread); engine evidence only. First inconclusive: the oracle "destroyed while a closure is using it" counted the task whose closure had already returned - corrected'),
 'C15f': ('C15', 'diesel perform_recycle_check: the shared tail of the Verified / CustomQuery arms loses its `?` (let _ = ping.map_err(..))',
          'recycling method Verified or CustomQuery and a connection whose test query fails while its transaction manager is fine',
          'C15 (engine evidence only: no scriptable diesel backend)'),
 'C16f': ('C16', 'hand-written PartialEq / Hash for StatementCacheKey: eq compares the types with zip().all() (no length check), hash covers the text only',
          'the same query text with two type lists one of which is a prefix of the other ([] vs [INT4])',
          'C16 after the key equality was taken from the crate\'s PartialEq::eq MIR (it had been a hand model of the derive); engine evidence only; missed before'),
 'C17f': ('C17', 'redis recycle() sends the same UNWATCH + PING <n> pipeline a second time when the echo does not match',
          'a reply that is a well-formed string other than <n>, followed by a matching echo: the connection is kept, the PING value is reused',
          'C17 (after RangeInclusive was modelled; before: inconclusive), engine evidence only'),
 'C18f': ('C18', 'Config::options is appended to the options of the URL instead of overriding them',
          'a URL that carries options and Config::options set',
          'C18 after tokio_postgres::Config getters and format!() were modelled (before: inconclusive); a text produced by format!() is an unconstrained string, so the native run must itself violate the obligation; natively confirmed'),
 'C19f': ('C19', 'PoolConfig::max_size gets #[serde(default)]: an omitted max_size becomes 0 instead of being rejected / the documented cpu_count * 4',
          'a deserialised pool section that leaves out max_size',
          'C19: new Kani harnesses missing_max_size_* (a document without max_size is rejected or yields a value that can be cpu_count * 4; exact comparison in the native replay), natively confirmed; missed before'),
}
for id_, (prop, change, needs, caught) in T.items():
    d = os.path.join(HERE, 'seeded', id_)
    log = open(os.path.join(d, 'verify.log')).read() if os.path.exists(os.path.join(d, 'verify.log')) else ''
    m = re.search(r'RESULT id=\S+ suite_with_change_exit=(\d+) demo_with_change_exit=(\d+) demo_without_change_exit=(\d+)', log)
    a, b, c = (int(x) for x in m.groups()) if m else (None, None, None)
    note = ''
    if prop == 'C17' and a: note = 'the redis integration tests need a server and fail with and without the change (same list); the config doctests pass'
    meta = {'id': id_, 'breaks_property': prop, 'change': change, 'needs_to_manifest': needs, 'caught_by': caught,
            'origin': 'independent sub-agent given only the property text, the ideas of earlier rounds and a scratch worktree of /repo (HEAD incl. hooks and fixes); patch.diff is its diff',
            'confirmed_by_me': {'how': 'tools/verify_seeded.sh in a scratch worktree of the current /repo HEAD (cargo test offline)',
                                'existing_tests_of_the_crate_pass_with_change': (a == 0) if prop != 'C17' else 'same failures as without the change (server needed)',
                                'demonstration_fails_with_change': b not in (0, None), 'demonstration_passes_without_change': c == 0, 'note': note},
            'files': sorted(os.listdir(d))}
    json.dump(meta, open(os.path.join(d, 'meta.json'), 'w'), indent=1)
    print(id_, a, b, c)
