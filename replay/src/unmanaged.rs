//! unmanaged-pool replay: same protocol as the managed driver (one JSON line of observations per trace step)
use std::collections::HashMap;
use std::future::Future;
use std::panic::{catch_unwind, AssertUnwindSafe};
use std::pin::Pin;
use std::sync::mpsc;
use std::sync::{Arc, Mutex};
use std::task::{Context, Poll};
use std::time::Duration;

use deadpool::unmanaged::{Object, Pool, PoolConfig, PoolError};
use deadpool::Runtime;
use serde_json::{json, Value};

use crate::{actor_of, ev, noop_waker, sync_point, Report, Sh, Shared, WorkerCtx, CTX};

pub struct UObj {
    pub id: u64,
    sh: Sh,
}
impl Drop for UObj {
    fn drop(&mut self) {
        let a = actor_of(&self.sh);
        ev(&self.sh, json!(["destroy", format!("obj:{}", self.id), a]));
    }
}

fn new_obj(sh: &Sh) -> UObj {
    let id = { let mut g = sh.lock().unwrap(); g.next_id += 1; g.next_id };
    UObj { id, sh: sh.clone() }
}

fn err_desc(e: &PoolError) -> &'static str {
    match e { PoolError::Timeout => "Timeout", PoolError::Closed => "Closed", PoolError::NoRuntimeSpecified => "NoRuntimeSpecified" }
}

enum Out { Obj(Object<UObj>), Raw(UObj), Added(Result<(), (UObj, PoolError)>) }
type UFut = Pin<Box<dyn Future<Output = Result<Out, PoolError>>>>;
#[derive(Default)]
struct UTask { fut: Option<UFut>, objs: Vec<Object<UObj>> }

fn finish(sh: &Sh, t: &mut UTask, r: Result<Out, PoolError>) -> Value {
    match r {
        Ok(Out::Obj(o)) => { let id = format!("obj:{}", o.id); t.objs.push(o); json!(["ok", "object", id]) }
        Ok(Out::Raw(o)) => { let id = format!("obj:{}", o.id); ev(sh, json!(["handed", id, "remove"])); drop(o); json!(["ok", "removed", id]) }
        Ok(Out::Added(Ok(()))) => json!(["ok", "added"]),
        Ok(Out::Added(Err((o, e)))) => { let id = format!("obj:{}", o.id); ev(sh, json!(["handed", id, "refused_add"])); drop(o); json!(["err", err_desc(&e), id]) }
        Err(e) => json!(["err", err_desc(&e)]),
    }
}

fn exec(pool: &Pool<UObj>, sh: &Sh, tasks: &mut HashMap<String, UTask>, step: &Value) -> Value {
    let a = &step["act"]; let kind = a[0].as_str().unwrap();
    let waker = noop_waker(); let mut cx = Context::from_waker(&waker);
    let tname = step["thread"].as_str().unwrap().to_string();
    let t = tasks.entry(tname).or_default();
    match kind {
        "uget" | "uadd" | "poll" => {
            if kind != "poll" {
                let v = &step["variant"];
                let name = if v.is_array() { v[0].as_str().unwrap().to_string() } else { v.as_str().unwrap().to_string() };
                let p = pool.clone();
                match name.as_str() {
                    "try_get" => { let r = catch_unwind(AssertUnwindSafe(|| p.try_get()));
                        return match r { Ok(r) => finish(sh, t, r.map(Out::Obj)), Err(_) => json!(["panic"]) }; }
                    "try_remove" => { let r = catch_unwind(AssertUnwindSafe(|| p.try_remove()));
                        return match r { Ok(r) => finish(sh, t, r.map(Out::Raw)), Err(_) => json!(["panic"]) }; }
                    "try_add" => { let o = new_obj(sh); let r = catch_unwind(AssertUnwindSafe(|| p.try_add(o)));
                        return match r { Ok(r) => finish(sh, t, Ok(Out::Added(r))), Err(_) => json!(["panic"]) }; }
                    "get" => t.fut = Some(Box::pin(async move { p.get().await.map(Out::Obj) })),
                    "remove" => t.fut = Some(Box::pin(async move { p.remove().await.map(Out::Raw) })),
                    "timeout_get" => { let d = if v[1].is_null() { None } else { Some(Duration::from_nanos(v[1].as_u64().unwrap())) };
                        t.fut = Some(Box::pin(async move { p.timeout_get(d).await.map(Out::Obj) })) }
                    "add" => { let o = new_obj(sh); t.fut = Some(Box::pin(async move { Ok(Out::Added(p.add(o).await)) })) }
                    other => panic!("variant {}", other),
                }
            }
            let mut f = t.fut.take().expect("no future");
            match catch_unwind(AssertUnwindSafe(|| f.as_mut().poll(&mut cx))) {
                Err(_) => { let _ = catch_unwind(AssertUnwindSafe(move || drop(f))); json!(["panic"]) }
                Ok(Poll::Pending) => { t.fut = Some(f); json!(["pending"]) }
                Ok(Poll::Ready(r)) => finish(sh, t, r),
            }
        }
        "cancel" => { let f = t.fut.take().expect("no future"); if catch_unwind(AssertUnwindSafe(move || drop(f))).is_ok() { json!(["cancelled"]) } else { json!(["panic"]) } }
        "drop" if a.get(3).and_then(|x| x.as_str()) == Some("unwinding") => {
            // the holder of the object panics: the Object is dropped while its thread unwinds (std::thread::panicking() is true in Drop)
            let o = t.objs.remove(a[2].as_u64().unwrap() as usize);
            let _ = catch_unwind(AssertUnwindSafe(move || { let _held = o; panic!("scripted panic of the caller that holds an object") }));
            json!(["ok"])
        }
        "drop" => { let o = t.objs.remove(a[2].as_u64().unwrap() as usize); if catch_unwind(AssertUnwindSafe(move || drop(o))).is_ok() { json!(["ok"]) } else { json!(["panic"]) } }
        "take" => { let o = t.objs.remove(a[2].as_u64().unwrap() as usize);
            let r = catch_unwind(AssertUnwindSafe(|| { let raw = Object::take(o); ev(sh, json!(["handed", format!("obj:{}", raw.id), "take"])); drop(raw); }));
            if r.is_ok() { json!(["ok", "taken"]) } else { json!(["panic"]) } }
        "close" | "tclose" => { if catch_unwind(AssertUnwindSafe(|| pool.close())).is_ok() { json!(["ok"]) } else { json!(["panic"]) } }
        "status" => { let s = pool.status(); json!(["ok", [s.max_size, s.size, s.available, s.waiting]]) }
        "is_closed" => json!(["ok", pool.is_closed()]),
        other => panic!("unknown action {}", other),
    }
}

fn observe(pool: &Pool<UObj>) -> (Value, Value) {
    // on a helper thread with a deadline: while a parked thread holds the queue lock (only possible in changed code) the
    // observation cannot be made - reported like a panicking observation, which is what the engine records for such states
    let (tx, rx) = std::sync::mpsc::channel();
    let p2 = pool.clone();
    std::thread::spawn(move || {
        let v = match catch_unwind(AssertUnwindSafe(|| observe_inner(&p2))) { Ok(v) => v, Err(_) => (json!("panic"), json!("panic")) };
        let _ = tx.send(v);
    });
    rx.recv_timeout(Duration::from_millis(1500)).unwrap_or((json!("panic"), json!("panic")))
}

fn observe_inner(pool: &Pool<UObj>) -> (Value, Value) {
    let s = pool.status(); let n = pool.verif_snapshot();
    (json!([s.max_size, s.size, s.available, s.waiting]),
     json!({"permits": n.permits, "size_permits": n.size_permits, "closed": n.closed, "size": n.size, "available": n.available, "queue": n.queue, "max_size": n.max_size}))
}

fn build(trace: &Value, sh: &Sh) -> Pool<UObj> {
    let p = &trace["pool"];
    match p["ctor"].as_str().unwrap() {
        "new" => Pool::new(p["max_size"].as_u64().unwrap() as usize),
        "from_config" => {
            let mut c = PoolConfig::new(p["max_size"].as_u64().unwrap() as usize);
            c.timeout = if p["config_timeout"].is_null() { None } else { Some(Duration::from_nanos(p["config_timeout"].as_u64().unwrap())) };
            c.runtime = if p["runtime"].as_bool().unwrap() { Some(Runtime::Tokio1) } else { None };
            Pool::from_config(&c)
        }
        _ => { let n = p["initial"].as_u64().unwrap(); let v: Vec<UObj> = (0..n).map(|_| new_obj(sh)).collect(); Pool::from(v) }
    }
}

pub fn run(trace: &Value) {
    let sh: Sh = Arc::new(Mutex::new(Shared::default()));
    if trace["threads"].as_bool().unwrap_or(false) { return run_threads(trace, sh); }
    let rt = tokio::runtime::Builder::new_current_thread().enable_time().start_paused(true).build().unwrap();
    rt.block_on(async {
        let pool = build(trace, &sh);
        println!("{}", json!({"i": -1, "res": ["built"], "events": []}));
        let mut tasks: HashMap<String, UTask> = HashMap::new();
        for (i, step) in trace["actions"].as_array().unwrap().iter().enumerate() {
            crate::progress(i);
            sh.lock().unwrap().actor = step["thread"].as_str().unwrap().to_string();
            if let Some(adv) = step.get("advance_ns").and_then(|v| v.as_u64()) { if adv > 0 { tokio::time::advance(Duration::from_nanos(adv)).await; } }
            let res = exec(&pool, &sh, &mut tasks, step);
            let (status, snap) = observe(&pool);
            let events = std::mem::take(&mut sh.lock().unwrap().events);
            println!("{}", json!({"i": i, "res": res, "events": events, "status": status, "snap": snap, "mismatch": null, "script_left": 0}));
        }
        std::mem::forget(tasks);
    });
}

fn run_threads(trace: &Value, sh: Sh) {
    let pool = build(trace, &sh);
    println!("{}", json!({"i": -1, "res": ["built"], "events": []}));
    deadpool::verif::set_point_callback(Some(Arc::new(|name: &'static str| sync_point(name))));
    struct Worker { cmd: mpsc::Sender<Option<Value>>, resume: mpsc::Sender<()>, report: mpsc::Receiver<Report>, busy: bool }
    let mut workers: HashMap<String, Worker> = HashMap::new();
    let mut names: Vec<String> = vec![];
    for step in trace["actions"].as_array().unwrap() { let n = step["thread"].as_str().unwrap().to_string(); if !names.contains(&n) { names.push(n); } }
    for n in &names {
        let (cmd_tx, cmd_rx) = mpsc::channel::<Option<Value>>();
        let (res_tx, res_rx) = mpsc::channel::<()>();
        let (rep_tx, rep_rx) = mpsc::channel::<Report>();
        let pool2 = pool.clone(); let sh2 = sh.clone(); let name = n.clone();
        std::thread::spawn(move || {
            CTX.with(|c| *c.borrow_mut() = Some(WorkerCtx { name: name.clone(), report: rep_tx.clone(), resume: res_rx, cb_points: std::cell::Cell::new(false) }));
            let mut tasks: HashMap<String, UTask> = HashMap::new();
            while let Ok(Some(step)) = cmd_rx.recv() {
                let r = exec(&pool2, &sh2, &mut tasks, &step);
                rep_tx.send(Report::Done(r)).unwrap();
            }
            std::mem::forget(tasks);
        });
        workers.insert(n.clone(), Worker { cmd: cmd_tx, resume: res_tx, report: rep_rx, busy: false });
    }
    for (i, step) in trace["actions"].as_array().unwrap().iter().enumerate() {
            crate::progress(i);
        let tname = step["thread"].as_str().unwrap();
        let w = workers.get_mut(tname).unwrap();
        if step["act"][0] == "step" {
            if !w.busy { println!("{}", json!({"i": i, "res": ["driver_error", "step on an idle thread"]})); std::process::exit(0); }
            w.resume.send(()).unwrap();
        } else {
            if w.busy { println!("{}", json!({"i": i, "res": ["driver_error", "new operation on a busy thread"]})); std::process::exit(0); }
            w.busy = true; w.cmd.send(Some(step.clone())).unwrap();
        }
        let atomic = step["atomic"].as_bool().unwrap_or(false);
        let res = loop { match w.report.recv_timeout(Duration::from_secs(10)) {
            Ok(Report::AtPoint(_)) if atomic => { w.resume.send(()).unwrap(); continue; }
            Ok(Report::AtPoint(name)) => break json!(["at_point", name]),
            Ok(Report::Done(v)) => { w.busy = false; break v }
            Err(_) => { println!("{}", json!({"i": i, "res": ["driver_error", "thread did not reach a schedule point (blocked?)"]})); std::process::exit(0); }
        } };
        let (status, snap) = observe(&pool);
        let events = std::mem::take(&mut sh.lock().unwrap().events);
        println!("{}", json!({"i": i, "res": res, "events": events, "status": status, "snap": snap, "mismatch": null, "script_left": 0}));
    }
    std::process::exit(0);
}
