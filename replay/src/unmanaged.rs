//! unmanaged-pool replay (filled in with the unmanaged world)
use serde_json::Value;
pub fn run(_trace: &Value) {
    panic!("unmanaged replay not built yet");
}
