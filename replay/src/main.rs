//! Native replay driver: executes a JSON trace (scheduler choices + environment outcomes produced by
//! the symbolic engine) against the real deadpool crate with real tokio, and prints what it observes
//! after every action as one JSON line.  Built with `--cfg deadpool_verif`.
use std::collections::{HashMap, VecDeque};
use std::future::Future;
use std::panic::{catch_unwind, AssertUnwindSafe};
use std::pin::Pin;
use std::sync::{Arc, Mutex};
use std::task::{Context, Poll, RawWaker, RawWakerVTable, Waker};
use std::time::{Duration, Instant};

use serde_json::{json, Value};

mod unmanaged;

use deadpool::managed::{Hook, HookError, Manager, Metrics, Object, Pool, PoolError, QueueMode, RecycleError, RecycleResult, Timeouts};
use deadpool::Runtime;

// ------------------------------------------------------------------ shared log / script
#[derive(Default)]
pub struct Shared {
    pub events: Vec<Value>,
    pub script: VecDeque<Value>,
    pub mismatch: Option<String>,
    pub next_id: u64,
    pub created_at: HashMap<u64, Instant>,
    pub actor: String,
}
pub type Sh = Arc<Mutex<Shared>>;

pub fn ev(sh: &Sh, v: Value) {
    sh.lock().unwrap().events.push(v);
}

// ------------------------------------------------------------------ thread mode: logical threads on OS threads, baton at schedule points
pub enum Report { AtPoint(String), Done(Value) }
pub struct WorkerCtx {
    pub name: String,
    pub report: std::sync::mpsc::Sender<Report>,
    pub resume: std::sync::mpsc::Receiver<()>,
    pub cb_points: std::cell::Cell<bool>,
}
thread_local! { pub static CTX: std::cell::RefCell<Option<WorkerCtx>> = std::cell::RefCell::new(None); }

/// schedule point: report to the controller and wait for the baton (no-op on threads that are not workers)
pub fn sync_point(name: &str) {
    CTX.with(|c| {
        if let Some(ctx) = c.borrow().as_ref() {
            ctx.report.send(Report::AtPoint(name.to_string())).unwrap();
            ctx.resume.recv().unwrap();
        }
    });
}
pub fn actor_of(sh: &Sh) -> String {
    let tl = CTX.with(|c| c.borrow().as_ref().map(|x| x.name.clone()));
    tl.unwrap_or_else(|| sh.lock().unwrap().actor.clone())
}
fn cb_point(name: &str) {
    let on = CTX.with(|c| c.borrow().as_ref().map(|x| x.cb_points.get()).unwrap_or(false));
    if on { sync_point(name); }
}

/// next scripted outcome for an environment call of `kind` (create / recycle / hook / pred)
pub fn next(sh: &Sh, kind: &str) -> String {
    let mut g = sh.lock().unwrap();
    match g.script.pop_front() {
        Some(v) => {
            let k = v[0].as_str().unwrap_or("");
            if k != kind {
                g.mismatch = Some(format!("script has {} where the implementation asked for {}", v, kind));
                return "ok".into();
            }
            v[v.as_array().unwrap().len() - 1].as_str().unwrap().to_string()
        }
        None => {
            g.mismatch = Some(format!("script exhausted at a {} call", kind));
            "ok".into()
        }
    }
}

pub fn noop_waker() -> Waker {
    fn clone(_: *const ()) -> RawWaker { RawWaker::new(std::ptr::null(), &VT) }
    fn noop(_: *const ()) {}
    static VT: RawWakerVTable = RawWakerVTable::new(clone, noop, noop, noop);
    unsafe { Waker::from_raw(RawWaker::new(std::ptr::null(), &VT)) }
}

// ------------------------------------------------------------------ scripted manager
pub struct Obj {
    pub id: u64,
    sh: Sh,
}
impl Drop for Obj {
    fn drop(&mut self) {
        let a = actor_of(&self.sh);
        ev(&self.sh, json!(["destroy", format!("obj:{}", self.id), a]));
    }
}

struct Mgr {
    sh: Sh,
}

#[derive(PartialEq)]
enum FS { Fresh, Once, Stuck, Done }

struct ScriptedFut<T> {
    sh: Sh,
    kind: &'static str,
    st: FS,
    make: Box<dyn FnMut(&str) -> T + Send>,
}
impl<T> Unpin for ScriptedFut<T> {}
impl<T> Future for ScriptedFut<T> {
    type Output = T;
    fn poll(mut self: Pin<&mut Self>, _cx: &mut Context<'_>) -> Poll<T> {
        if self.st == FS::Stuck { return Poll::Pending; }
        let o = next(&self.sh, self.kind);
        match o.as_str() {
            "pending" => { self.st = FS::Once; Poll::Pending }
            "stuck" => { self.st = FS::Stuck; Poll::Pending }
            "panic" => panic!("scripted panic in {}", self.kind),
            other => { self.st = FS::Done; let v = (self.make)(other); Poll::Ready(v) }
        }
    }
}

fn metrics_json(sh: &Sh, id: u64, m: &Metrics) -> Value {
    let mut g = sh.lock().unwrap();
    let first = *g.created_at.entry(id).or_insert(m.created);
    json!({"created_same": first == m.created, "recycled": m.recycled.is_some(), "count": m.recycle_count,
           "recycled_ge_created": m.recycled.map(|r| r >= m.created).unwrap_or(true)})
}

impl Manager for Mgr {
    type Type = Obj;
    type Error = String;
    fn create(&self) -> impl Future<Output = Result<Obj, String>> + Send {
        let a = actor_of(&self.sh);
        ev(&self.sh, json!(["create_call", a]));
        let sh = self.sh.clone();
        ScriptedFut { sh: self.sh.clone(), kind: "create", st: FS::Fresh, make: Box::new(move |o| {
            if o == "ok" {
                let id = { let mut g = sh.lock().unwrap(); g.next_id += 1; g.next_id };
                let a = actor_of(&sh);
                ev(&sh, json!(["created", format!("obj:{}", id), a]));
                Ok(Obj { id, sh: sh.clone() })
            } else { Err("create failed".to_string()) }
        }) }
    }
    fn recycle(&self, obj: &mut Obj, metrics: &Metrics) -> impl Future<Output = RecycleResult<String>> + Send {
        let a = actor_of(&self.sh);
        let m = metrics_json(&self.sh, obj.id, metrics);
        ev(&self.sh, json!(["recycle_call", format!("obj:{}", obj.id), a, m]));
        ScriptedFut { sh: self.sh.clone(), kind: "recycle", st: FS::Fresh, make: Box::new(move |o| {
            if o == "ok" { Ok(()) } else { Err(RecycleError::Backend("recycle failed".to_string())) }
        }) }
    }
    fn detach(&self, obj: &mut Obj) {
        let a = actor_of(&self.sh);
        ev(&self.sh, json!(["detach", format!("obj:{}", obj.id), a]));
        cb_point("cb.detach");
    }
}

fn mk_hook(sh: &Sh, kind: &'static str, idx: usize, is_async: bool) -> Hook<Mgr> {
    let sh = sh.clone();
    if !is_async {
        Hook::sync_fn(move |obj: &mut Obj, m: &Metrics| {
            let a = actor_of(&sh);
            let mj = metrics_json(&sh, obj.id, m);
            ev(&sh, json!(["hook_call", kind, idx, format!("obj:{}", obj.id), a, mj]));
            match next(&sh, "hook").as_str() {
                "ok" => Ok(()),
                "panic" => panic!("scripted panic in hook"),
                _ => Err(HookError::message("hook failed")),
            }
        })
    } else {
        Hook::async_fn(move |obj: &mut Obj, m: &Metrics| {
            let a = actor_of(&sh);
            let mj = metrics_json(&sh, obj.id, m);
            ev(&sh, json!(["hook_call", kind, idx, format!("obj:{}", obj.id), a, mj]));
            Box::pin(ScriptedFut { sh: sh.clone(), kind: "hook", st: FS::Fresh, make: Box::new(move |o| {
                if o == "ok" { Ok(()) } else { Err(HookError::message("hook failed")) }
            }) })
        })
    }
}

// ------------------------------------------------------------------ helpers
fn dur_of(v: &Value) -> Option<Duration> {
    if v.is_null() { None } else { Some(Duration::from_nanos(v.as_u64().unwrap())) }
}
fn timeouts_of(v: &Value) -> Timeouts {
    Timeouts { wait: dur_of(&v[0]), create: dur_of(&v[1]), recycle: dur_of(&v[2]) }
}
fn err_desc(e: &PoolError<String>) -> String {
    match e {
        PoolError::Timeout(t) => format!("Timeout:{:?}", t),
        PoolError::Backend(_) => "Backend".into(),
        PoolError::Closed => "Closed".into(),
        PoolError::NoRuntimeSpecified => "NoRuntimeSpecified".into(),
        PoolError::PostCreateHook(_) => "PostCreateHook".into(),
    }
}

type GetFut = Pin<Box<dyn Future<Output = Result<Object<Mgr>, PoolError<String>>>>>;
#[derive(Default)]
struct Task {
    fut: Option<GetFut>,
    objs: Vec<Object<Mgr>>,
}

fn observe(pool: &Pool<Mgr>, sh: &Sh) -> (Value, Value) {
    // on a helper thread with a deadline (see unmanaged.rs): a parked thread holding the slots lock makes observation impossible
    let (tx, rx) = std::sync::mpsc::channel();
    let p2 = pool.clone(); let sh2 = sh.clone();
    std::thread::spawn(move || { let _ = tx.send(observe_inner(&p2, &sh2)); });
    rx.recv_timeout(Duration::from_millis(1500)).unwrap_or((Value::Null, Value::Null))
}

fn observe_inner(pool: &Pool<Mgr>, sh: &Sh) -> (Value, Value) {
    let s = pool.status();
    let sn = pool.verif_snapshot();
    let mut idle = vec![];
    pool.verif_visit_idle(|o, _m| idle.push(format!("obj:{}", o.id)));
    let _ = sh;
    (json!([s.max_size, s.size, s.available, s.waiting]),
     json!({"permits": sn.permits, "closed": sn.closed, "size": sn.size, "max_size": sn.max_size, "users": sn.users, "idle": idle}))
}


/// executes one harness action on the calling thread and returns its result
fn exec_action(pool_opt: Option<&Pool<Mgr>>, sh: &Sh, tasks: &mut HashMap<String, Task>, step: &Value) -> Value {
    let a = &step["act"];
    let kind = a[0].as_str().unwrap();
    // after `drop_pool` only drop / take are issued (they do not need a handle)
    let need = || pool_opt.expect("this action needs a pool handle");
    let waker = noop_waker();
            let mut res = json!(["ok"]);
            let mut cx = Context::from_waker(&waker);
            match kind {
                "get" | "poll" => {
                    let t = tasks.entry(a[1].as_str().unwrap().to_string()).or_default();
                    if kind == "get" {
                        let p2 = need().clone();
                        let tv = step["timeouts"].clone();
                        t.fut = Some(if tv.is_null() { Box::pin(async move { p2.get().await }) }
                                     else { let tt = timeouts_of(&tv); Box::pin(async move { p2.timeout_get(&tt).await }) });
                    }
                    let mut f = t.fut.take().expect("no future to poll");
                    let r = catch_unwind(AssertUnwindSafe(|| f.as_mut().poll(&mut cx)));
                    match r {
                        Err(_) => { let _ = catch_unwind(AssertUnwindSafe(move || drop(f))); res = json!(["panic"]); }
                        Ok(Poll::Pending) => { t.fut = Some(f); res = json!(["pending"]); }
                        Ok(Poll::Ready(Ok(o))) => {
                            let id = format!("obj:{}", o.id);
                            let m = metrics_json(sh, o.id, Object::metrics(&o));
                            t.objs.push(o); res = json!(["ok", "object", id, m]);
                        }
                        Ok(Poll::Ready(Err(e))) => { res = json!(["err", err_desc(&e)]); }
                    }
                }
                "cancel" => {
                    let t = tasks.entry(a[1].as_str().unwrap().to_string()).or_default();
                    let f = t.fut.take().expect("no future to cancel");
                    let r = catch_unwind(AssertUnwindSafe(move || drop(f)));
                    res = if r.is_ok() { json!(["cancelled"]) } else { json!(["panic"]) };
                }
                "drop" => {
                    let t = tasks.get_mut(a[1].as_str().unwrap()).unwrap();
                    let o = t.objs.remove(a[2].as_u64().unwrap() as usize);
                    let r = catch_unwind(AssertUnwindSafe(move || drop(o)));
                    if r.is_err() { res = json!(["panic"]); }
                }
                "take" => {
                    let t = tasks.get_mut(a[1].as_str().unwrap()).unwrap();
                    let o = t.objs.remove(a[2].as_u64().unwrap() as usize);
                    let oid = format!("obj:{}", o.id);
                    ev(sh, json!(["handed", oid, "take"]));
                    let r = catch_unwind(AssertUnwindSafe(|| {
                        let raw = Object::take(o);
                        drop(raw);
                    }));
                    res = if r.is_ok() { json!(["ok", "taken"]) } else { json!(["panic"]) };
                }
                "status" => { let s = need().status(); res = json!(["ok", [s.max_size, s.size, s.available, s.waiting]]); }
                "resize" => {
                    let n = a[1].as_u64().unwrap() as usize;
                    if catch_unwind(AssertUnwindSafe(|| need().resize(n))).is_err() { res = json!(["panic"]); }
                }
                "close" => { if catch_unwind(AssertUnwindSafe(|| need().close())).is_err() { res = json!(["panic"]); } }
                "is_closed" => { res = json!(["ok", need().is_closed()]); }
                "retain" => {
                    let sh2 = sh.clone();
                    let r = catch_unwind(AssertUnwindSafe(|| need().retain(|o, m| {
                        let mj = metrics_json(&sh2, o.id, &m);
                        ev(&sh2, json!(["pred_call", format!("obj:{}", o.id), "C", mj]));
                        let keep = match next(&sh2, "pred").as_str() { "keep" => true, "panic" => panic!("scripted panic in predicate"), _ => false };
                        cb_point("cb.pred");
                        keep
                    })));
                    match r {
                        Ok(rr) => {
                            let ids: Vec<String> = rr.removed.iter().map(|o| format!("obj:{}", o.id)).collect();
                            for id in &ids { ev(sh, json!(["handed", id, "retain"])); }
                            res = json!(["ok", "retain", rr.retained, ids]);
                            drop(rr);
                        }
                        Err(_) => res = json!(["panic"]),
                    }
                }
                other => panic!("unknown action {}", other),
            }
    res
}

fn run_managed(trace: &Value) {
    let sh: Sh = Arc::new(Mutex::new(Shared::default()));
    let p = &trace["pool"];
    let rt = tokio::runtime::Builder::new_current_thread().enable_time().start_paused(true).build().unwrap();
    rt.block_on(async {
        let mut b = Pool::builder(Mgr { sh: sh.clone() })
            .max_size(p["max_size"].as_u64().unwrap() as usize)
            .queue_mode(if p["lifo"].as_bool().unwrap() { QueueMode::Lifo } else { QueueMode::Fifo })
            .timeouts(timeouts_of(&p["timeouts"]));
        if p["runtime"].as_bool().unwrap() { b = b.runtime(Runtime::Tokio1); }
        let mut counts: HashMap<String, usize> = HashMap::new();
        for h in p["hooks"].as_array().unwrap() {
            let kind = h[0].as_str().unwrap(); let is_async = h[1].as_str().unwrap() == "async";
            let idx = { let c = counts.entry(kind.to_string()).or_insert(0); let i = *c; *c += 1; i };
            b = match kind {
                "post_create" => b.post_create(mk_hook(&sh, "post_create", idx, is_async)),
                "pre_recycle" => b.pre_recycle(mk_hook(&sh, "pre_recycle", idx, is_async)),
                _ => b.post_recycle(mk_hook(&sh, "post_recycle", idx, is_async)),
            };
        }
        let built = b.build();
        let build_events: Vec<Value> = std::mem::take(&mut sh.lock().unwrap().events);
        let pool = match built {
            Ok(p) => p,
            Err(e) => { println!("{}", json!({"i": -1, "res": ["build_err", format!("{:?}", e)], "events": build_events})); return; }
        };
        println!("{}", json!({"i": -1, "res": ["built"], "events": build_events}));
        let mut pool_opt = Some(pool);
        let mut tasks: HashMap<String, Task> = HashMap::new();
        for (i, step) in trace["actions"].as_array().unwrap().iter().enumerate() {
            progress(i);
            let a = &step["act"];
            let kind = a[0].as_str().unwrap();
            {
                let mut g = sh.lock().unwrap();
                g.script = step["env"].as_array().unwrap().iter().filter(|e| e[0] != "timer").cloned().collect();
                g.actor = if matches!(kind, "get" | "poll" | "cancel" | "drop" | "take") { a[1].as_str().unwrap().to_string() } else { "C".to_string() };
            }
            if let Some(adv) = step.get("advance_ns").and_then(|v| v.as_u64()) {
                if adv > 0 { tokio::time::advance(Duration::from_nanos(adv)).await; }
            }
            if kind == "drop_pool" {
                // the last handle goes away (finished get() futures hold none): idle objects die with the pool
                let r = catch_unwind(AssertUnwindSafe(|| drop(pool_opt.take())));
                let events = std::mem::take(&mut sh.lock().unwrap().events);
                println!("{}", json!({"i": i, "res": if r.is_ok() { json!(["ok"]) } else { json!(["panic"]) }, "events": events, "status": Value::Null, "snap": Value::Null, "mismatch": Value::Null, "script_left": 0}));
                continue;
            }
            let res = exec_action(pool_opt.as_ref(), &sh, &mut tasks, step);
            let (status, snap) = match pool_opt.as_ref() { Some(p) => observe(p, &sh), None => (Value::Null, Value::Null) };
            let (events, mismatch, left) = { let mut g = sh.lock().unwrap(); (std::mem::take(&mut g.events), g.mismatch.take(), g.script.len()) };
            println!("{}", json!({"i": i, "res": res, "events": events, "status": status, "snap": snap, "mismatch": mismatch, "script_left": left}));
        }
        // keep objects and futures alive until here so that nothing is returned behind the trace's back
        std::mem::forget(tasks);
    });
}

fn build_pool(trace: &Value, sh: &Sh) -> Result<Pool<Mgr>, String> {
    let p = &trace["pool"];
    let mut b = Pool::builder(Mgr { sh: sh.clone() })
        .max_size(p["max_size"].as_u64().unwrap() as usize)
        .queue_mode(if p["lifo"].as_bool().unwrap() { QueueMode::Lifo } else { QueueMode::Fifo })
        .timeouts(timeouts_of(&p["timeouts"]));
    if p["runtime"].as_bool().unwrap() { b = b.runtime(Runtime::Tokio1); }
    let mut counts: HashMap<String, usize> = HashMap::new();
    for h in p["hooks"].as_array().unwrap() {
        let kind = h[0].as_str().unwrap(); let is_async = h[1].as_str().unwrap() == "async";
        let idx = { let c = counts.entry(kind.to_string()).or_insert(0); let i = *c; *c += 1; i };
        b = match kind {
            "post_create" => b.post_create(mk_hook(sh, "post_create", idx, is_async)),
            "pre_recycle" => b.pre_recycle(mk_hook(sh, "pre_recycle", idx, is_async)),
            _ => b.post_recycle(mk_hook(sh, "post_recycle", idx, is_async)),
        };
    }
    b.build().map_err(|e| format!("{:?}", e))
}

/// thread mode: every logical thread of the trace is an OS thread; the controller hands the baton to exactly one of
/// them per trace step and waits until it reports the next schedule point or the end of its operation
fn run_managed_threads(trace: &Value) {
    use std::sync::mpsc;
    let sh: Sh = Arc::new(Mutex::new(Shared::default()));
    let pool = match build_pool(trace, &sh) {
        Ok(p) => p,
        Err(e) => { println!("{}", json!({"i": -1, "res": ["build_err", e], "events": []})); return; }
    };
    let build_events: Vec<Value> = std::mem::take(&mut sh.lock().unwrap().events);
    println!("{}", json!({"i": -1, "res": ["built"], "events": build_events}));
    deadpool::verif::set_point_callback(Some(Arc::new(|name: &'static str| sync_point(name))));
    struct Worker { cmd: mpsc::Sender<Option<Value>>, resume: mpsc::Sender<()>, report: mpsc::Receiver<Report>, busy: bool }
    let mut workers: HashMap<String, Worker> = HashMap::new();
    let mut names: Vec<String> = vec![];
    for step in trace["actions"].as_array().unwrap() {
        let a = &step["act"];
        let n = step["thread"].as_str().unwrap().to_string();
        let _ = a;
        if !names.contains(&n) { names.push(n); }
    }
    for n in &names {
        let (cmd_tx, cmd_rx) = mpsc::channel::<Option<Value>>();
        let (res_tx, res_rx) = mpsc::channel::<()>();
        let (rep_tx, rep_rx) = mpsc::channel::<Report>();
        let pool2 = pool.clone(); let sh2 = sh.clone(); let name = n.clone();
        std::thread::spawn(move || {
            CTX.with(|c| *c.borrow_mut() = Some(WorkerCtx { name: name.clone(), report: rep_tx.clone(), resume: res_rx, cb_points: std::cell::Cell::new(false) }));
            let mut tasks: HashMap<String, Task> = HashMap::new();
            while let Ok(Some(step)) = cmd_rx.recv() {
                let kind = step["act"][0].as_str().unwrap().to_string();
                // callbacks (detach, predicate) report a schedule point; the controller passes over those the trace marks
                // as skipped (the engine saw the calling thread hold a pool lock there)
                let _ = &kind;
                CTX.with(|c| c.borrow().as_ref().unwrap().cb_points.set(true));
                let r = exec_action(Some(&pool2), &sh2, &mut tasks, &step);
                rep_tx.send(Report::Done(r)).unwrap();
            }
            std::mem::forget(tasks);
        });
        workers.insert(n.clone(), Worker { cmd: cmd_tx, resume: res_tx, report: rep_rx, busy: false });
    }
    for (i, step) in trace["actions"].as_array().unwrap().iter().enumerate() {
        progress(i);
        let tname = step["thread"].as_str().unwrap();
        let w = workers.get_mut(tname).unwrap();
        { let mut g = sh.lock().unwrap(); let mut extra: VecDeque<Value> = step["env"].as_array().unwrap().iter().filter(|e| e[0] != "timer" && e[0] != "cbskip" && e[0] != "cblocked").cloned().collect(); g.script.append(&mut extra); }
        let mut cbskip = step["env"].as_array().unwrap().iter().filter(|e| e[0] == "cbskip").count();
        if step["act"][0] == "step" {
            if !w.busy { println!("{}", json!({"i": i, "res": ["driver_error", "step on an idle thread"]})); return; }
            w.resume.send(()).unwrap();
        } else {
            if w.busy { println!("{}", json!({"i": i, "res": ["driver_error", "new operation on a busy thread"]})); return; }
            w.busy = true;
            w.cmd.send(Some(step.clone())).unwrap();
        }
        let atomic = step["atomic"].as_bool().unwrap_or(false);
        let res = loop { match w.report.recv_timeout(Duration::from_secs(10)) {
            Ok(Report::AtPoint(_)) if atomic => { w.resume.send(()).unwrap(); continue; }
            Ok(Report::AtPoint(name)) if name.starts_with("cb.") && cbskip > 0 => { cbskip -= 1; w.resume.send(()).unwrap(); continue; }
            Ok(Report::AtPoint(name)) => break json!(["at_point", name]),
            Ok(Report::Done(v)) => { w.busy = false; break v }
            Err(_) => { println!("{}", json!({"i": i, "res": ["driver_error", "thread did not reach a schedule point (blocked?)"]})); std::process::exit(0); }
        } };
        let (status, snap) = observe(&pool, &sh);
        let (events, mismatch, left) = { let mut g = sh.lock().unwrap(); (std::mem::take(&mut g.events), g.mismatch.take(), g.script.len()) };
        println!("{}", json!({"i": i, "res": res, "events": events, "status": status, "snap": snap, "mismatch": mismatch, "script_left": left}));
    }
    std::process::exit(0);
}

/// watchdog: a step that does not come back within 8 s (a thread deadlocked on a mutex it already holds, or every thread waits
/// for a lock) is reported as ["deadlock"] and ends the replay - the engine predicts exactly that for such traces
pub static CUR_STEP: std::sync::atomic::AtomicI64 = std::sync::atomic::AtomicI64::new(-1);
pub static STEP_SEQ: std::sync::atomic::AtomicU64 = std::sync::atomic::AtomicU64::new(0);
pub fn progress(i: usize) {
    CUR_STEP.store(i as i64, std::sync::atomic::Ordering::SeqCst);
    STEP_SEQ.fetch_add(1, std::sync::atomic::Ordering::SeqCst);
}
fn spawn_watchdog() {
    std::thread::spawn(|| {
        let mut last = STEP_SEQ.load(std::sync::atomic::Ordering::SeqCst); let mut since = std::time::Instant::now();
        loop {
            std::thread::sleep(Duration::from_millis(200));
            let cur = STEP_SEQ.load(std::sync::atomic::Ordering::SeqCst);
            if cur != last { last = cur; since = std::time::Instant::now(); continue; }
            if CUR_STEP.load(std::sync::atomic::Ordering::SeqCst) >= 0 && since.elapsed() > Duration::from_secs(8) {
                println!("{}", json!({"i": CUR_STEP.load(std::sync::atomic::Ordering::SeqCst), "res": ["deadlock"], "events": [], "hung": true}));
                std::process::exit(0);
            }
        }
    });
}

fn main() {
    spawn_watchdog();
    let path = std::env::args().nth(1).expect("usage: dp-replay <trace.json>");
    let trace: Value = serde_json::from_str(&std::fs::read_to_string(&path).unwrap()).unwrap();
    if std::env::var("DP_REPLAY_DEBUG").is_err() { std::panic::set_hook(Box::new(|_| {})); }
    match trace["kind"].as_str().unwrap() {
        "managed" => if trace["threads"].as_bool().unwrap_or(false) { run_managed_threads(&trace) } else { run_managed(&trace) },
        "unmanaged" => unmanaged::run(&trace),
        k => panic!("unknown trace kind {}", k),
    }
}
