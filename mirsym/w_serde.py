"""C19, serde clause: PoolConfig / Timeouts / QueueMode survive a serialise / deserialise round trip, omitted sections take
the documented defaults.

The derived `Serialize` / `Deserialize` impls are type-directed generic code (visitors chosen by return type), which the MIR
interpreter cannot resolve before monomorphisation; Kani works on the monomorphised code.  `/verif/kani_serde` is a harness crate
with a path dependency on the repository under test: a minimal token format (no text, no number formatting), one proof harness
per document *shape* (which timeouts are present, queue mode, sub-second parts) with max_size and every seconds value arbitrary,
decided by CBMC.  The crate is instantiated in the build directory on every run, so the harnesses are compiled against /repo's
current working tree.  A failed harness is replayed natively (same code, concrete values) before it is reported."""
import os, re, shutil, subprocess, time, json, hashlib

HERE = os.path.dirname(os.path.dirname(os.path.abspath(__file__)))
BUILD = os.environ.get('VERIF_BUILD', os.path.join(HERE, '.build'))
REPO = os.environ.get('VERIF_REPO', '/repo')

QUICK = ['roundtrip_shape_%d_%s' % (m, l) for m in range(8) for l in ('fifo', 'lifo')] + \
        ['omitted_all', 'omitted_timeouts', 'omitted_mode', 'timeouts_empty', 'timeouts_only_wait', 'timeouts_only_create', 'timeouts_only_recycle', 'timeouts_two'] + \
        ['missing_max_size_only', 'missing_max_size_timeouts', 'missing_max_size_mode', 'missing_max_size_both']
MISSING = {'missing_max_size_only': (0, 0), 'missing_max_size_timeouts': (1, 0), 'missing_max_size_mode': (0, 1), 'missing_max_size_both': (1, 1)}
THOROUGH = QUICK + ['thorough_shape_1_fifo', 'thorough_shape_2_lifo', 'thorough_shape_3_fifo', 'thorough_shape_4_lifo', 'thorough_shape_5_fifo', 'thorough_shape_6_lifo',
                    'thorough_shape_7_fifo', 'thorough_shape_7_lifo']
N1 = [999999999, 0, 1]; N2 = [1000000, 999999, 500000000]
OMIT = {'omitted_all': (0, 0, 0), 'omitted_timeouts': (0, 1, 0), 'omitted_mode': (1, 0, 7), 'timeouts_empty': (1, 1, 0), 'timeouts_only_wait': (1, 0, 1),
        'timeouts_only_create': (1, 0, 2), 'timeouts_only_recycle': (1, 1, 4), 'timeouts_two': (1, 0, 5)}


def instantiate():
    """copy the harness crate next to the build output and point its path dependency at the repository under test"""
    dst = os.path.join(BUILD, 'kani_serde')
    os.makedirs(dst, exist_ok=True)
    shutil.rmtree(os.path.join(dst, 'src'), ignore_errors=True)
    shutil.copytree(os.path.join(HERE, 'kani_serde', 'src'), os.path.join(dst, 'src'))
    t = open(os.path.join(HERE, 'kani_serde', 'Cargo.toml.in')).read().replace('@REPO@', REPO)
    open(os.path.join(dst, 'Cargo.toml'), 'w').write(t)
    if not os.path.exists(os.path.join(dst, 'Cargo.lock')): shutil.copy(os.path.join(REPO, 'Cargo.lock'), os.path.join(dst, 'Cargo.lock'))
    return dst


def replay_args(h):
    """concrete documents for a failed harness: the shape is the harness', the arbitrary numbers take a few representative values"""
    m = re.match(r'(roundtrip|thorough)_shape_(\d)_(fifo|lifo)$', h)
    if m:
        mask = int(m.group(2)); nn = N1 if m.group(1) == 'roundtrip' else N2; out = []
        for ms, secs in ((3, 2), (0, 0), (18446744073709551615, 18446744073709551615), (1, 4)):
            d = ['-' if not mask & (1 << i) else f'{secs}:{nn[i]}' for i in range(3)]
            out.append(['roundtrip', str(ms)] + d + ['1' if m.group(3) == 'lifo' else '0'])
        return out
    if h in MISSING: return [['missing', str(MISSING[h][0]), str(MISSING[h][1])]]
    wt, wm, inner = OMIT[h]
    return [['omitted', str(ms), str(wt), str(wm), str(inner)] for ms in (3, 0, 18446744073709551615)]


def run_serde(prog, job):
    t0 = time.time()
    d = instantiate()
    names = QUICK if job.get('tier') != 'thorough' else THOROUGH
    env = dict(os.environ); env['CARGO_NET_OFFLINE'] = 'true'; env.pop('RUSTFLAGS', None); env.pop('RUSTUP_TOOLCHAIN', None)
    cmd = ['cargo', 'kani', '--target-dir', os.path.join(d, 'kt'), '-j', '8', '--output-format', 'terse']
    for n in names: cmd += ['--harness', n]
    cap = 900 if job.get('tier') != 'thorough' else 2400
    try:
        r = subprocess.run(cmd, cwd=d, env=env, capture_output=True, text=True, timeout=cap)
        out = r.stdout + '\n' + r.stderr
    except subprocess.TimeoutExpired as e:
        raise RuntimeError(f'cargo kani did not finish within {cap} s')        # inconclusive, never a verdict
    m = re.search(r'Complete - (\d+) successfully verified harnesses, (\d+) failures, (\d+) total', out)
    failed = re.findall(r'Verification failed for - proofs::(\w+)', out)
    times = [float(x) for x in re.findall(r'Verification Time: ([0-9.]+)s', out)]
    checks = sum(int(x) for x in re.findall(r'\*\* \d+ of (\d+) failed', out))
    vacuous = len(re.findall(r'\*\* 0 of 1 cover properties satisfied', out))
    res = {'states': len(names), 'transitions': len(names), 'samples': [], 'queries': checks, 'sat': len(failed), 'unsat': (int(m.group(1)) if m else 0), 'solver_s': round(sum(times), 2),
           'cache_hits': 0, 'blocks': 0, 'functions': {'<PoolConfig as Serialize>::serialize (derived)': 1, '<PoolConfig as Deserialize>::deserialize (derived)': 1,
                                                          '<Timeouts as Serialize/Deserialize> (derived)': 1, '<QueueMode as Serialize/Deserialize> (derived)': 1,
                                                          'serde impls for Option<T>, Duration, u64, u32, usize': 1}, 'models': {}, 'dump_s': 0,
           'obligations': len(names), 'discharged': (int(m.group(1)) if m else 0),
           'bounds': {'engine': 'Kani 0.68 / CBMC 6.11 on the monomorphised code, unwind 13 with unwinding assertions', 'harnesses': len(names),
                      'shape': 'every subset of the three timeouts x both queue modes; sub-second parts concrete (' + ', '.join(map(str, N1 + (N2 if job.get('tier') == 'thorough' else []))) + ' ns)',
                      'arbitrary': 'max_size (all of usize) and the seconds of every timeout (all of u64)', 'format': 'token stream of /verif/kani_serde (self-describing, structs as maps by field name; serde\'s own Duration is read positionally)',
                      'omitted_sections': '8 documents that omit timeouts / queue_mode / entries of timeouts; 4 documents that omit max_size (rejected, or the documented default)'},
           'violations': [], 'complete': True}
    if not m or int(m.group(3)) != len(names):
        raise RuntimeError('cargo kani did not report on every harness: ' + out[-600:].replace('\n', ' | '))
    if vacuous:
        raise RuntimeError('the vacuity witness of a harness was not reached')
    msgs = sorted(set(re.findall(r'Failed Checks: "([^"]*)"', out)))
    for h in failed:
        res['violations'].append({'property': 'C19', 'kind': 'kani_serde', 'harness': h, 'crates': job['crates'], 'trace': [['harness', h]], 'model': {},
                                  'what': f'serde round trip, harness {h} failed (failed checks of this run: ' + '; '.join(msgs)[:300] + ')', 'replay_args': replay_args(h)})
    res['summary'] = f'{len(names)} harnesses, {res["unsat"]} verified, {len(failed)} failed, {checks} checks, solver+symex {res["solver_s"]} s ({round(time.time() - t0, 1)} s wall)'
    return res


def confirm(pid, v):
    """replay a failed harness natively: the same round trip on concrete documents of the harness' shape"""
    d = instantiate()
    env = dict(os.environ); env['CARGO_NET_OFFLINE'] = 'true'; env.pop('RUSTFLAGS', None)
    r = subprocess.run(['cargo', 'build', '--offline', '--target-dir', os.path.join(d, 'nt')], cwd=d, env=env, capture_output=True, text=True)
    if r.returncode != 0: return {'status': 'replay_error', 'detail': r.stderr[-600:]}
    binp = os.path.join(d, 'nt', 'debug', 'dp-serde-replay'); outs = []
    for a in v['replay_args']:
        o = subprocess.run([binp] + a, capture_output=True, text=True, timeout=60).stdout.strip()
        outs.append({'args': a, 'native': o})
    h = hashlib.sha1(json.dumps([v['harness'], outs], sort_keys=True).encode()).hexdigest()[:10]
    path = os.path.join(HERE, 'replays', f'{pid}-{h}.json'); os.makedirs(os.path.dirname(path), exist_ok=True)
    json.dump({'kind': 'kani_serde', 'violation': {'property': pid, 'what': v['what']}, 'harness': v['harness'], 'replay': outs,
               'how': 'cd <build>/kani_serde && cargo run -- <args>'}, open(path, 'w'), indent=1)
    if any(o['native'].startswith('VIOLATED') for o in outs): return {'status': 'confirmed', 'path': path}
    return {'status': 'not_reproduced', 'path': path, 'detail': 'none of the representative documents of this shape violates the round trip natively'}
