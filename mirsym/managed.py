"""Managed-pool world: environment (scripted manager, hooks, predicates, runtime timer) and the harness
operations that drive the real MIR of src/managed/*."""
import re
import z3
from .mir import Unmodelled
from .core import (I, Agg, Ref, Opaque, FnItem, UNINIT, UNIT, NONE, PENDING, mk_enum, some, ok, err, ready, payload,
                   type_head, is_sym, simp, z, b_not, b_and, b_or, binop, InternalError, State, Thread, Machine)
from .models import Env, callee_info

FRESH = Opaque('fresh'); ONCE = Opaque('once'); STUCK = Opaque('stuck'); DONE = Opaque('done')


class ManagedEnv(Env):
    def __init__(s, cfg=None):
        super().__init__()
        c = {
            'create': ('ok', 'err'),            # subset of ok, err, pending, stuck, panic
            'recycle': ('ok', 'err'),
            'hook': ('ok', 'err'),              # + pending, stuck, panic (pending/stuck only for async hooks)
            'pred': ('keep', 'remove'),         # + panic
            'timer': True,                      # Runtime::timeout may expire whenever its inner future is Pending
            'unmanaged': False,
            'cb_points': True,                  # thread mode: Manager::detach is a schedule point (user code may block there)
        }
        c.update(cfg or {})
        s.cfg = c

    def resolve_hint(s, callee):
        if s.cfg['unmanaged']: return 'unmanaged' if 'unmanaged' in callee or True else None
        return None

    def disambiguate(s, callee, cands):
        um = s.cfg['unmanaged']
        c2 = [c for c in cands if ('unmanaged' in c) == um]
        return c2 or cands

    def pick_drop_impl(s, M, v, impls):
        um = s.cfg['unmanaged']
        c2 = [c for c in impls if ('unmanaged' in c) == um]
        return c2 or impls

    def copy_types(s): return ('Metrics', 'Timeouts', 'PoolConfig', 'Status', 'Runtime')

    # ---------------- ghost bookkeeping (independent ground truth)
    def g_obj(s, st, oid, **kw):
        objs = dict(st.gget('objs', {}))
        rec = dict(objs.get(oid, {'created': True, 'destroyed': 0, 'detached': 0, 'handed': 0, 'handouts': 0}))
        for k, v in kw.items():
            rec[k] = rec.get(k, 0) + 1 if v == '+1' else v
        objs[oid] = rec; st.gset('objs', objs)

    def oid_of(s, M, st, objref_or_val):
        v = M.deref(st, objref_or_val) if isinstance(objref_or_val, Ref) else objref_or_val
        if isinstance(v, Agg) and v.ty == 'Obj': return v.f[0].tag
        raise InternalError(f'not a pooled object: {v!r}'[:200])

    # ---------------- Manager
    def t_Manager__create(s, M, st, th, ci, a):
        n = st.gget('n_create', 0); st.gset('n_create', n + 1)
        st.logev('create_call', th.name, n)
        s.on_create_call(M, st, th)
        return s.ret(st, Agg('CreateFut', [I(n), FRESH]))

    def on_create_call(s, M, st, th): pass

    def _choices(s, kind, state, is_async=True):
        allowed = s.cfg[kind]
        if state == STUCK: return ['stuck']
        out = []
        for o in allowed:
            if o in ('pending', 'stuck'):
                if not is_async or state != FRESH: continue
            out.append(o)
        return out

    def poll_CreateFut(s, M, st, th, fut, fref):
        if fut.f[1] == STUCK: return [('ret', st, PENDING)]
        outs = []
        for o in s._choices('create', fut.f[1]):
            st2 = st.clone() if True else st
            th2 = st2.threads[th.name]
            st2.logev('env', 'create', fut.f[0].v, o)
            if o == 'ok':
                k = st2.gget('n_obj', 0) + 1; st2.gset('n_obj', k); oid = f'obj:{k}'
                s.g_obj(st2, oid)
                st2.logev('created', oid, th.name)
                M.write(st2, fref, fut.with_field(1, DONE))
                outs.append(('ret', st2, ready(ok(Agg('Obj', [Opaque(oid)])))))
            elif o == 'err':
                M.write(st2, fref, fut.with_field(1, DONE))
                outs.append(('ret', st2, ready(err(Agg('MgrErr', [Opaque('create')])))))
            elif o == 'pending':
                M.write(st2, fref, fut.with_field(1, ONCE)); outs.append(('ret', st2, PENDING))
            elif o == 'stuck':
                M.write(st2, fref, fut.with_field(1, STUCK)); outs.append(('ret', st2, PENDING))
            elif o == 'panic':
                outs.append(('panic', st2, 'Manager::create panicked', 'user'))
        return outs

    def d_CreateFut(s, M, st, th, v): return True
    def d_MgrErr(s, M, st, th, v): return True

    def d_Obj(s, M, st, th, v):
        oid = v.f[0].tag
        st.logev('destroy', oid, th.name)
        s.g_obj(st, oid, destroyed='+1')
        return True

    def t_Manager__recycle(s, M, st, th, ci, a):
        objref, mref = a[1], a[2]
        oid = s.oid_of(M, st, objref); met = M.deref(st, mref)
        n = st.gget('n_recycle', 0); st.gset('n_recycle', n + 1)
        st.logev('recycle_call', oid, th.name, s.metrics_tuple(met))
        s.on_seen(M, st, 'recycle', oid, met)
        return s.ret(st, Agg('RecycleFut', [I(n), FRESH, Opaque(oid)]))

    def poll_RecycleFut(s, M, st, th, fut, fref):
        if fut.f[1] == STUCK: return [('ret', st, PENDING)]
        outs = []
        for o in s._choices('recycle', fut.f[1]):
            st2 = st.clone(); st2.logev('env', 'recycle', fut.f[0].v, o)
            if o == 'ok':
                M.write(st2, fref, fut.with_field(1, DONE)); outs.append(('ret', st2, ready(ok(UNIT))))
            elif o == 'err':
                M.write(st2, fref, fut.with_field(1, DONE))
                outs.append(('ret', st2, ready(err(mk_enum('RecycleError', 'Backend', [Agg('MgrErr', [Opaque('recycle')])])))))
            elif o == 'pending':
                M.write(st2, fref, fut.with_field(1, ONCE)); outs.append(('ret', st2, PENDING))
            elif o == 'stuck':
                M.write(st2, fref, fut.with_field(1, STUCK)); outs.append(('ret', st2, PENDING))
            elif o == 'panic':
                outs.append(('panic', st2, 'Manager::recycle panicked', 'user'))
        return outs

    def d_RecycleFut(s, M, st, th, v): return True

    def t_Manager__detach(s, M, st, th, ci, a):
        oid = s.oid_of(M, st, a[1])
        st.logev('detach', oid, th.name)
        s.g_obj(st, oid, detached='+1')
        if s.cfg.get('cb_points') and not M.task_mode:
            # user code may block here: a schedule point unless the calling thread holds a pool lock (then no other
            # thread can observe the pool anyway); the skipped points are logged so that the native driver follows
            if not s.lock_held(M, st, th): return [('yield', st, 'cb.detach')]
            if getattr(M, 'lock_probe', False):
                st.logev('env', 'cblocked', 'cb.detach'); return [('yield', st, 'cb.detach')]
            st.logev('env', 'cbskip', 'cb.detach')
        return s.ret(st, UNIT)

    def lock_held(s, M, st, th):
        tag = Opaque('owner:' + th.name)
        def walk(v):
            if isinstance(v, Agg):
                if v.ty == 'Mutex': return v.f[1] == tag
                if v.ty in ('Obj',): return False
                return any(walk(x) for x in v.f.values())
            return False
        return any(walk(v) for v in st.heap.values() if isinstance(v, Agg) and v.ty in ('ArcInner', 'PoolInner'))

    def metrics_tuple(s, met):
        if not (isinstance(met, Agg) and met.ty == 'Metrics'): raise InternalError(f'not Metrics: {met!r}')
        created = met.f[0].f[0]; rec = met.f[1]; cnt = met.f[2]
        r = None if rec.variant == 'None' else payload(rec).f[0]
        return (repr(created), None if r is None else repr(r), repr(cnt))

    def on_seen(s, M, st, who, oid, met):
        seen = st.gget('seen', ())
        st.gset('seen', seen + ((who, oid, met),))

    # ---------------- hooks / predicates as callable values
    def call_value(s, M, st, th, fv, fv2, args):
        if isinstance(fv2, Agg) and fv2.ty == 'Box' and isinstance(fv2.f[0], Ref):
            inner = M.deref(st, fv2.f[0])
            if isinstance(inner, Agg) and inner.ty in ('HookFn', 'Pred'): fv2 = inner
            elif isinstance(inner, Agg) and inner.ty.startswith('{closure'):
                M.push_mir(st, th, inner.variant, [fv2.f[0]] + list(args)); return [('push', st)]
        if isinstance(fv2, Agg) and fv2.ty == 'HookFn':
            kind = fv2.f[0].tag; idx = fv2.f[1].v; is_async = fv2.f[2].tag == 'async'
            objref, mref = args[0], args[1]
            oid = s.oid_of(M, st, objref); met = M.deref(st, mref)
            st.logev('hook_call', kind, idx, oid, th.name, s.metrics_tuple(met))
            s.on_seen(M, st, kind, oid, met)
            if is_async:
                return s.ret(st, Agg('HookFut', [Opaque(kind), I(idx), FRESH]))
            outs = []
            for o in s._choices('hook', FRESH, is_async=False):
                st2 = st.clone(); st2.logev('env', 'hook', kind, idx, o)
                if o == 'ok': outs.append(('ret', st2, ok(UNIT)))
                elif o == 'err': outs.append(('ret', st2, err(mk_enum('HookError', 'Message', [Opaque(f'hookerr:{kind}:{idx}')]))))
                elif o == 'panic': outs.append(('panic', st2, f'{kind} hook panicked', 'user'))
            return outs
        if isinstance(fv2, Agg) and fv2.ty == 'Pred':
            objref, met = args[0], args[1]
            oid = s.oid_of(M, st, objref)
            st.logev('pred_call', oid, th.name, s.metrics_tuple(met))
            s.on_seen(M, st, 'pred', oid, met)
            outs = []
            pt = s.cfg.get('cb_points') and not M.task_mode
            free = pt and not s.lock_held(M, st, th)
            probe = pt and not free and getattr(M, 'lock_probe', False)
            if probe: free = True
            for o in s.cfg['pred']:
                st2 = st.clone(); st2.logev('env', 'pred', oid, o)
                if probe and o != 'panic': st2.logev('env', 'cblocked', 'cb.pred')
                if pt and not free and o != 'panic': st2.logev('env', 'cbskip', 'cb.pred')
                if o == 'keep': outs.append(('yield', st2, 'cb.pred', True) if free else ('ret', st2, True))
                elif o == 'remove':
                    st2.gset('pred_removed', st2.gget('pred_removed', ()) + (oid,))
                    outs.append(('yield', st2, 'cb.pred', False) if free else ('ret', st2, False))
                elif o == 'panic': outs.append(('panic', st2, 'retain predicate panicked', 'user'))
            return outs
        return None

    def poll_HookFut(s, M, st, th, fut, fref):
        kind = fut.f[0].tag; idx = fut.f[1].v
        if fut.f[2] == STUCK: return [('ret', st, PENDING)]
        outs = []
        for o in s._choices('hook', fut.f[2]):
            st2 = st.clone(); st2.logev('env', 'hook', kind, idx, o)
            if o == 'ok':
                M.write(st2, fref, fut.with_field(2, DONE)); outs.append(('ret', st2, ready(ok(UNIT))))
            elif o == 'err':
                M.write(st2, fref, fut.with_field(2, DONE))
                outs.append(('ret', st2, ready(err(mk_enum('HookError', 'Message', [Opaque(f'hookerr:{kind}:{idx}')])))))
            elif o == 'pending':
                M.write(st2, fref, fut.with_field(2, ONCE)); outs.append(('ret', st2, PENDING))
            elif o == 'stuck':
                M.write(st2, fref, fut.with_field(2, STUCK)); outs.append(('ret', st2, PENDING))
            elif o == 'panic':
                outs.append(('panic', st2, f'{kind} hook panicked', 'user'))
        return outs

    def d_HookFut(s, M, st, th, v): return True
    def d_HookFn(s, M, st, th, v): return True
    def d_Pred(s, M, st, th, v): return True

    # ---------------- conversions
    def convert_into(s, M, st, th, ci, v):
        if isinstance(v, Agg) and v.ty == 'Object': return s.ret(st, v)          # W = Object<M>
        if isinstance(v, Agg) and v.ty == 'PoolError': return s.ret(st, v)       # From<T> for T
        if isinstance(v, Agg) and v.ty == 'Hook': return s.ret(st, v)
        if isinstance(v, Agg) and v.ty in ('MgrErr', 'RecycleError'):
            # impl<E> From<E> for PoolError<E>: interpret its body
            fn = [n for n in M.fns if n.endswith('::from') and 'errors.rs' in n and 'managed' in n and M.fns[n].ret.startswith(('managed::errors::PoolError', 'PoolError'))]
            if len(fn) != 1: raise Unmodelled('From<E> for PoolError<E> body not found')
            M.push_mir(st, th, fn[0], [v]); return [('push', st)]
        if isinstance(v, Opaque) and v.tag.startswith(('str:', 'hookerr')): return s.ret(st, v)
        return None

    def convert_err(s, M, st, th, ci, e):
        r = s.convert_into(M, st, th, ci, e)
        if r is None: raise Unmodelled('error conversion ' + ci['text'][:120])
        if r and r[0][0] == 'ret': return [('ret', r[0][1], err(r[0][2]))]
        M.push_k(th, 'after', 'wrap', ('Result', 'Err'))   # pushed under?  (not reachable for managed pool)
        raise Unmodelled('error conversion through MIR in `?`')

    # ---------------- runtime
    def p___get_physical(s, M, st, th, ci, a):
        v = st.fresh('cpus'); st.assume(z3.And(z3.UGE(v, 1), z3.ULE(v, 1 << 20)))
        return s.ret(st, v)

    def p_Runtime__timeout(s, M, st, th, ci, a):
        # deadpool-runtime's own one-line dispatch is interpreted from its MIR when the crate is loaded (it then calls
        # tokio::time::timeout / sleep below); without it this model stands in for the whole function
        if any(f.crate == 'deadpool_runtime' and n.endswith('::timeout') for n, f in M.fns.items() if n.endswith('::timeout')): return None
        rt, dur, fut = a
        n = st.gget('n_timer', 0); st.gset('n_timer', n + 1)
        return s.ret(st, Agg('TimeoutFut', [fut, dur, FRESH, I(n)]))

    # tokio::time::timeout(d, fut) -> Timeout<F> : Future<Output = Result<F::Output, Elapsed>>
    def p_time__timeout(s, M, st, th, ci, a):
        dur, fut = a
        n = st.gget('n_timer', 0); st.gset('n_timer', n + 1)
        return s.ret(st, Agg('TimeoutFut', [fut, dur, FRESH, I(n), Opaque('result')]))
    def p___timeout(s, M, st, th, ci, a):
        # rustc prints a uniquely named item without its path: `timeout::<F>(d, fut)` is tokio's
        return s.p_time__timeout(M, st, th, ci, a) if len(a) == 2 else None
    def p___sleep(s, M, st, th, ci, a): return s.p_time__sleep(M, st, th, ci, a) if len(a) == 1 else None
    def d_Elapsed(s, M, st, th, v): return True

    # tokio::time::sleep(d) -> Sleep : Future<Output = ()>  (a timer of its own: code that races it against another future by hand)
    def p_time__sleep(s, M, st, th, ci, a):
        n = st.gget('n_timer', 0); st.gset('n_timer', n + 1)
        return s.ret(st, Agg('Sleep', [a[0], FRESH, I(n)]))
    def poll_Sleep(s, M, st, th, fut, fref):
        dur = fut.f[0]
        zero = b_and(binop('Eq', dur.f[0], I(0)), binop('Eq', dur.f[1], I(0, 32)))
        outs = []
        for st2, is_zero in M.fork_on(st, zero):
            f2 = M.deref(st2, fref); first = f2.f[1] == FRESH
            if f2.f[1] == DONE: outs.append(('ret', st2, ready(UNIT))); continue
            choices = [True] if is_zero else ([True, False] if (s.cfg['timer'] and not first) else [False])
            for i, expire in enumerate(choices):
                st3 = st2.clone() if i < len(choices) - 1 else st2
                f3 = M.deref(st3, fref)
                if expire:
                    kind = s.dur_kind(dur)
                    st3.logev('env', 'timer', f3.f[2].v, 'expired', kind)
                    M.write(st3, fref, f3.with_field(1, DONE)); outs.append(('ret', st3, ready(UNIT)))
                else:
                    if first: M.write(st3, fref, f3.with_field(1, ONCE))
                    outs.append(('ret', st3, PENDING))
        return outs
    def d_Sleep(s, M, st, th, v): return True
    @staticmethod
    def dur_kind(dur):
        # which configured timeout a duration is: the harness names its symbolic durations dur_<...>_{wait,create,recycle}
        t = repr(dur.f[0]) if isinstance(dur, Agg) else ''
        for k in ('wait', 'create', 'recycle'):
            if t.endswith(k) or ('_' + k) in t: return k
        return 'wait'

    # std::future::poll_fn(f) -> PollFn<F>: poll calls f(cx)
    def p___poll_fn(s, M, st, th, ci, a): return s.ret(st, Agg('PollFn', [a[0]]))
    p_future__poll_fn = p___poll_fn
    def poll_PollFn(s, M, st, th, fut, fref):
        r = M.call_value(st, th, fref.field(0), [UNIT])
        return [('push', st)] if r is None else [('raw', r)]
    def d_PollFn(s, M, st, th, v): return None
    def p_Poll__is_ready(s, M, st, th, ci, a): return s.ret(st, s.tgt(M, st, a[0]).variant == 'Ready')
    def p_Poll__is_pending(s, M, st, th, ci, a): return s.ret(st, s.tgt(M, st, a[0]).variant == 'Pending')
    def p_Poll__map(s, M, st, th, ci, a):
        if a[0].variant == 'Pending': return s.ret(st, PENDING)
        return s.call_then(M, st, th, a[1], [payload(a[0])], 'wrap', ('Poll', 'Ready'))

    def poll_TimeoutFut(s, M, st, th, fut, fref):
        if fut.f[2] == DONE: return [('panic', st, 'timeout future polled after completion', 'deadpool')]
        M.push_k(th, 'env', 'timeout', (fref,))
        r = s.t_Future__poll(M, st, th, None, [Agg('Pin', [fref.field(0)]), UNIT])
        return r

    def k_timeout(s, M, st, th, fr, why, rv, data):
        fref = data[0]
        th.stack.pop()
        if why == 'unwind': return 'continue'
        fut = M.deref(st, fref)
        as_result = len(fut.f) > 4
        if rv.variant == 'Ready':
            M.write(st, fref, Agg('TimeoutFut', [UNINIT, fut.f[1], DONE, fut.f[3]] + ([fut.f[4]] if as_result else [])))
            return [('ret', st, ready(ok(payload(rv)) if as_result else some(payload(rv))))]
        dur = fut.f[1]
        zero = b_and(binop('Eq', dur.f[0], I(0)), binop('Eq', dur.f[1], I(0, 32)))
        outs = []
        for st2, is_zero in M.fork_on(st, zero):
            first = M.deref(st2, fref).f[2] == FRESH
            choices = [True] if is_zero else ([True, False] if (s.cfg['timer'] and not first) else [False])
            for i, expire in enumerate(choices):
                st3 = st2.clone() if i < len(choices) - 1 else st2
                th3 = st3.threads[th.name]
                if not expire:
                    f3 = M.deref(st3, fref)
                    if f3.f[2] == FRESH: M.write(st3, fref, f3.with_field(2, ONCE))
                    outs.append(('ret', st3, PENDING)); continue
                f3 = M.deref(st3, fref); inner = f3.f[0]
                st3.logev('env', 'timer', f3.f[3].v, 'expired', s.timer_kind(inner))
                M.write(st3, fref, Agg('TimeoutFut', [UNINIT, f3.f[1], DONE, f3.f[3]] + ([f3.f[4]] if len(f3.f) > 4 else [])))
                M.push_k(th3, 'after', 'const', (ready(err(Agg('Elapsed', []))) if len(f3.f) > 4 else ready(NONE),))
                M.push_k(th3, 'drop', (inner,), None)
                outs.append(('push', st3))
        return outs

    def timer_kind(s, v):
        if isinstance(v, Agg):
            if v.ty == 'Acquire': return 'wait'
            if v.ty == 'CreateFut': return 'create'
            if v.ty == 'RecycleFut': return 'recycle'
            for x in v.f.values():
                r = s.timer_kind(x)
                if r: return r
        return None

    def d_TimeoutFut(s, M, st, th, v): return None     # drop the inner future (field 0) if still present


# ====================================================================== harness
class World:
    """drives harness-level operations on threads of a State"""

    def __init__(s, prog, env):
        s.prog = prog; s.env = env
        s.M = Machine(prog.fns, env, prog.shims, prog.enums)
        s._find = {}

    def find(s, suffix, *contains):
        key = (suffix,) + contains
        if key in s._find: return s._find[key]
        c = [n for n in s.M.fns if n.endswith(suffix) and all(x in n for x in contains)]
        if len(c) != 1: raise Unmodelled(f'function lookup {suffix} {contains}: {len(c)} candidates {c[:4]}')
        s._find[key] = c[0]; return c[0]

    def thread(s, st, name, kind='async'):
        if name not in st.threads: st.threads[name] = Thread(name, kind)
        return st.threads[name]

    def call(s, st, tid, fname, args):
        """run MIR fn on thread tid to completion (task mode) -> list of (state, result)"""
        th = s.thread(st, tid); th.result = None
        s.M.push_mir(st, th, fname, args)
        return s.finish(st, tid)

    def finish(s, st, tid):
        outs = []
        saved = s.M.task_mode
        if tid == 'S': s.M.task_mode = True        # observer thread: its scratch runs are never preempted
        try:
            for st2 in s.M.run(st, tid):
                th = st2.threads[tid]
                outs.append((st2, th.result))
        finally:
            s.M.task_mode = saved
        return outs

    def dispatch(s, st, tid, callee, args):
        """call through the model/MIR dispatcher (e.g. Future::poll) as the bottom frame of thread tid"""
        th = s.thread(st, tid); th.result = None
        r = s.M.dispatch(st, th, callee, args)
        if r is None: r = [(st, None)]
        outs = []
        for st2, flag in r:
            if flag == 'stop': outs.append((st2, st2.threads[tid].result))
            else: outs.extend(s.finish(st2, tid))
        return outs

    def drop(s, st, tid, values):
        th = s.thread(st, tid); th.result = None
        s.M.start_drop(st, th, values)
        return s.finish(st, tid)


class ManagedWorld(World):
    def __init__(s, prog, cfg=None):
        super().__init__(prog, ManagedEnv(cfg))
        s.F = lambda suf: s.find(suf, 'src/managed/mod.rs')
        s.B = lambda suf: s.find(suf, 'builder.rs')

    # ---------- construction through the real builder
    def build_pool(s, st, max_size, queue_lifo=False, timeouts=(None, None, None), runtime=True,
                   hooks=(), tid='main'):
        """hooks: sequence of (kind, 'sync'|'async').  -> list of (state, ('ok', Result<Pool,BuildError>) )"""
        mgr = Agg('Mgr', [Opaque('the-manager')])
        outs = s.call(st, tid, s.F('::builder'), [mgr])
        def chain(outs, f):
            res = []
            for st1, r in outs:
                if r[0] != 'ok': raise InternalError('builder step failed: ' + repr(r))
                res.extend(f(st1, r[1]))
            return res
        outs = chain(outs, lambda st1, b: s.call(st1, tid, s.B('::max_size'), [b, max_size]))
        qm = mk_enum('QueueMode', 'Lifo' if queue_lifo else 'Fifo')
        outs = chain(outs, lambda st1, b: s.call(st1, tid, s.B('::queue_mode'), [b, qm]))
        for nm, v in zip(('wait_timeout', 'create_timeout', 'recycle_timeout'), timeouts):
            val = NONE if v is None else some(v)
            outs = chain(outs, lambda st1, b, nm=nm, val=val: s.call(st1, tid, s.B('::' + nm), [b, val]))
        if runtime:
            outs = chain(outs, lambda st1, b: s.call(st1, tid, s.B('::runtime'), [b, mk_enum('Runtime', 'Tokio1')]))
        counts = {}
        for kind, mode in hooks:
            idx = counts.get(kind, 0); counts[kind] = idx + 1
            hf = Agg('HookFn', [Opaque(kind), I(idx), Opaque(mode)])
            ctor = s.find('::sync_fn' if mode == 'sync' else '::async_fn', 'hooks.rs')
            def add(st1, b, kind=kind, hf=hf, ctor=ctor):
                res = []
                for st2, r in s.call(st1, tid, ctor, [hf]):
                    res.extend(s.call(st2, tid, s.B('::' + kind), [b, r[1]]))
                return res
            outs = chain(outs, add)
        outs = chain(outs, lambda st1, b: s.call(st1, tid, s.B('::build'), [b]))
        return outs

    # ---------- operations (each returns list of (state, result))
    def start_get(s, st, tid, pool_root, timeouts=None):
        """-> future value (not stored)"""
        if timeouts is None:
            return s.call(st, tid, s.F('::get'), [Ref(pool_root)])
        troot = st.alloc(timeouts)
        return s.call(st, tid, s.F('::timeout_get'), [Ref(pool_root), Ref(troot)])

    def poll(s, st, tid, fut_root):
        return s.dispatch(st, tid, '<F as Future>::poll', [Agg('Pin', [Ref(fut_root)]), UNIT])

    def drop_object(s, st, tid, obj): return s.drop(st, tid, [obj])
    def take(s, st, tid, obj): return s.call(st, tid, s.F('::take'), [obj])
    def status(s, st, tid, pool_root): return s.call(st, tid, s.F('::status'), [Ref(pool_root)])
    def resize(s, st, tid, pool_root, n): return s.call(st, tid, s.F('::resize'), [Ref(pool_root), n])
    def close(s, st, tid, pool_root): return s.call(st, tid, s.F('::close'), [Ref(pool_root)])
    def is_closed(s, st, tid, pool_root): return s.call(st, tid, s.F('::is_closed'), [Ref(pool_root)])
    def retain(s, st, tid, pool_root):
        return s.call(st, tid, s.F('::retain'), [Ref(pool_root), Agg('Pred', [I(st.gget('n_retain', 0))])])
