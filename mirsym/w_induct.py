"""Inductive obligations for the managed pool (sequential histories of any length, any max_size):
one complete operation from an ARBITRARY state satisfying the rest invariant, all counters 64-bit symbolic.

    Inv(s):  size = |idle| + out      users = out      permits + out = max_size      size <= max_size
             max_size <= MAX_PERMITS  not closed  no waiter        (|idle| is concrete, 0..=B)

For every operation (get with any outcome script, return, take, retain with any subset, status) and every path the real MIR
takes from such a state:  no deadpool-raised panic,  Inv holds again with the ground-truth deltas (objects created /
destroyed / handed out / taken, counted from the event log, never from the pool),  and the operation-specific post-condition.
A path that ends Pending in the semaphore (out = max_size) leaves the state unchanged."""
import z3
from .mir import Unmodelled
from .core import (I, Agg, Ref, Opaque, UNINIT, UNIT, NONE, mk_enum, some, payload, is_sym, simp, z, b_not, b_and, b_or, binop, InternalError, State)
from .managed import ManagedWorld, FRESH
from .models import MAX_PERMITS
from .w_managed import ManagedBSE, _find_metrics


def BV(name): return z3.BitVec(name, 64)


class Induct:
    def __init__(s, prog, hooks=(), env=None, lifo=False):
        s.prog = prog; s.hooks = tuple(hooks); s.lifo = lifo
        s.B = ManagedBSE(prog, {'tasks': 1, 'hooks': s.hooks, 'lifo': lifo, 'env': env or {'create': ('ok', 'err', 'panic'), 'recycle': ('ok', 'err', 'panic'), 'hook': ('ok', 'err', 'panic')},
                                'oracles': (), 'probe': False})
        s.W = s.B.W; s.M = s.B.M; s.S = prog.structs
        s.nobl = 0; s.ndis = 0; s.vios = []; s.npaths = 0; s.cur_q = None; s.cur_rcs = []

    def idx(s, struct, field, path='src/managed/mod.rs'): return s.S[(path, struct)].index(field)

    # ---- an arbitrary rest state with k idle objects
    def arbitrary_state(s, k, tag=''):
        """-> (state, dict of the symbolic quantities).  The pool is built by the real builder, then its counters are havocked."""
        st0 = State()
        MS = BV('max_size' + tag)
        init = None
        for st1, r in s.W.build_pool(st0, MS, queue_lifo=s.lifo, hooks=s.hooks):
            if r[0] == 'ok' and r[1].variant == 'Ok': init = (st1, payload(r[1]))
        if init is None: raise InternalError('pool could not be built')
        st, pool = init
        proot = st.alloc(pool); st.gset('pool', proot); st.gset('max_size', MS); st.gset('lifo', s.lifo)
        st.pc = ()      # the builder's own path constraints (MS <= MAX_PERMITS) are re-stated by the invariant
        arc = pool.f[s.idx('Pool', 'inner')]; iroot = arc.f[0]
        inner = s.M.deref(st, iroot).f[0]
        OUT = BV('out' + tag)
        size = simp(z(I(k)) + OUT); permits = simp(MS - OUT)
        # idle objects: arbitrary metrics
        idle = []
        objs = {}
        for i in range(k):
            oid = f'obj:{i + 1}'; objs[oid] = {'created': True, 'destroyed': 0, 'detached': 0, 'handed': 0, 'handouts': 1}
            cnt = BV(f'rc{i}{tag}'); created = I(1 + i); st.assume(z3.ULT(cnt, 1 << 63))
            met = Agg('Metrics', [None, None, None])
            mv = {'created': Agg('Instant', [created]), 'recycled': NONE, 'recycle_count': cnt}
            met = Agg('Metrics', [mv[f] for f in s.S[('src/managed/metrics.rs', 'Metrics')]])
            ov = {'obj': Agg('Obj', [Opaque(oid)]), 'metrics': met}
            idle.append(Agg('ObjectInner', [ov[f] for f in s.S[('src/managed/mod.rs', 'ObjectInner')]]))
        st.gset('n_obj', k); st.gset('objs', objs); st.gset('clock', 10)
        st.gset('idleq', tuple(f'obj:{i + 1}' for i in range(k))); st.gset('trail', {}); st.gset('resizes', ()); st.gset('hand', ())
        # patch the counters
        pi = inner
        mtx = pi.f[s.idx('PoolInner', 'slots')]
        slots = mtx.f[0]
        sv = {'vec': Agg('VecDeque', idle), 'size': size, 'max_size': MS}
        slots2 = Agg('Slots', [sv[f] for f in s.S[('src/managed/mod.rs', 'Slots')]])
        pi = pi.with_field(s.idx('PoolInner', 'slots'), mtx.with_field(0, slots2))
        pi = pi.with_field(s.idx('PoolInner', 'users'), Agg('Atomic', [OUT]))
        sem = pi.f[s.idx('PoolInner', 'semaphore')]
        pi = pi.with_field(s.idx('PoolInner', 'semaphore'), Agg('Semaphore', [permits, False, (), ()]))
        s.M.write(st, iroot, s.M.deref(st, iroot).with_field(0, pi))
        # the invariant (what is not implied by construction)
        st.assume(z3.ULE(MS, MAX_PERMITS)); st.assume(z3.ULE(OUT, MS)); st.assume(z3.ULE(z(I(k)) + OUT, MS)); st.assume(z3.ULE(OUT, (1 << 62)))
        for t in s.B.tasks + ['C', 'S']:
            th = s.W.thread(st, t); th.local = {'gets': 0, 'objs': (), 'nctl': 0}
        st.threads.pop('main', None)
        st.log = (('init', f'arbitrary state: {k} idle, out symbolic'),)
        q = {'MS': MS, 'OUT': OUT, 'k': k, 'iroot': iroot}
        s.cur_q = q; s.cur_rcs = [BV(f'rc{i}{tag}') for i in range(k)]
        return st, q

    def read(s, st, q):
        inner = s.M.deref(st, q['iroot']).f[0]
        slots = inner.f[s.idx('PoolInner', 'slots')].f[0]
        sv = dict(zip(s.S[('src/managed/mod.rs', 'Slots')], slots.items()))
        sem = inner.f[s.idx('PoolInner', 'semaphore')]
        return {'size': sv['size'], 'max_size': sv['max_size'], 'idle': len(sv['vec'].f), 'users': inner.f[s.idx('PoolInner', 'users')].f[0],
                'permits': sem.f[0], 'closed': sem.f[1], 'waiters': len(sem.f[2]) + len(sem.f[3]),
                'locked': inner.f[s.idx('PoolInner', 'slots')].f[1] != Opaque('unlocked'), 'poisoned': inner.f[s.idx('PoolInner', 'slots')].f[2]}

    def oblige(s, txt, st, cond, op):
        s.nobl += 1
        holds = cond if isinstance(cond, bool) else s.M.must(st, cond)
        if holds: s.ndis += 1; return
        neg = [] if isinstance(cond, bool) else [z3.Not(z(cond))]
        m = s.M.model(st, neg)
        # is the failing state one a short history reaches?  (small max_size / out, fresh objects)
        small = None
        q = s.cur_q
        if q is not None:
            cons = neg + [z3.ULE(q['MS'], 4), z3.ULE(q['OUT'], 3)] + [v == 0 for v in s.cur_rcs]
            m2 = s.M.model(st, cons)
            if m2 is not None:
                small = {'max_size': m2.eval(q['MS'], model_completion=True).as_long(), 'out': m2.eval(q['OUT'], model_completion=True).as_long(), 'idle': q['k'], 'lifo': s.lifo}
        s.vios.append({'what': f'{op}: {txt}', 'model': {str(d): str(m[d]) for d in m.decls()} if m is not None else {}, 'small': small,
                       'trace': [list(map(str, e)) for e in st.log if e[0] in ('init', 'act', 'env')]})

    def check_inv(s, st, q, d_out, op, held=0):
        """Inv after the operation with OUT' = OUT + d_out; `held` = permits still held by a get() that is pending in user code"""
        r = s.read(st, q)
        live = len([o for o, x in st.gget('objs', {}).items() if x['destroyed'] == 0 and x['handed'] == 0])   # idle + those handed out in this step
        out2 = simp(q['OUT'] + d_out)
        s.oblige('the slots mutex is free and not poisoned', st, (not r['locked']) and r['poisoned'] is not True, op)
        s.oblige('max_size is unchanged', st, simp(z(r['max_size']) == q['MS']), op)
        s.oblige('size = idle + checked out (ground truth)', st, simp(z(r['size']) == z(I(r['idle'])) + out2), op)
        s.oblige('users = checked out', st, simp(z(r['users']) == out2 + held), op)
        s.oblige('permits + checked out = max_size', st, simp(z(r['permits']) + out2 + held == q['MS']), op)
        s.oblige('size <= max_size', st, simp(z3.ULE(z(r['size']), q['MS'])), op)
        s.oblige('no waiter is left queued', st, r['waiters'] == 0 and r['closed'] is False, op)
        return r

    # ---- the operations
    def run(s, kmax=3):
        B = s.B
        for k in range(kmax + 1):
            # get() from an arbitrary state
            st, q = s.arbitrary_state(k)
            for o in B.apply(st, ('get', 'T1', 0)):
                s.npaths += 1
                last = o.gget('last') or {}; res = last.get('res')
                if o.gget('deadpool_panics'):
                    s.oblige('get() raised a panic inside deadpool: ' + o.gget('deadpool_panics')[-1], o, False, f'get, {k} idle'); continue
                consumed = k - len([x for x in o.gget('idleq', ())])
                if res == ('pending',):
                    # waiting for a slot: only possible when every permit is out
                    if B.queued_for(o, 'T1'):
                        s.oblige('get() waits only when max_size objects are checked out', o, simp(q['OUT'] == q['MS']), f'get, {k} idle')
                        continue
                    s.oblige('get() is Pending without waiting although the manager never suspends in this family', o, False, f'get, {k} idle'); continue
                got = 1 if res[:2] == ('ok', 'object') else 0
                r = s.check_inv(o, q, got, f'get -> {res}, {k} idle')
                objs = o.gget('objs', {})
                destroyed = [x for x, v in objs.items() if v['destroyed']]
                s.oblige('every object that left the pool in this call was detached exactly once', o, all(objs[x]['detached'] == 1 for x in destroyed), f'get -> {res}, {k} idle')
                for v in [x for x in o.gget('pending_vio', ()) if x['property'] in ('C04', 'C09', 'C10', 'C03')]:
                    s.oblige(v['what'], o, False, f'get -> {res}, {k} idle [{v["property"]}]')
                if got:
                    met = _find_metrics(o.heap[last['oroot']])
            # return of a checked-out object (arbitrary metrics) and take
            for opname in ('drop', 'take'):
                st, q = s.arbitrary_state(k)
                st.assume(z3.UGE(q['OUT'], 1))
                oid = f'obj:{k + 1}'; objs = dict(st.gget('objs')); objs[oid] = {'created': True, 'destroyed': 0, 'detached': 0, 'handed': 0, 'handouts': 1}; st.gset('objs', objs); st.gset('n_obj', k + 1)
                rco = BV('rc_out'); st.assume(z3.ULT(rco, 1 << 63)); s.cur_rcs = s.cur_rcs + [rco]
                mv = {'created': Agg('Instant', [I(5)]), 'recycled': NONE, 'recycle_count': rco}
                met = Agg('Metrics', [mv[f] for f in s.S[('src/managed/metrics.rs', 'Metrics')]])
                ov = {'obj': Agg('Obj', [Opaque(oid)]), 'metrics': met}
                oi = Agg('ObjectInner', [ov[f] for f in s.S[('src/managed/mod.rs', 'ObjectInner')]])
                arcinner = s.M.deref(st, q['iroot']); s.M.write(st, q['iroot'], arcinner.with_field(2, I(arcinner.f[2].v + 1)))
                obv = {'inner': some(oi), 'pool': Agg('Weak', [q['iroot']])}
                obj = Agg('Object', [obv[f] for f in s.S[('src/managed/mod.rs', 'Object')]])
                st.threads['T1'].local['objs'] = (st.alloc(obj),)
                for o in B.apply(st, (opname, 'T1', 0)):
                    s.npaths += 1
                    if o.gget('deadpool_panics'):
                        s.oblige(f'{opname} raised a panic inside deadpool: ' + o.gget('deadpool_panics')[-1], o, False, f'{opname}, {k} idle'); continue
                    r = s.check_inv(o, q, z3.BitVecVal((1 << 64) - 1, 64), f'{opname}, {k} idle')
                    ob = o.gget('objs')[oid]
                    if opname == 'drop':
                        s.oblige('a returned object becomes idle (it is not destroyed while size <= max_size)', o, ob['destroyed'] == 0 and r['idle'] == k + 1, f'drop, {k} idle')
                    else:
                        s.oblige('take() hands the value over, detaches it exactly once and shrinks the pool by one', o, ob['detached'] == 1 and r['idle'] == k, f'take, {k} idle')
                    for v in [x for x in o.gget('pending_vio', ()) if x['property'] in ('C04', 'C09', 'C10', 'C03')]:
                        s.oblige(v['what'], o, False, f'{opname}, {k} idle [{v["property"]}]')
            # status(): exact at rest
            st, q = s.arbitrary_state(k)
            for o, r in s.W.status(st.clone(), 'S', st.gget('pool')):
                s.npaths += 1
                if r[0] != 'ok': s.oblige('status() panicked', o, False, f'status, {k} idle'); continue
                S_ = dict(zip(s.S[('src/lib.rs', 'Status')], r[1].items()))
                s.oblige('status() = (max_size, idle + out, idle, 0) at rest', o,
                         b_and(simp(z(S_['max_size']) == q['MS']), simp(z(S_['size']) == z(I(k)) + q['OUT']), simp(z(S_['available']) == z(I(k))), simp(z(S_['waiting']) == z(I(0)))), f'status, {k} idle')
            # retain with any subset
            st, q = s.arbitrary_state(k)
            for o in B.apply(st, ('retain',)):
                s.npaths += 1
                last = o.gget('last') or {}
                if o.gget('deadpool_panics'):
                    s.oblige('retain raised a panic inside deadpool: ' + o.gget('deadpool_panics')[-1], o, False, f'retain, {k} idle'); continue
                r = s.check_inv(o, q, 0, f'retain, {k} idle')
                nrem = len(last.get('removed', ()))
                s.oblige('retain removes exactly the rejected objects and reports the kept count', o,
                         tuple(last.get('removed', ())) == tuple(last.get('pred_removed', ())) and r['idle'] == k - nrem and simp(z(last['retained']) == z(I(k - nrem))), f'retain, {k} idle')
                for v in [x for x in o.gget('pending_vio', ()) if x['property'] in ('C04', 'C09', 'C10', 'C03')]:
                    s.oblige(v['what'], o, False, f'retain, {k} idle [{v["property"]}]')
        return s


def run_induct(prog, job):
    cfg = job['cfg']
    ind = Induct(prog, hooks=tuple(tuple(h) for h in cfg.get('hooks', ())), lifo=cfg.get('lifo', False), env=cfg.get('env'))
    ind.run(kmax=cfg.get('kmax', 3))
    S_ = ind.M.stats
    vios = [{'property': job['cfg']['property'], 'what': 'inductive step fails: ' + v['what'], 'model': v['model'], 'trace': v['trace'], 'small': v['small'], 'kind': 'induct', 'crates': job['crates'],
             'cfg': dict(cfg, hooks=[list(h) for h in cfg.get('hooks', ())])} for v in ind.vios]
    return {'states': ind.npaths, 'transitions': ind.npaths, 'obligations': ind.nobl, 'discharged': ind.ndis, 'violations': vios, 'complete': True,
            'samples': [{'obligation': 'Inv /\\ one get() from any state with k idle objects and any `out`, any max_size (64 bit) => Inv with out+1 or out, detach once for discarded objects'}],
            'queries': S_.queries, 'sat': S_.sat, 'unsat': S_.unsat, 'solver_s': round(S_.solver_s, 3), 'cache_hits': S_.cache_hits, 'blocks': S_.blocks,
            'functions': dict(S_.fns), 'models': dict(S_.models), 'dump_s': prog.dump_s,
            'bounds': {'idle_queue_length': f'0..={cfg.get("kmax", 3)}', 'max_size / out / recycle counts': 'arbitrary 64-bit values under the rest invariant', 'hooks': list(cfg.get('hooks', ())),
                       'histories': 'sequential histories of complete operations of any length (inductive step)'},
            'summary': f'{ind.npaths} paths, {ind.ndis}/{ind.nobl} inductive obligations discharged, {len(vios)} failing'}
