"""Scenario families per property: what each check explores (the bounds live here)."""
import time, json, copy
from . import dump, explore, w_managed

ALL_M = ('C01', 'C02', 'C03', 'C04', 'C06', 'C07', 'C08', 'C09', 'C10', 'C11', 'C13')
H3 = (('post_create', 'sync'), ('pre_recycle', 'async'), ('post_recycle', 'sync'))
H3A = (('post_create', 'async'), ('pre_recycle', 'sync'), ('post_recycle', 'async'))
H6 = (('post_create', 'sync'), ('post_create', 'async'), ('pre_recycle', 'async'), ('pre_recycle', 'sync'), ('post_recycle', 'sync'), ('post_recycle', 'async'))
OE = ('ok', 'err'); OEP = ('ok', 'err', 'pending'); OEPP = ('ok', 'err', 'pending', 'panic'); ALLO = ('ok', 'err', 'pending', 'stuck', 'panic')

META = {}


def meta(pid, level, technique, explanation='', outside='', assumptions=()):
    META[pid] = {'level': level, 'technique': technique, 'explanation': explanation, 'outside': outside, 'assumptions': list(assumptions)}


COMMON_ASSUME = [
    'library models listed in DESIGN.md section 4 (tokio Semaphore, std Mutex/Arc/VecDeque/atomics as sequentially consistent, Instant as a monotone counter)',
    'user code (manager, hooks, predicates) behaves as one of the scripted outcomes ok / err / pending / never / panic per call',
    'feature set managed,unmanaged,rt_tokio_1; dev-profile overflow checks on',
]
TECH = 'symbolic execution of rustc MIR (mirsym) + z3: bounded symbolic exploration with state merging'

for _p in ALL_M:
    meta(_p, 'model_checking', TECH, outside='histories longer than the depth bound, more tasks than the family lists, max_size above the bound; Relaxed memory-ordering effects',
         assumptions=COMMON_ASSUME)


def mfam(name, oracles, depth, **kw):
    cfg = {'oracles': tuple(oracles), 'depth': depth}
    cfg.update(kw)
    return {'name': name, 'kind': 'managed_bse', 'cfg': cfg, 'crates': ['deadpool']}


def jobs_for(pid, tier, seed):
    q = tier == 'quick'
    J = []
    if pid == 'C01':
        J.append(mfam('2 tasks, outcomes ok/err/pending/panic, cancel+take', ['C01'], 6 if q else 8, tasks=2, env={'create': OEPP, 'recycle': OEPP}, probe=False))
        J.append(mfam('3 tasks, outcomes ok/err', ['C01'], 5 if q else 7, tasks=3, env={'create': OE, 'recycle': OE}, probe=False))
        J.append(mfam('2 tasks, 3 hooks, outcomes ok/err/panic', ['C01'], 5 if q else 7, tasks=2, hooks=H3, env={'create': OE, 'recycle': OE, 'hook': ('ok', 'err', 'panic')}, probe=False))
        J.append(mfam('2 tasks + retain/status', ['C01'], 5 if q else 7, tasks=2, env={'create': OE, 'recycle': OE}, ctl=('retain', 'status'), probe=False))
        J.append(mfam('2 tasks, stuck manager futures', ['C01'], 5 if q else 7, tasks=2, env={'create': ('ok', 'stuck'), 'recycle': ('ok', 'err', 'stuck')}, probe=False))
    elif pid == 'C02':
        J.append(mfam('2 tasks, ok/err/pending/panic', ['C02'], 5 if q else 7, tasks=2, env={'create': OEPP, 'recycle': OEPP}))
        J.append(mfam('3 tasks, ok/err', ['C02'], 4 if q else 6, tasks=3, env={'create': OE, 'recycle': OE}))
        J.append(mfam('2 tasks, 3 hooks ok/err/panic', ['C02'], 4 if q else 6, tasks=2, hooks=H3, env={'create': OE, 'recycle': OE, 'hook': ('ok', 'err', 'panic')}))
        J.append(mfam('2 tasks, per-call timeouts', ['C02'], 4 if q else 6, tasks=2, env={'create': OEP, 'recycle': OEP},
                      timeout_variants=[None, ('pos', 'pos', 'pos'), ('zero', None, None)]))
    else:
        raise KeyError(pid)
    for i, j in enumerate(J):
        j['seed'] = seed; j['tier'] = tier; j['budget'] = 150 if q else 1500
    return J


def run(job):
    prog = dump.load_cached(job['mir_cache'], job['crates'])
    if job['kind'] == 'managed_bse':
        cfg = job['cfg']
        B = w_managed.ManagedBSE(prog, cfg)
        init = B.init_states()
        R = explore.bfs(B, init, cfg['depth'], time_budget=job['budget'], seed=job['seed'], stop_on_violation=False)
        S = B.M.stats
        vios = []
        for v, st in R.violations:
            d = dict(v); d['trace'] = [list(map(str, e)) for e in st.log if e[0] in ('init', 'act', 'env')]
            d['pc'] = [c.sexpr() for c in st.pc]; d['family'] = job['name']; d['cfg'] = _jsonable(cfg)
            vios.append(d)
        return {
            'states': R.states, 'transitions': R.transitions, 'merged': R.merged, 'max_depth': R.max_depth, 'complete': R.complete,
            'truncated': R.truncated if not R.complete else 0, 'violations': vios, 'samples': R.samples[:3],
            'queries': S.queries, 'sat': S.sat, 'unsat': S.unsat, 'solver_s': round(S.solver_s, 3), 'cache_hits': S.cache_hits,
            'blocks': S.blocks, 'functions': dict(S.fns), 'models': dict(S.models), 'probes': B.nprobes,
            'dump_s': prog.dump_s, 'suspension_points': len(B.susp),
            'bounds': {'tasks': cfg.get('tasks', 2), 'depth': cfg['depth'], 'max_size': '0..=%d (symbolic)' % B.cfg['max_size_bound'],
                       'outcomes': _jsonable(B.cfg['env']), 'hooks': _jsonable(B.cfg['hooks']), 'controller': _jsonable(B.cfg['ctl']),
                       'queue_modes': 'fifo+lifo' if B.cfg['lifo'] is None else ('lifo' if B.cfg['lifo'] else 'fifo'),
                       'mode': 'thread' if B.cfg['thread_mode'] else 'task', 'time_budget_s': job['budget']},
            'summary': f'{R.states} states, {R.transitions} transitions, depth {R.max_depth}{"" if R.complete else " (budget reached)"}, {len(vios)} violation(s)',
        }
    raise KeyError(job['kind'])


def _jsonable(x):
    return json.loads(json.dumps(x, default=str))
