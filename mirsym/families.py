"""Scenario families per property: what each check explores (the bounds live here)."""
import time, json, copy
from . import dump, explore, w_managed

ALL_M = ('C01', 'C02', 'C03', 'C04', 'C06', 'C07', 'C08', 'C09', 'C10', 'C11', 'C13')
H3 = (('post_create', 'sync'), ('pre_recycle', 'async'), ('post_recycle', 'sync'))
H3A = (('post_create', 'async'), ('pre_recycle', 'sync'), ('post_recycle', 'async'))
H6 = (('post_create', 'sync'), ('post_create', 'async'), ('pre_recycle', 'async'), ('pre_recycle', 'sync'), ('post_recycle', 'sync'), ('post_recycle', 'async'))
OE = ('ok', 'err'); OEP = ('ok', 'err', 'pending'); OEPP = ('ok', 'err', 'pending', 'panic'); OEPS = ('ok', 'err', 'pending', 'stuck'); ALLO = ('ok', 'err', 'pending', 'stuck', 'panic')

import os
META = {}


def meta(pid, level, technique, explanation='', outside='', assumptions=()):
    META[pid] = {'level': level, 'technique': technique, 'explanation': explanation, 'outside': outside, 'assumptions': list(assumptions)}


COMMON_ASSUME = [
    'library models listed in DESIGN.md section 4 (tokio Semaphore, std Mutex/Arc/VecDeque/atomics as sequentially consistent, Instant as a monotone counter)',
    'user code (manager, hooks, predicates) behaves as one of the scripted outcomes ok / err / pending / never / panic per call',
    'feature set managed,unmanaged,rt_tokio_1; dev-profile overflow checks on',
]
TECH = 'symbolic execution of rustc MIR (mirsym) + z3: bounded symbolic exploration with state merging'

for _p in ALL_M:
    meta(_p, 'model_checking', TECH, outside='histories longer than the depth bound, more tasks than the family lists, max_size above the bound; Relaxed memory-ordering effects',
         assumptions=COMMON_ASSUME)


meta('C18', 'other', 'symbolic execution of rustc MIR (mirsym) + z3 (String theory): per-path obligations over symbolic inputs',
     explanation='Config::get_pg_config is executed symbolically from its MIR for a covering family of Option-tag patterns (identity group, host/port/hostaddr groups as '
                 'full products; every other field alone and in every pair; all set; none set) with every payload (strings as z3 String terms, ports, addresses, durations, '
                 'flags) symbolic; tokio_postgres::Config is a record model and from_str returns an arbitrary record or an error; each path yields the obligations the property '
                 'demands (error variant exactly when documented, every set option in effect, list order url ++ singular ++ plural, defaults only without hosts, no panic) and z3 must '
                 'prove each valid under the path condition; a falsified obligation is concretised and the real function is run on that input.',
     outside='Option-tag combinations beyond the covering family (triples of unrelated fields); lists longer than 2; the real tokio_postgres parser (modelled as an arbitrary record); non-unix defaults',
     assumptions=['tokio_postgres::Config setters overwrite (scalars) or append (host, hostaddr, port) as documented', 'z3 String theory for string equality and emptiness'])


meta('C19', 'other', 'symbolic execution of rustc MIR (mirsym) + z3 (String theory): per-path obligations over symbolic inputs; serde clause: Kani 0.68 / CBMC 6.11 proof harnesses over the monomorphised derived impls',
     explanation='builder() of the redis, cluster and sentinel Config, their Default impls and every From conversion between the connection descriptions and the redis '
                 "crate's types are executed from MIR with all payloads symbolic (strings as z3 String terms, ports, db numbers, flags) and every enum variant / Option tag enumerated; "
                 'obligations: both url(s) and connection(s) -> UrlAndConnectionSpecified and no client constructed; neither -> the documented default server; otherwise the client '
                 'constructor receives exactly the named servers in order; a constructor error becomes ConfigError::Redis; forth-and-back conversion is the identity field by field. '
                 'Serde clause (family "serde round trip"): the derived Serialize / Deserialize impls of PoolConfig, Timeouts and QueueMode are compiled from /repo into the harness crate /verif/kani_serde '
                 'and checked by Kani, one proof harness per document shape (every subset of the three timeouts x both queue modes; max_size and every seconds value kani::any()); PoolConfig -> tokens -> PoolConfig '
                 'is the identity and documents that omit sections deserialise to the documented defaults; unwind 13 with unwinding assertions, a cover! vacuity witness per harness; failed harnesses are replayed natively.',
     outside='serde clause: the text formats themselves (config / serde_json number formatting and parsing), sub-second parts other than the concrete ones of the harnesses (999999999, 0, 1 ns; thorough also 1000000, 999999, 500000000), documents with unknown or duplicate fields; '
             'the redis crate itself (Client::open etc. are models that record their arguments); url lists longer than 2',
     assumptions=['redis::Client::open / ClusterClientBuilder / SentinelClient::build are models that record their arguments and succeed or fail arbitrarily',
                  'serde clause: the token format of /verif/kani_serde stands in for a self-describing format (structs as maps by field name); serde\'s own Duration impl is read in its sequence form'])


SYNC_ASSUME = ['tokio::task::spawn_blocking: a queue of tasks each run atomically on a blocking thread in any order; dropping the JoinHandle does not cancel; panics are caught and returned through the handle',
               'std Mutex poisoning as documented; Arc counts', 'user closures and backend callbacks do what the scenario scripts (ok / panic; healthy / broken / invalid / wrong echo)']
meta('C14', 'model_checking', TECH, outside='overlap of two blocking tasks (excluded by the wrapper mutex; tasks are atomic in the model); more than 3 interacts; async-std',
     assumptions=SYNC_ASSUME)
meta('C15', 'model_checking', TECH + '; compositional with C04 (a failing recycle discards and replaces) and C14 (a panic poisons)',
     outside='the backends themselves (rusqlite, r2d2 managers, diesel are models answering as scripted); pools of more than one connection are covered by C04; '
             'a cancelled closure that panics after recycle() ran its check is indistinguishable from a panic after the hand-out and is not counted',
     assumptions=SYNC_ASSUME)


meta('C17', 'other', 'symbolic execution of rustc MIR (mirsym) + z3: per-path obligations, ping counter and server reply symbolic',
     explanation='Manager::recycle of deadpool-redis (standalone, sentinel, cluster) is executed from MIR on a model of redis::Pipeline / Cmd that records the commands and answers '
                 'with an arbitrary string, an error, or never (the recycle is then abandoned at its await). The ping counter is a symbolic 64-bit value and its decimal rendering an '
                 'uninterpreted injective function. Obligations: the standalone manager sends exactly UNWATCH (ignored) + PING <n>; Ok is returned iff the reply equals the value sent; '
                 'over histories of 2-3 recycles with any outcome of the earlier ones the values sent are pairwise different. Composition: a rejected connection is discarded and replaced '
                 '(C04), Connection::take is Object::take (C09).',
     outside='the wire protocol and the redis crate (modelled at the level of the commands handed to query_async); WATCH state on the server (UNWATCH is checked to be sent)',
     assumptions=['redis::Pipeline / Cmd are command-list builders; query_async hands the list to the server and yields its reply', 'usize::to_string is injective'])


meta('C16', 'other', 'symbolic execution of rustc MIR (mirsym) + z3 (String theory): per-path obligations',
     explanation='(a) Manager::recycle of deadpool-postgres for every RecyclingMethod (custom SQL symbolic), open/closed client and every reply (ok / error / delayed): a closed client is rejected '
                 'without a query; otherwise exactly the documented check is issued and recycle fails exactly when it fails. (b) every sequence of up to 3 (thorough: 4) prepare / remove / clear '
                 'operations of the real StatementCache over keys that differ in text or only in parameter types, plus two overlapping prepares of one key: a hit returns the statement cached '
                 'for that exact key with no call into the client, a miss prepares once with the same arguments, size() equals the number of cached keys. (c) registry: for every fate '
                 '(pooled / detached / discarded) of 2-3 clients created through Manager::create, the registry addresses exactly the caches of the clients still pooled and clear() reaches those and no others. '
                 'With C04 (a failing recycle discards) and C09 (detach exactly once) this gives the property.',
     outside='the wire level (claims are at the level of calls into tokio_postgres::Client); HashMap hashing (key equality is decided on both fields as the derived PartialEq does); Transaction wrappers share the same cache object and code path',
     assumptions=['tokio_postgres::Client::{is_closed, simple_query, prepare_typed} are models that log their arguments and answer as scripted', 'tracing is disabled (no subscriber)'])


def mfam(name, oracles, depth, **kw):
    cfg = {'oracles': tuple(oracles), 'depth': depth}
    cfg.update(kw)
    return {'name': name, 'kind': 'managed_bse', 'cfg': cfg, 'crates': ['deadpool', 'deadpool_runtime']}


def ufam(name, oracles, depth, **kw):
    cfg = {'oracles': tuple(oracles), 'depth': depth}
    cfg.update(kw)
    return {'name': name, 'kind': 'unmanaged_bse', 'cfg': cfg, 'crates': ['deadpool', 'deadpool_runtime']}


ALL_U = ('C05', 'C12')
for _p in ALL_U:
    meta(_p, 'model_checking', TECH, outside='histories longer than the depth bound, more tasks than listed, max_size above 2; Relaxed memory-ordering effects; interleavings finer than the schedule points',
         assumptions=COMMON_ASSUME)


def jobs_for(pid, tier, seed):
    q = tier == 'quick'
    J = []
    if pid == 'C01':
        J.append(mfam('2 tasks, outcomes ok/err/pending/panic, cancel+take', ['C01'], 6 if q else 8, tasks=2, env={'create': OEPP, 'recycle': OEPP}, probe=False))
        J.append(mfam('3 tasks, outcomes ok/err', ['C01'], 5 if q else 7, tasks=3, env={'create': OE, 'recycle': OE}, probe=False))
        J.append(mfam('2 tasks, 3 hooks, outcomes ok/err/panic', ['C01'], 5 if q else 7, tasks=2, hooks=H3, env={'create': OE, 'recycle': OE, 'hook': ('ok', 'err', 'panic')}, probe=False))
        J.append(mfam('2 tasks + retain/status', ['C01'], 5 if q else 7, tasks=2, env={'create': OE, 'recycle': OE}, ctl=('retain', 'status'), probe=False))
        J.append(mfam('2 tasks, stuck manager futures', ['C01'], 5 if q else 7, tasks=2, env={'create': ('ok', 'stuck'), 'recycle': ('ok', 'err', 'stuck')}, probe=False))
        J.append(mfam('2 tasks + retain while a get() is suspended in create', ['C01', 'C02'], 6 if q else 8, tasks=2, env={'create': ('ok', 'pending'), 'recycle': ('ok',)}, ctl=('retain',), max_ctl=1,
                      cancel=False, take=False, probe=True, lifo=False))
        J.append(mfam('thread level: retain racing get / return (idle objects, predicate and detach as schedule points)', ['C01'], 10 if q else 14, tasks=2, env={'create': ('ok',), 'recycle': ('ok',)},
                      thread_mode=True, prefix=(('get', 'T1', 0), ('get', 'T2', 0), ('drop', 'T1', 0)), ctl=('retain',), max_ctl=1, cancel=False, take=False, lifo=False, max_gets=2, max_size_concrete=2, probe=False))
        J.append(mfam('thread level: non-blocking get racing retain / return (lock contention: callbacks under the lock are schedule points iff the crate probes locks)', ['C01'], 10 if q else 14, tasks=2,
                      env={'create': ('ok',), 'recycle': ('ok',)}, thread_mode=True, prefix=(('get', 'T1', 0), ('drop', 'T1', 0)), timeout_variants=[('zero', None, None)], ctl=('retain',), max_ctl=1,
                      cancel=False, take=False, lifo=False, max_gets=1, max_size_concrete=1, probe=False))
    elif pid == 'C02':
        J.append(mfam('2 tasks, ok/err/pending/panic', ['C02'], 5 if q else 7, tasks=2, env={'create': OEPP, 'recycle': OEPP}))
        J.append(mfam('3 tasks, ok/err', ['C02'], 4 if q else 6, tasks=3, env={'create': OE, 'recycle': OE}))
        J.append(mfam('2 tasks, 3 hooks ok/err/panic', ['C02'], 4 if q else 6, tasks=2, hooks=H3, env={'create': OE, 'recycle': OE, 'hook': ('ok', 'err', 'panic')}))
        J.append(mfam('2 tasks, per-call timeouts', ['C02'], 4 if q else 6, tasks=2, env={'create': OEPS, 'recycle': OEPS},
                      timeout_variants=[None, ('pos', 'pos', 'pos'), ('zero', None, None)]))
        J.append(mfam('2 tasks + resize: no capacity is lost (waiters with assigned permits, shrink, grow)', ['C02'], 6 if q else 8, tasks=2, env={'create': ('ok',), 'recycle': ('ok',)},
                      ctl=('resize',), resize_targets=(0, 1, 2), max_ctl=2, cancel=False, take=False, lifo=False))
        J.append(mfam('a waiter holds an assigned permit across a shrink and a grow: no capacity is lost (max_size 1)', ['C02'], 6 if q else 8, tasks=2, max_size_concrete=1, prefix=(('get', 'T1', 0), ('get', 'T2', 0)),
                      env={'create': ('ok',), 'recycle': ('ok',)}, ctl=('resize',), resize_targets=(0, 1), max_ctl=2, cancel=False, take=False, lifo=False))
        J.append(mfam('thread level: retain racing get / take / return (window between status() and the lock), capacity probe', ['C02'], 10 if q else 14, tasks=2, env={'create': ('ok',), 'recycle': ('ok',)},
                      thread_mode=True, prefix=(('get', 'T1', 0),), ctl=('retain',), max_ctl=1, cancel=False, lifo=False, max_gets=1, max_size_concrete=2, probe=True, probe_rounds=2))
        J.append(mfam('thread level: take / return / get racing on a full pool (3 threads)', ['C02'], 16 if q else 20, tasks=3, env={'create': ('ok',), 'recycle': ('ok',)},
                      thread_mode=True, prefix=(('get', 'T1', 0), ('get', 'T3', 0)), cancel=False, lifo=False, max_gets=1, max_size_concrete=2))
        J.append(mfam('thread level: failing get / return racing (2 threads)', ['C02'], 14 if q else 18, tasks=2, env={'create': ('ok', 'err'), 'recycle': ('ok', 'err')},
                      thread_mode=True, prefix=(('get', 'T1', 0),), cancel=False, take=False, lifo=False, max_gets=2))
    elif pid == 'C03':
        E = {'create': ALLO, 'recycle': ALLO, 'hook': ALLO}
        J.append(mfam('1 task, 3 hooks (sync/async/sync), every outcome, cancel at every await', ['C03'], 6 if q else 9, tasks=1, hooks=H3, env=E, take=False, probe=False))
        J.append(mfam('1 task, 3 hooks (async/sync/async), every outcome', ['C03'], 6 if q else 9, tasks=1, hooks=H3A, env=E, take=False, probe=False))
        J.append(mfam('1 task, 6 hooks, ok/pending/panic', ['C03'], 5 if q else 7, tasks=1, hooks=H6, env={'create': ('ok', 'pending', 'panic'), 'recycle': ('ok', 'pending', 'panic'), 'hook': ('ok', 'pending', 'panic')}, take=False, probe=False))
        J.append(mfam('1 task, enclosing per-call timeouts fire at every await', ['C03'], 5 if q else 8, tasks=1, hooks=H3A, env={'create': OEPS, 'recycle': OEPS, 'hook': OEPS},
                      timeout_variants=[('pos', 'pos', 'pos')], take=False, probe=False))
        J.append(mfam('a get() that owns an object is abandoned after close() / resize(0) ran meanwhile', ['C03'], 6 if q else 8, tasks=1, hooks=(('post_create', 'async'), ('pre_recycle', 'async')),
                      env={'create': ('ok', 'pending'), 'recycle': ('ok', 'pending'), 'hook': ('ok', 'pending', 'panic')}, ctl=('close', 'resize'), resize_targets=(0,), max_ctl=1, take=False, probe=False))
        J.append(mfam('2 tasks, waiter + cancel, global invariants', ['C03', 'C01', 'C02', 'C11'], 5 if q else 7, tasks=2, hooks=(('pre_recycle', 'async'),), env={'create': OEP, 'recycle': OEP, 'hook': ('ok', 'pending')}, take=False))
        J.append(mfam('thread level: a get() suspended in recycle is abandoned while retain() / status() run on another thread', ['C03', 'C11'], 10 if q else 14, tasks=2, max_size_concrete=2,
                      env={'create': ('ok',), 'recycle': ('ok', 'pending')}, thread_mode=True, prefix=(('get', 'T1', 0), ('get', 'T2', 0), ('drop', 'T1', 0), ('drop', 'T2', 0)),
                      ctl=('retain', 'status'), max_ctl=1, take=False, lifo=False, max_gets=2, probe=False))
    elif pid == 'C04':
        E = {'create': OE, 'recycle': OE, 'hook': OE}
        J.append(mfam('1 task, 6 hooks (2 per kind, sync+async), ok/err', ['C04'], 6 if q else 8, tasks=1, hooks=H6, env=E, cancel=False, take=False, probe=False))
        J.append(mfam('2 tasks, 3 hooks, ok/err/pending', ['C04'], 5 if q else 7, tasks=2, hooks=H3, env={'create': OEP, 'recycle': OEP, 'hook': OEP}, take=False, probe=False))
        J.append(mfam('1 task, no hooks, ok/err, long histories', ['C04'], 8 if q else 11, tasks=1, env=E, cancel=False, take=False, probe=False))
        J.append(mfam('2 tasks, per-call timeouts, 3 hooks async', ['C04'], 4 if q else 6, tasks=2, hooks=H3A, env={'create': OEPS, 'recycle': OEPS, 'hook': OEPS},
                      timeout_variants=[('pos', 'pos', 'pos')], take=False, probe=False))
        J.append(mfam('no runtime: per-call timeouts must not cost healthy idle objects', ['C04', 'C10'], 5 if q else 7, tasks=2, env={'create': OE, 'recycle': OE}, runtime=False,
                      timeout_variants=[None, (None, None, 'pos'), ('zero', None, 'pos'), (None, 'pos', None)], take=False, cancel=False, probe=False, lifo=False))
        J.append(mfam('2 tasks, hooks panic', ['C04'], 5 if q else 7, tasks=2, hooks=H3, env={'create': OE, 'recycle': OE, 'hook': ('ok', 'err', 'panic')}, take=False, probe=False))
    elif pid == 'C06':
        E = {'create': OE, 'recycle': OE}
        J.append(mfam('task level: 2 tasks + close/resize/status/is_closed, waiters, returns after close', ['C06'], 6 if q else 8, tasks=2, env=E, ctl=('close', 'resize', 'status', 'is_closed'), resize_targets=(1, 2), max_ctl=2, probe=False))
        J.append(mfam('task level: close while a get() is suspended in create / recycle', ['C06'], 5 if q else 7, tasks=2, env={'create': ('ok', 'pending'), 'recycle': ('ok', 'pending')},
                      ctl=('close', 'status'), max_ctl=2, probe=False, take=False, cancel=False))
        J.append(mfam('objects that outlive every pool handle: return / take after the last handle is gone (with and without close)', ['C06'], 5 if q else 6, tasks=2, max_size_concrete=2,
                      prefix=(('get', 'T1', 0), ('get', 'T2', 0)), env={'create': ('ok',), 'recycle': ('ok',)}, ctl=('close', 'drop_pool'), max_ctl=2, max_gets=2, cancel=False, probe=False, lifo=False))
        J.append(mfam('task level: 3 tasks + close', ['C06'], 5 if q else 7, tasks=3, env={'create': ('ok',), 'recycle': ('ok',)}, ctl=('close',), max_ctl=1, probe=False, take=False))
        J.append(mfam('thread level: return racing close (1 object out)', ['C06'], 12 if q else 16, tasks=1, env={'create': ('ok',), 'recycle': ('ok',)}, ctl=('close',), max_ctl=1,
                      thread_mode=True, prefix=(('get', 'T1', 0),), cancel=False, take=False, probe=False, lifo=False))
        J.append(mfam('thread level: get racing close', ['C06'], 12 if q else 16, tasks=2, env={'create': ('ok',), 'recycle': ('ok',)}, ctl=('close',), max_ctl=1,
                      thread_mode=True, cancel=False, take=False, probe=False, lifo=False, max_gets=1))
        J.append(mfam('thread level: take / return racing close (2 objects)', ['C06'], 10 if q else 14, tasks=2, env={'create': ('ok',), 'recycle': ('ok',)}, ctl=('close',), max_ctl=1,
                      thread_mode=True, prefix=(('get', 'T1', 0), ('get', 'T2', 0)), cancel=False, probe=False, lifo=False, max_gets=1))
        J.append(mfam('thread level: a resize() on a task thread racing close() (1 object out, returned afterwards)', ['C06'], 12 if q else 16, tasks=2, env={'create': ('ok',), 'recycle': ('ok',)}, ctl=('close', 'status'), max_ctl=2,
                      thread_mode=True, prefix=(('get', 'T2', 0),), task_ctl={'T1': (('resize', 2), ('resize', 0))}, cancel=False, take=False, probe=False, lifo=False, max_gets=1, max_size_concrete=1))
        J.append(mfam('thread level: retain() racing a close() issued by a task thread (1 idle object, 1 out)', ['C06', 'C09'], 12 if q else 16, tasks=2, env={'create': ('ok',), 'recycle': ('ok',)}, ctl=('retain', 'status'), max_ctl=2,
                      thread_mode=True, prefix=(('get', 'T1', 0), ('get', 'T2', 0), ('drop', 'T1', 0)), task_ctl={'T1': (('close',),)}, cancel=False, take=False, probe=False, lifo=False, max_gets=1, max_size_concrete=2))
        J.append(mfam('thread level: close() on a task thread racing retain() while a waiter holds the assigned permit of the idle object (max_size 1; callbacks under the lock are schedule points iff the crate probes locks)',
                      ['C06'], 14 if q else 18, tasks=2, env={'create': ('ok',), 'recycle': ('ok',)}, ctl=('retain',), max_ctl=1, thread_mode=True,
                      prefix=(('get', 'T2', 0), ('get', 'T1', 0), ('drop', 'T2', 0)), task_ctl={'T2': (('close',),)}, cancel=True, take=False, probe=False, lifo=False, max_gets=1, max_size_concrete=1))
    elif pid == 'C07':
        E = {'create': OE, 'recycle': OE}
        J.append(mfam('2 tasks + 2 resizes (targets 0..3), take/return', ['C07'], 6 if q else 8, tasks=2, env={'create': ('ok',), 'recycle': ('ok',)}, ctl=('resize',), max_ctl=2, cancel=False, lifo=False))
        J.append(mfam('2 tasks + 3 resizes (targets 1..2), failing gets', ['C07'], 5 if q else 7, tasks=2, env=E, ctl=('resize',), resize_targets=(1, 2), max_ctl=3, lifo=False))
        J.append(mfam('3 tasks + 1 resize, waiters', ['C07'], 5 if q else 7, tasks=3, env={'create': ('ok',), 'recycle': ('ok',)}, ctl=('resize',), max_ctl=1, cancel=False, take=False, lifo=False))
        J.append(mfam('2 tasks + resize + retain', ['C07'], 5 if q else 7, tasks=2, env={'create': ('ok',), 'recycle': ('ok',)}, ctl=('resize', 'retain'), resize_targets=(0, 1, 3), max_ctl=2, cancel=False, lifo=True))
        J.append(mfam('thread level: return / take racing resize', ['C07'], 10 if q else 14, tasks=2, env={'create': ('ok',), 'recycle': ('ok',)}, ctl=('resize',), resize_targets=(1,), max_ctl=1,
                      thread_mode=True, prefix=(('get', 'T1', 0), ('get', 'T2', 0)), cancel=False, lifo=False, max_gets=1, probe=True))
    elif pid == 'C09':
        E = {'create': OE, 'recycle': OE}
        J.append(mfam('2 tasks + retain (any subset), take', ['C09'], 6 if q else 8, tasks=2, env={'create': ('ok',), 'recycle': OE}, ctl=('retain',), max_ctl=2, cancel=False))
        J.append(mfam('2 tasks + retain while a get() is suspended in create / recycle', ['C09'], 5 if q else 7, tasks=2, env={'create': ('ok', 'pending'), 'recycle': ('ok', 'pending')}, ctl=('retain',), max_ctl=1,
                      cancel=False, take=False, probe=False))
        J.append(mfam('task level: close / resize while a get() is suspended in create / recycle', ['C09'], 5 if q else 7, tasks=2, env={'create': ('ok', 'pending'), 'recycle': ('ok', 'pending')},
                      ctl=('close', 'resize', 'status'), resize_targets=(0, 1), max_ctl=2, probe=False, take=False, cancel=False))
        J.append(mfam('3 tasks + retain, capacity probe', ['C09'], 5 if q else 7, tasks=3, env={'create': ('ok',), 'recycle': ('ok',)}, ctl=('retain',), max_ctl=1, cancel=False, lifo=False))
        J.append(mfam('2 tasks + retain/resize/close: detach exactly once', ['C09'], 5 if q else 7, tasks=2, env=E, ctl=('retain', 'resize', 'close'), resize_targets=(0, 1), max_ctl=2, probe=False))
        J.append(mfam('2 tasks, hooks reject, cancel: detach exactly once', ['C09'], 5 if q else 7, tasks=2, hooks=H3, env={'create': OEP, 'recycle': OEP, 'hook': OEP}, probe=False))
        J.append(mfam('2 tasks + repeated retain (stateful predicates)', ['C09', 'C11'], 5 if q else 7, tasks=2, env={'create': ('ok',), 'recycle': ('ok',), 'pred': ('keep', 'remove')}, ctl=('retain',), max_ctl=3, cancel=False, take=False, probe=False, lifo=False))
        J.append(mfam('2 tasks + resize, take/return of surplus objects, capacity probe', ['C09'], 5 if q else 7, tasks=2, env={'create': ('ok',), 'recycle': ('ok',)}, ctl=('resize',), resize_targets=(1, 2), max_ctl=1, cancel=False, lifo=False))
        J.append(mfam('thread level: retain racing get / take / return (window between status() and the lock), capacity probe', ['C09'], 10 if q else 14, tasks=2, env={'create': ('ok',), 'recycle': ('ok',)},
                      thread_mode=True, prefix=(('get', 'T1', 0),), ctl=('retain',), max_ctl=1, cancel=False, lifo=False, max_gets=1, max_size_concrete=2, probe=True, probe_rounds=2))
        J.append(mfam('thread level: take racing get and return (full pool)', ['C09', 'C02', 'C01'], 12 if q else 16, tasks=3, env={'create': ('ok',), 'recycle': ('ok',)},
                      thread_mode=True, prefix=(('get', 'T1', 0), ('get', 'T2', 0)), cancel=False, lifo=False, max_gets=1, max_size_bound=2))
    elif pid == 'C10':
        E = {'create': OEPS, 'recycle': OEPS, 'hook': OEPS}
        TV = [None, ('zero', None, None), ('pos', None, None), (None, 'pos', None), (None, None, 'pos'), (None, 'zero', 'zero')]
        J.append(mfam('2 tasks, per-call timeouts x deadline orderings', ['C10', 'C04', 'C03'], 4 if q else 6, tasks=2, env={'create': OEPS, 'recycle': OEPS}, timeout_variants=TV, take=False, cancel=False, probe=False, lifo=False))
        J.append(mfam('1 task, per-call timeouts, hooks async', ['C10', 'C04', 'C03'], 5 if q else 8, tasks=1, hooks=H3A, env=E, timeout_variants=TV, take=False, probe=False, lifo=False))
        J.append(mfam('2 tasks, pool-level timeouts (pos,pos,pos)', ['C10', 'C04', 'C03'], 5 if q else 7, tasks=2, env={'create': OEPS, 'recycle': OEPS}, pool_timeouts=('pos', 'pos', 'pos'), take=False, probe=False, lifo=False))
        J.append(mfam('2 tasks, pool-level timeouts (pos,pos,pos) with per-call timeouts that leave fields None: only the per-call values govern timeout_get()', ['C10', 'C04'], 4 if q else 6, tasks=2,
                      env={'create': ('ok', 'stuck'), 'recycle': ('ok', 'stuck')}, pool_timeouts=('pos', 'pos', 'pos'), timeout_variants=[None, (None, None, None), (None, 'pos', None)] if q else [None, (None, None, None), ('zero', None, None), (None, 'pos', None)],
                      take=False, probe=False, lifo=False))
        J.append(mfam('2 tasks, pool-level zero wait', ['C10'], 5 if q else 7, tasks=2, env={'create': OEP, 'recycle': OEP}, pool_timeouts=('zero', None, None), take=False, probe=False, lifo=False))
        TG = [('timeout_get', 'zero'), ('timeout_get', 'pos'), ('timeout_get', None), 'get', 'try_get']
        for rt_ in (True, False):
            # 'sub': a positive timeout below one second with symbolic nanoseconds (per call and configured)
            J.append(ufam(f'unmanaged pool: sub-second timeouts (symbolic nanoseconds), runtime {"present" if rt_ else "absent"}', ['C10'], 4 if q else 6, tasks=2, ctor='from_config',
                          config_timeout='sub', runtime=rt_, get_variants=[('timeout_get', 'sub'), 'get', ('timeout_get', 'zero')], add_variants=['try_add'], max_adds=1, take=False))
            for ct in (None, 'pos'):
                J.append(ufam(f'unmanaged pool: timeout_get / get / try_get, runtime {"present" if rt_ else "absent"}, configured timeout {ct}', ['C10'], 5 if q else 7, tasks=2, ctor='from_config',
                              config_timeout=ct, runtime=rt_, get_variants=TG, add_variants=['try_add'], max_adds=2, take=False))
        J.append(mfam('no runtime: per-call timeouts', ['C10'], 5 if q else 7, tasks=2, env={'create': OE, 'recycle': OE}, runtime=False, timeout_variants=TV, take=False, cancel=False, probe=False, lifo=False))
        for pt in (('pos', None, None), (None, 'zero', None), (None, None, 'pos'), (None, None, None), ('zero', None, None)):
            J.append(mfam(f'no runtime: build() with configured timeouts {pt}', ['C10'], 2, tasks=1, env={'create': OE, 'recycle': OE}, runtime=False, pool_timeouts=pt, take=False, cancel=False, probe=False, lifo=False))
    elif pid == 'C05':
        GV = ['get', 'try_get', 'remove', 'try_remove']
        J.append(ufam('new(): 2 tasks, get/try_get/remove/try_remove x add/try_add, take, cancel', ['C05'], 5 if q else 7, tasks=2, get_variants=GV, add_variants=['add', 'try_add'], ctl=('status',)))
        J.append(ufam('from(Vec) with 2 objects: 3 tasks', ['C05'], 5 if q else 7, tasks=3, ctor='from_vec', initial=2, get_variants=['get', 'try_get'], add_variants=['try_add'], max_adds=1))
        J.append(ufam('from_config: 2 tasks, timeout_get variants', ['C05'], 5 if q else 7, tasks=2, ctor='from_config', config_timeout='pos',
                      get_variants=['get', ('timeout_get', 'zero'), ('timeout_get', 'pos'), ('timeout_get', None)], add_variants=['try_add', 'add']))
        J.append(ufam('new(): 3 tasks, waiting adders and getters', ['C05'], 5 if q else 7, tasks=3, get_variants=['get', 'remove'], add_variants=['add'], take=True))
        J.append(ufam('new(): 2 tasks, an Object is returned while its holder unwinds from a panic', ['C05'], 5 if q else 7, tasks=2, get_variants=['try_get', 'get'], add_variants=['try_add'], unwinding_drop=True,
                      take=False, cancel=False, ctl=('status',)))
        J.append(ufam('thread level: get/return/take/add interleaved at the schedule points', ['C05'], 12 if q else 16, tasks=2, thread_mode=True, ctor='from_vec', initial=1,
                      get_variants=['try_get', 'get'], add_variants=['try_add'], max_adds=1, cancel=False))
    elif pid == 'C12':
        GV = ['get', 'try_get', 'remove', 'try_remove', ('timeout_get', 'zero')]
        J.append(ufam('task level: close at any point, 2 tasks, all calls', ['C12'], 5 if q else 7, tasks=2, get_variants=GV, add_variants=['add', 'try_add'], ctl=('close', 'status'), max_ctl=2))
        J.append(ufam('task level: from(Vec) 2 objects, close, returns after close', ['C12'], 6 if q else 8, tasks=2, ctor='from_vec', initial=2, get_variants=['get', 'try_get'], add_variants=['try_add'], max_adds=1, ctl=('close',)))
        J.append(ufam('thread level: try_get / get racing close', ['C12'], 12 if q else 16, tasks=2, thread_mode=True, ctor='from_vec', initial=1, get_variants=['try_get', 'get'], add_variants=['try_add'], max_adds=0, ctl=('close',), cancel=False, take=False))
        J.append(ufam('thread level: two close() calls racing (controller and a task thread), try_add / try_get afterwards', ['C12'], 12 if q else 16, tasks=2, thread_mode=True, ctor='from_vec', initial=1,
                      get_variants=['try_get'], add_variants=['try_add'], max_adds=1, max_gets=1, ctl=('close',), max_ctl=1, task_roles={'T1': ('close',), 'T2': ('add', 'get', 'drop')}, cancel=False, take=False))
        J.append(ufam('thread level: add / try_add racing close', ['C12'], 12 if q else 16, tasks=2, thread_mode=True, get_variants=['try_get'], add_variants=['try_add', 'add'], max_adds=2, ctl=('close',), cancel=False, take=False, max_gets=0))
        J.append(ufam('thread level: return / take racing close', ['C12'], 12 if q else 16, tasks=2, thread_mode=True, ctor='from_vec', initial=2, prefix=(('uget', 'T1', 0), ('uget', 'T2', 0)),
                      get_variants=['try_get'], add_variants=['try_add'], max_adds=0, ctl=('close',), cancel=False))
    elif pid == 'C14':
        C = ['deadpool_runtime', 'deadpool_sync']
        ni = 3 if q else 4
        J.append({'name': f'one wrapper: up to {ni} interacts (ok / panic), cancel, drop at any time, any blocking-pool order', 'kind': 'sync_bse',
                  'cfg': {'max_interacts': ni, 'depth': 14 if q else 24}, 'crates': C})
        J.append({'name': f'closures that take time: up to {ni - 1} interacts, cancel / drop / further interacts while a closure is running', 'kind': 'sync_bse',
                  'cfg': {'max_interacts': ni - 1, 'depth': 12 if q else 22, 'split': True}, 'crates': C})
        J.append({'name': 'creation closure fails', 'kind': 'sync_bse', 'cfg': {'create': 'err', 'max_interacts': 0, 'depth': 4}, 'crates': C})
    elif pid == 'C15':
        for mgr, crate in (('sqlite', 'deadpool_sqlite'), ('r2d2', 'deadpool_r2d2'), ('diesel', 'deadpool_diesel')):
            C = ['deadpool', 'deadpool_runtime', 'deadpool_sync', crate]
            backends = {'sqlite': [{}, {'query_row': 'wrong'}, {'query_row': 'err'}],
                        'r2d2': [{}, {'has_broken': True}, {'is_valid': 'err'}, {'has_broken': True, 'is_valid': 'err'}],
                        'diesel': [{}, {'broken_tx': True}, {'execute': 'err'}, {'custom': 'err'}]}[mgr]
            methods = ['Fast', 'Verified', 'CustomQuery', 'CustomFunction'] if mgr == 'diesel' else ['-']
            pres = [(), ('interact_ok',), ('interact_panic',), ('cancelled_panic_queued',), ('cancelled_ok_queued',), ('interact_ok', 'cancelled_panic_queued')]
            if not q: pres += [('interact_ok', 'interact_ok'), ('interact_ok', 'interact_panic'), ('interact_panic', 'interact_ok'), ('cancelled_ok_queued', 'cancelled_panic_queued'),
                               ('cancelled_ok_queued', 'interact_ok'), ('interact_ok', 'cancelled_ok_queued')]
            for pre in pres:
                for b in backends:
                    for meth in methods:
                        J.append({'name': f'{mgr} recycle: history {list(pre) or "fresh"}, backend {b or "healthy"}' + (f', method {meth}' if mgr == 'diesel' else ''),
                                  'kind': 'recycle_bse', 'cfg': {'manager': mgr, 'prefix': pre, 'backend': b, 'method': meth if mgr == 'diesel' else 'Fast', 'depth': 10}, 'crates': C})
            for pre in (('cancelled_ok_running',), ('cancelled_panic_running',)):
                for b in backends:
                    for meth in methods[:2]:
                        J.append({'name': f'{mgr} recycle while the closure of a cancelled interaction is still running: {pre[0]}, backend {b or "healthy"}' + (f', method {meth}' if mgr == 'diesel' else ''),
                                  'kind': 'recycle_bse', 'cfg': {'manager': mgr, 'prefix': pre, 'backend': b, 'method': meth if mgr == 'diesel' else 'Fast', 'depth': 10, 'split': True}, 'crates': C})
    elif pid == 'C16':
        n = 4 if q else 8
        for i in range(n):
            J.append({'name': f'recycle methods, statement cache sequences, registry fates (shard {i + 1}/{n})', 'kind': 'pgmanager', 'cfg': {'shard': (i, n)}, 'crates': ['deadpool', 'deadpool_postgres']})
    elif pid == 'C17':
        J.append({'name': 'recycle() of the standalone, sentinel and cluster managers: commands sent, echo check, freshness over 2-3 recycles', 'kind': 'redisrecycle', 'cfg': {}, 'crates': ['deadpool', 'deadpool_redis']})
    elif pid == 'C19':
        J.append({'name': 'redis / cluster / sentinel builder(), Default impls and From conversions', 'kind': 'redisconfig', 'cfg': {}, 'crates': ['deadpool', 'deadpool_redis']})
        J.append({'name': 'serde round trip of PoolConfig / Timeouts / QueueMode and defaults of omitted sections (Kani harnesses on the derived impls, one per document shape)',
                  'kind': 'kani_serde', 'cfg': {}, 'crates': ['deadpool']})
    elif pid == 'C18':
        n = 4 if q else 8
        for i in range(n):
            J.append({'name': f'get_pg_config obligations, shard {i + 1}/{n}', 'kind': 'pgconfig', 'cfg': {'shard': (i, n)}, 'crates': ['deadpool_postgres']})
        J.append({'name': 'create_pool / builder: pool and manager sections, runtime, timeouts without a runtime', 'kind': 'pgconfig', 'cfg': {'part': 'create_pool'}, 'crates': ['deadpool', 'deadpool_postgres']})
    elif pid == 'C08':
        J.append(mfam('1 task... 3 tasks returning in any order, fifo+lifo, rejects', ['C08'], 6 if q else 8, tasks=3, env={'create': ('ok',), 'recycle': OE}, cancel=False, probe=False))
        J.append(mfam('2 tasks + retain, fifo+lifo', ['C08'], 6 if q else 8, tasks=2, env={'create': ('ok',), 'recycle': OE}, ctl=('retain',), cancel=False, probe=False))
        J.append(mfam('2 tasks, 3 hooks, ok/err', ['C08'], 5 if q else 7, tasks=2, hooks=H3, env={'create': OE, 'recycle': OE, 'hook': OE}, probe=False))
        J.append(mfam('2 tasks + resize/close: user code only inside operations', ['C08'], 5 if q else 7, tasks=2, env={'create': OE, 'recycle': OE}, ctl=('resize', 'close', 'status'), probe=False))
        J.append(mfam('2 tasks: an object returned while another get() is suspended in a recycle that is then rejected', ['C08'], 6 if q else 8, tasks=2, max_size_concrete=2,
                      env={'create': ('ok',), 'recycle': ('ok', 'err', 'pending')}, cancel=False, take=False, probe=False))
        J.append(mfam('the last pool handle is dropped with idle objects and objects out (with and without close): the manager is not called from there', ['C08'], 5 if q else 6, tasks=2, max_size_concrete=2,
                      prefix=(('get', 'T1', 0), ('get', 'T2', 0), ('drop', 'T1', 0)), env={'create': ('ok',), 'recycle': ('ok',)}, ctl=('close', 'drop_pool'), max_ctl=2, max_gets=2, cancel=False, probe=False, lifo=False))
        P3 = (('get', 'T1', 0), ('get', 'T2', 0), ('get', 'T3', 0))
        J.append(mfam('3 objects out, returned in any order, then gets with rejects (max_size 3)', ['C08'], 7 if q else 9, tasks=3, max_size_concrete=3, prefix=P3,
                      env={'create': ('ok',), 'recycle': OE}, cancel=False, take=False, probe=False))
        J.append(mfam('3 objects out, returned in any order, retain, then gets (max_size 3)', ['C08'], 7 if q else 9, tasks=3, max_size_concrete=3, prefix=P3,
                      env={'create': ('ok',), 'recycle': ('ok',)}, ctl=('retain',), max_ctl=1, cancel=False, take=False, probe=False))
        J.append(mfam('idle objects that survive a shrink / grow keep their order (max_size 3)', ['C08'], 7 if q else 9, tasks=3, max_size_concrete=3, prefix=P3,
                      env={'create': ('ok',), 'recycle': ('ok',)}, ctl=('resize',), resize_targets=(2, 4), max_ctl=1, cancel=False, take=False, probe=False))
        J.append(mfam('thread level: non-blocking get racing retain with 2 idle objects (lock contention: callbacks under the lock are schedule points iff the crate probes locks): idle order, creation only without idle objects (max_size 3)',
                      ['C08'], 14 if q else 18, tasks=2, max_size_concrete=3, prefix=(('get', 'T1', 0), ('get', 'T2', 0), ('drop', 'T1', 0), ('drop', 'T2', 0)), env={'create': ('ok',), 'recycle': ('ok',)},
                      thread_mode=True, timeout_variants=[('zero', None, None)], ctl=('retain',), max_ctl=1, cancel=False, take=False, max_gets=2, probe=False))
        P2 = (('get', 'T1', 0), ('get', 'T1', 0), ('get', 'T2', 0), ('drop', 'T1', 0), ('drop', 'T1', 0))
        J.append(mfam('thread level: return / get racing a shrink (detach as schedule point): idle order, creation only without idle objects (max_size 3)', ['C08'], 12 if q else 16, tasks=2, max_size_concrete=3, prefix=P2,
                      env={'create': ('ok',), 'recycle': ('ok',)}, thread_mode=True, ctl=('resize',), resize_targets=(2,), max_ctl=1, cancel=False, take=False, max_gets=3, lifo=False, probe=False))
    elif pid == 'C11':
        J.append(mfam('2 tasks, ok/err/pending/panic', ['C11'], 5 if q else 7, tasks=2, env={'create': OEPP, 'recycle': OEPP}, probe=False))
        J.append(mfam('3 tasks, ok/err', ['C11'], 5 if q else 7, tasks=3, env={'create': OE, 'recycle': OE}, probe=False))
        J.append(mfam('2 tasks, 3 hooks, ok/err/panic', ['C11'], 5 if q else 7, tasks=2, hooks=H3, env={'create': OE, 'recycle': OE, 'hook': ('ok', 'err', 'panic')}, probe=False))
        J.append(mfam('2 tasks + retain/resize/close', ['C11'], 5 if q else 7, tasks=2, env={'create': OE, 'recycle': OE}, ctl=('retain', 'resize', 'close'), probe=False))
        J.append(mfam('task level: close / resize while a get() is suspended in create / recycle', ['C11'], 5 if q else 7, tasks=2, env={'create': ('ok', 'pending'), 'recycle': ('ok', 'pending')},
                      ctl=('close', 'resize', 'status'), resize_targets=(0, 1), max_ctl=2, probe=False, take=False, cancel=False))
        J.append(mfam('thread level: surplus object returned after a shrink / close while status() is read (Manager::detach as schedule point)', ['C11'], 10 if q else 14, tasks=2, max_size_concrete=2,
                      env={'create': ('ok',), 'recycle': ('ok',)}, thread_mode=True, prefix=(('get', 'T1', 0), ('get', 'T2', 0)), ctl=('resize', 'close'), resize_targets=(0, 1), max_ctl=1,
                      cancel=False, take=False, lifo=False, max_gets=1, probe=False))
        J.append(mfam('thread level: retain racing get / take / return (window between status() and the lock)', ['C11'], 10 if q else 14, tasks=2, env={'create': ('ok',), 'recycle': ('ok',)},
                      thread_mode=True, prefix=(('get', 'T1', 0),), ctl=('retain',), max_ctl=1, cancel=False, lifo=False, max_gets=1, max_size_concrete=2, probe=False))
        J.append(mfam('2 tasks, release profile (wrapping counters)', ['C11'], 5 if q else 7, tasks=2, env={'create': OEPP, 'recycle': OEPP}, probe=False, overflow='wrap'))
    elif pid == 'C13':
        J.append(mfam('1 task, 3 hooks, ok/err/pending, long histories', ['C13'], 7 if q else 10, tasks=1, hooks=H3, env={'create': OE, 'recycle': OEP, 'hook': OEP}, take=False, probe=False))
        J.append(mfam('2 tasks, 3 hooks async, ok/err', ['C13'], 5 if q else 7, tasks=2, hooks=H3A, env={'create': OE, 'recycle': OE, 'hook': OE}, take=False, probe=False))
        J.append(mfam('2 tasks + retain sees reported metrics', ['C13'], 6 if q else 8, tasks=2, env={'create': ('ok',), 'recycle': OE}, ctl=('retain',), cancel=False, take=False, probe=False))
        J.append(mfam('3 tasks, a waiter served late (lifo): the last-recycled instant never moves backwards', ['C13'], 7 if q else 9, tasks=3, max_size_concrete=2, lifo=True, prefix=(('get', 'T1', 0), ('get', 'T3', 0)),
                      env={'create': ('ok',), 'recycle': ('ok',)}, cancel=False, take=False, probe=False))
        J.append(mfam('3 tasks, a waiter served late (fifo)', ['C13'], 9 if q else 11, tasks=3, max_size_concrete=2, lifo=False, prefix=(('get', 'T1', 0), ('get', 'T3', 0)),
                      env={'create': ('ok',), 'recycle': ('ok',)}, cancel=False, take=False, probe=False))
        J.append(mfam('1 task, recycle timeouts / cancellations', ['C13'], 6 if q else 9, tasks=1, hooks=(('pre_recycle', 'async'), ('post_recycle', 'async')), env={'create': ('ok',), 'recycle': OEPS, 'hook': OEPS},
                      timeout_variants=[None, (None, None, 'pos')], take=False, probe=False))
    else:
        raise KeyError(pid)
    if pid == 'C12':
        U = dict(thread_mode=True, fine=True, cancel=False)
        J.append(ufam('fine interleaving: return / take racing close (1 object out)', ['C12'], 60 if q else 80, tasks=1, ctor='from_vec', initial=1, prefix=(('uget', 'T1', 0),), get_variants=['try_get'], add_variants=[], max_adds=0, ctl=('close',), **U))
        J.append(ufam('fine interleaving: try_get / get racing close', ['C12'], 60 if q else 80, tasks=1, ctor='from_vec', initial=1, get_variants=['try_get', 'get'], add_variants=[], max_adds=0, ctl=('close',), take=False, **U))
        J.append(ufam('fine interleaving: try_add / add racing close', ['C12'], 60 if q else 80, tasks=1, get_variants=['try_get'], add_variants=['try_add', 'add'], max_adds=1, ctl=('close',), take=False, **U))
    if pid == 'C05':
        J.append(ufam('fine interleaving: two try_add / add racing on an empty pool (counters)', ['C05'], 34 if q else 40, tasks=2, ctor='new', get_variants=['try_get'], add_variants=['try_add'], max_adds=2, max_adds_task=1, max_gets=0,
                      thread_mode=True, fine=True, cancel=False, take=False))
        J.append(ufam('fine interleaving: try_add racing try_get on an empty pool (permit and object published in two steps)', ['C05'], 40 if q else 50, tasks=2, ctor='new', max_size_concrete=1,
                      get_variants=['try_get'], add_variants=['try_add'], max_adds=1, max_gets=2, thread_mode=True, fine=True, cancel=False, take=False, task_roles={'T1': ('add',), 'T2': ('get', 'drop')}))
        J.append(ufam('fine interleaving: try_add racing take (counters)', ['C05'], 34 if q else 40, tasks=2, ctor='from_vec', initial=1, prefix=(('uget', 'T1', 0),), get_variants=['try_get'], add_variants=['try_add'], max_adds=1, max_gets=1,
                      thread_mode=True, fine=True, cancel=False, task_roles={'T1': ('take',), 'T2': ('add',)}))
        J.append(ufam('fine interleaving: try_get / return / take / try_add by 2 threads', ['C05'], 14 if q else 18, tasks=2, ctor='from_vec', initial=1, get_variants=['try_get'], add_variants=['try_add'], max_adds=1,
                      thread_mode=True, fine=True, cancel=False))
    if pid == 'C06':
        M_ = dict(thread_mode=True, fine=True, cancel=False, lifo=False, probe=False, env={'create': ('ok',), 'recycle': ('ok',)})
        J.append(mfam('fine interleaving: return / take racing close (1 object out)', ['C06'], 26 if q else 34, tasks=1, prefix=(('get', 'T1', 0),), ctl=('close',), max_ctl=1, max_gets=1, **M_))
        J.append(mfam('fine interleaving: get racing close', ['C06'], 40 if q else 60, tasks=1, ctl=('close',), max_ctl=1, max_gets=1, take=False, max_size_concrete=1, **M_))
    if pid in ('C01', 'C02'):
        J.append(mfam('fine interleaving: get racing return / take (max_size 1, 2 threads)', [pid], 24 if q else 32, tasks=2, max_size_concrete=1, prefix=(('get', 'T1', 0),), max_gets=2,
                      thread_mode=True, fine=True, cancel=False, lifo=False, env={'create': ('ok',), 'recycle': ('ok',)}))
    if pid == 'C02':
        J.append(mfam('fine interleaving: return / take racing a shrink (2 objects out): no capacity is lost', ['C02'], 30 if q else 40, tasks=2, max_size_concrete=2, prefix=(('get', 'T1', 0), ('get', 'T2', 0)), max_gets=1,
                      ctl=('resize',), resize_targets=(1,), max_ctl=1, thread_mode=True, fine=True, cancel=False, lifo=False, env={'create': ('ok',), 'recycle': ('ok',)}))
    if pid == 'C07':
        J.append({'name': 'two resize() calls on two threads are linearizable (fine interleaving vs both serial orders, 1 object out)', 'kind': 'resize_linear',
                  'cfg': {'max_size': 2, 'first': 3, 'seconds': (0, 1), 'depth': 60 if q else 80}, 'crates': ['deadpool', 'deadpool_runtime']})
        J.append(mfam('a waiter holds an assigned permit across a shrink and a grow (max_size 1)', ['C07'], 6 if q else 8, tasks=2, max_size_concrete=1, prefix=(('get', 'T1', 0), ('get', 'T2', 0)),
                      env={'create': ('ok',), 'recycle': ('ok',)}, ctl=('resize',), resize_targets=(0, 1), max_ctl=2, cancel=False, take=False, lifo=False))
        J.append(mfam('fine interleaving: return / take racing a shrink (2 objects out)', ['C07'], 30 if q else 40, tasks=2, max_size_concrete=2, prefix=(('get', 'T1', 0), ('get', 'T2', 0)), max_gets=1,
                      ctl=('resize',), resize_targets=(1,), max_ctl=1, thread_mode=True, fine=True, cancel=False, lifo=False, env={'create': ('ok',), 'recycle': ('ok',)}))
    if pid in ('C01', 'C02', 'C09', 'C11'):
        # inductive step from an arbitrary rest state: sequential histories of any length, any 64-bit max_size
        for hk, nm in (((), 'no hooks'), (H3, '3 hooks')):
            for lifo in (False, True):
                J.append({'name': f'inductive step from an arbitrary state ({nm}, {"lifo" if lifo else "fifo"}): get / return / take / retain / status', 'kind': 'induct',
                          'cfg': {'property': pid, 'hooks': hk, 'lifo': lifo, 'kmax': 3 if q else 4}, 'crates': ['deadpool', 'deadpool_runtime']})
    if pid in ALL_M:
        nv = 2 if q else 8
        for k in range(nv): J.append(vfam(25 if q else 60, k * 1000))
    if pid in ALL_U or pid == 'C10':
        for k in range(2 if q else 8): J.append({'name': f'translation validation, unmanaged ({40 if q else 100} traces, offset {k * 1000})', 'kind': 'validate_unmanaged',
                                                 'cfg': {'traces': 40 if q else 100, 'offset': k * 1000}, 'crates': ['deadpool', 'deadpool_runtime']})
    for i, j in enumerate(J):
        j['seed'] = seed; j['tier'] = tier; j['pid'] = pid; j['budget'] = int(os.environ['VERIF_BUDGET_S']) if os.environ.get('VERIF_BUDGET_S') else (150 if q else 900)
    return J


def run_resize_linear(prog, job):
    """C07, "after any sequence of shrinks and grows the capacity is exactly the last value": with two resize() calls racing on two
    threads `last` is whichever takes the slots lock last, so the outcome of every fine-grained interleaving must equal the
    outcome of one of the two serial orders (resize is atomic in effect).  Both sides run the real MIR, so the known findings
    about resize show up on both sides and cancel out."""
    from .core import I
    c = job['cfg']; vios = []; nst = 0; ntr = 0; t0 = time.time()
    def world(fine):
        cfg = dict(oracles=(), depth=c['depth'], tasks=2, max_size_concrete=c['max_size'], prefix=(('get', 'T1', 0),), max_gets=1, lifo=False, probe=False, cancel=False, take=False,
                   env={'create': ('ok',), 'recycle': ('ok',)}, thread_mode=fine, fine=fine, ctl=('resize',), resize_targets=(c['first'],), max_ctl=1)
        return w_managed.ManagedBSE(prog, cfg)
    def summary(B, st):
        status, snap = B.observe(st)
        r = B.capacity_probe(st, I(10 ** 6), 'C07')          # the probe reports how many objects it obtained
        got = r[0].get('got') if r else None
        return (status[0] if status else None, got)
    for second in c['seconds']:
        # serial orders, each resize atomic
        serial = set()
        for order in ((('resize', c['first']), ('resize', second, 'T2')), (('resize', second, 'T2'), ('resize', c['first']))):
            B = world(False); cur = B.init_states()
            for a in order: cur = [y for x in cur for y in B.apply(x, a)]
            for x in cur: serial.add(summary(B, x))
        # every interleaving at the granularity of accesses to shared state
        B = world(True); seen = set(); work = list(B.init_states()); finals = {}
        while work:
            x = work.pop(); nst += 1
            if time.time() - t0 > job['budget'] * 3: break
            acts = [a for a in B.actions(x) if a[0] == 'step' or a == ('resize', c['first'])]
            if not x.threads['T2'].stack and not x.threads['T2'].local.get('tctl'): acts.append(('resize', second, 'T2'))
            done = x.threads['C'].local['nctl'] >= 1 and x.threads['T2'].local.get('tctl') and not x.threads['C'].stack and not x.threads['T2'].stack
            if done:
                sm = summary(B, x); finals.setdefault(sm, x); continue
            for a in acts:
                for y in B.apply(x, a):
                    ntr += 1; k = B.key(y)
                    if k in seen: continue
                    seen.add(k); work.append(y)
        for sm, x in finals.items():
            if sm not in serial:
                vios.append({'property': 'C07', 'what': f'resize({c["first"]}) racing resize({second}) ends with (max_size, objects obtainable) = {sm}; the two serial orders give {sorted(serial, key=str)}: the interleaving is not equivalent to any order of the two calls',
                             'model': {}, 'trace': [list(map(str, e)) for e in x.log if e[0] in ('init', 'act', 'env')], 'cfg': _jsonable(dict(B.cfg)), 'crates': job['crates'], 'family': job['name'], 'kind': 'managed'})
    S = B.M.stats
    return {'states': nst, 'transitions': ntr, 'violations': vios, 'samples': [], 'complete': True, 'queries': S.queries, 'sat': S.sat, 'unsat': S.unsat,
            'solver_s': round(S.solver_s, 3), 'cache_hits': S.cache_hits, 'blocks': S.blocks, 'functions': dict(S.fns), 'models': dict(S.models), 'dump_s': prog.dump_s,
            'bounds': {'max_size': c['max_size'], 'objects_out': 1, 'resizes': [c['first'], list(c['seconds'])], 'granularity': 'preemption before every access to shared state'},
            'summary': f'{nst} states, {ntr} transitions, {len(vios)} violation(s)'}


def run(job):
    prog = dump.load_cached(job['mir_cache'], job['crates'])
    if job['kind'] == 'managed_bse':
        cfg = job['cfg']
        B = w_managed.ManagedBSE(prog, cfg)
        if cfg.get('overflow'): B.M.overflow_mode = cfg['overflow']
        init = B.init_states()
        R = explore.bfs(B, init, cfg['depth'], time_budget=job['budget'], seed=job['seed'], stop_on_violation=False, focus=job.get('pid'))
        S = B.M.stats
        vios = []
        for v, st in R.violations:
            d = dict(v); d['trace'] = [list(map(str, e)) for e in st.log if e[0] in ('init', 'act', 'env')]
            d['pc'] = [c.sexpr() for c in st.pc]; d['family'] = job['name']; d['cfg'] = _jsonable(cfg); d['crates'] = job['crates']
            if 'probe_log' in d:
                d['cfg']['timeout_variants'] = list(d['cfg'].get('timeout_variants') or [None]) + [['zero', None, None]]
            vios.append(d)
        return {
            'states': R.states, 'transitions': R.transitions, 'merged': R.merged, 'max_depth': R.max_depth, 'complete': R.complete,
            'truncated': R.truncated if not R.complete else 0, 'violations': vios, 'samples': R.samples[:3],
            'queries': S.queries, 'sat': S.sat, 'unsat': S.unsat, 'solver_s': round(S.solver_s, 3), 'cache_hits': S.cache_hits,
            'blocks': S.blocks, 'functions': dict(S.fns), 'models': dict(S.models), 'probes': B.nprobes,
            'dump_s': prog.dump_s, 'suspension_points': len(B.susp),
            'bounds': {'tasks': cfg.get('tasks', 2), 'depth': cfg['depth'], 'max_size': '0..=%d (symbolic)' % B.cfg['max_size_bound'],
                       'outcomes': _jsonable(B.cfg['env']), 'hooks': _jsonable(B.cfg['hooks']), 'controller': _jsonable(B.cfg['ctl']),
                       'queue_modes': 'fifo+lifo' if B.cfg['lifo'] is None else ('lifo' if B.cfg['lifo'] else 'fifo'),
                       'mode': 'thread' if B.cfg['thread_mode'] else 'task', 'time_budget_s': job['budget']},
            'summary': f'{R.states} states, {R.transitions} transitions, depth {R.max_depth}{"" if R.complete else (" (memory bound reached)" if getattr(R, "mem_bound", False) else " (budget reached)")}, {len(vios)} violation(s)',
        }
    if job['kind'] in ('sync_bse', 'recycle_bse'):
        from . import w_sync
        cfg = job['cfg']
        B = w_sync.SyncBSE(prog, cfg) if job['kind'] == 'sync_bse' else w_sync.RecycleBSE(prog, cfg)
        init = B.init_states()
        R = explore.bfs(B, init, B.cfg['depth'], time_budget=job['budget'], seed=job['seed'], stop_on_violation=False, focus=job.get('pid'))
        S = B.M.stats; vios = []
        for v, st in R.violations:
            d = dict(v); d['trace'] = [list(map(str, e)) for e in st.log if e[0] in ('init', 'act')]; d['family'] = job['name']
            d['cfg'] = _jsonable(cfg); d['crates'] = job['crates']; d['kind'] = 'sync'
            vios.append(d)
        return {'states': R.states, 'transitions': R.transitions, 'merged': R.merged, 'max_depth': R.max_depth, 'complete': R.complete and not R.truncated,
                'truncated': R.truncated, 'violations': vios, 'samples': R.samples[:2],
                'queries': S.queries, 'sat': S.sat, 'unsat': S.unsat, 'solver_s': round(S.solver_s, 3), 'cache_hits': S.cache_hits, 'blocks': S.blocks,
                'functions': dict(S.fns), 'models': dict(S.models), 'dump_s': prog.dump_s,
                'bounds': {'depth': B.cfg['depth'], 'interacts': B.cfg.get('max_interacts'), 'blocking_pool': 'tasks run atomically in any order', **{k: _jsonable(v) for k, v in cfg.items() if k in ('manager', 'prefix', 'backend', 'method')}},
                'summary': f'{R.states} states, {R.transitions} transitions, depth {R.max_depth}, {len(vios)} violation(s)'}
    if job['kind'] == 'resize_linear':
        return run_resize_linear(prog, job)
    if job['kind'] == 'induct':
        from . import w_induct
        return w_induct.run_induct(prog, job)
    if job['kind'] == 'pgmanager':
        from . import w_pg
        return w_pg.run_c16(prog, job)
    if job['kind'] == 'redisrecycle':
        from . import w_redis
        return w_redis.run_c17(prog, job)
    if job['kind'] == 'redisconfig':
        from . import w_redisconfig
        return w_redisconfig.run_c19(prog, job)
    if job['kind'] == 'kani_serde':
        from . import w_serde
        return w_serde.run_serde(prog, job)
    if job['kind'] == 'pgconfig':
        from . import w_pgconfig
        return w_pgconfig.run_c18(prog, job)
    if job['kind'] == 'validate_managed':
        return validate_managed(prog, job)
    if job['kind'] == 'validate_unmanaged':
        return validate_unmanaged(prog, job)
    if job['kind'] == 'unmanaged_bse':
        from . import w_unmanaged
        cfg = job['cfg']
        B = w_unmanaged.UnmanagedBSE(prog, cfg)
        init = B.init_states()
        R = explore.bfs(B, init, cfg['depth'], time_budget=job['budget'], seed=job['seed'], stop_on_violation=False, focus=job.get('pid'))
        S = B.M.stats
        vios = []
        for v, st in R.violations:
            d = dict(v); d['trace'] = [list(map(str, e)) for e in st.log if e[0] in ('init', 'act', 'env')]
            d['pc'] = [c.sexpr() for c in st.pc]; d['family'] = job['name']; d['cfg'] = _jsonable(cfg); d['crates'] = job['crates']; d['kind'] = 'unmanaged'
            vios.append(d)
        return {
            'states': R.states, 'transitions': R.transitions, 'merged': R.merged, 'max_depth': R.max_depth, 'complete': R.complete,
            'truncated': R.truncated if not R.complete else 0, 'violations': vios, 'samples': R.samples[:3],
            'queries': S.queries, 'sat': S.sat, 'unsat': S.unsat, 'solver_s': round(S.solver_s, 3), 'cache_hits': S.cache_hits,
            'blocks': S.blocks, 'functions': dict(S.fns), 'models': dict(S.models), 'dump_s': prog.dump_s,
            'bounds': {'tasks': B.cfg['tasks'], 'depth': cfg['depth'], 'max_size': '0..=%d (symbolic)' % B.cfg['max_size_bound'], 'constructor': B.cfg['ctor'],
                       'get_variants': _jsonable(B.cfg['get_variants']), 'add_variants': _jsonable(B.cfg['add_variants']), 'controller': _jsonable(B.cfg['ctl']),
                       'mode': 'thread' if B.cfg['thread_mode'] else 'task', 'time_budget_s': job['budget']},
            'summary': f'{R.states} states, {R.transitions} transitions, depth {R.max_depth}{"" if R.complete else (" (memory bound reached)" if getattr(R, "mem_bound", False) else " (budget reached)")}, {len(vios)} violation(s)',
        }
    raise KeyError(job['kind'])


def validate_managed(prog, job):
    """translation validation: random concrete traces executed by the engine and by the real crate must agree step by step"""
    import random
    from . import replay
    n = job['cfg']['traces']; bad = []; steps = 0; samples = []
    t0 = time.time()
    for k in range(n):
        rng = random.Random(job['seed'] * 100003 + job['cfg']['offset'] + k)
        hooks = rng.choice([(), H3, H3A, H6])
        cfg = {'tasks': rng.choice([1, 2, 3]), 'env': {'create': ALLO, 'recycle': ALLO, 'hook': ALLO, 'pred': ('keep', 'remove', 'panic')},
               'hooks': hooks, 'oracles': (), 'ctl': ('status', 'retain', 'resize', 'close'), 'max_ctl': 3,
               'max_size_concrete': rng.choice([0, 1, 2, 3]), 'lifo': rng.choice([False, True]),
               'timeout_variants': [None, ('zero', None, None), ('pos', 'pos', 'pos'), (None, 'zero', 'zero')],
               'runtime': rng.choice([True, True, False])}
        B = w_managed.ManagedBSE(prog, cfg)
        st = B.init_states()[0]
        for i in range(rng.choice([6, 10, 14])):
            acts = B.actions(st)
            if not acts: break
            st = rng.choice(B.apply(st, rng.choice(acts)))
        log = [list(map(str, e)) for e in st.log if e[0] in ('init', 'act', 'env')]
        tr = replay.build_trace(_jsonable(cfg), log, {'max_size': cfg['max_size_concrete']})
        nat = replay.run_native(tr); eng, _ = replay.run_engine(prog, tr)
        d = replay.compare(nat, eng); steps += len(nat)
        if d: bad.append({'trace': log, 'diff': d})
        if k < 2: samples.append({'trace': [e for e in log if e[0] != 'env'][:12]})
        if time.time() - t0 > job['budget']: n = k + 1; break
    if bad:
        raise RuntimeError(f'translation validation failed on {len(bad)} of {n} traces: {bad[0]["diff"]} -- trace {bad[0]["trace"]}')
    return {'validated': n, 'states': 0, 'transitions': 0, 'violations': [], 'samples': samples, 'complete': True,
            'summary': f'{n} random traces ({steps} steps) agree between engine and real crate', 'dump_s': prog.dump_s,
            'bounds': {'traces': n, 'length': '6..14 actions', 'max_size': '0..=3'}}


def validate_unmanaged(prog, job):
    import random
    from . import replay, w_unmanaged
    n = job['cfg']['traces']; bad = []; steps = 0; samples = []; t0 = time.time()
    for k in range(n):
        rng = random.Random(job['seed'] * 100003 + job['cfg']['offset'] + k)
        thr = rng.choice([False, True])
        cfg = {'tasks': rng.choice([1, 2, 3]), 'oracles': (), 'ctl': ('status', 'close'), 'max_ctl': 2, 'max_size_concrete': rng.choice([0, 1, 2, 3]),
               'ctor': rng.choice(['new', 'from_config', 'from_vec']), 'initial': rng.choice([0, 1, 2]), 'runtime': (not thr) and rng.choice([True, False]),
               'config_timeout': None if thr else rng.choice([None, 'zero', 'pos']),
               'get_variants': ['get', 'try_get', 'remove', 'try_remove', ('timeout_get', 'zero'), ('timeout_get', None)] + ([] if thr else [('timeout_get', 'pos')]),
               'add_variants': ['add', 'try_add'], 'thread_mode': thr}
        if cfg['ctor'] == 'from_vec': cfg['max_size_concrete'] = cfg['initial']
        B = w_unmanaged.UnmanagedBSE(prog, cfg)
        st = rng.choice(B.init_states())
        for i in range(rng.choice([8, 14, 30] if thr else [6, 10, 14])):
            acts = B.actions(st)
            if not acts: break
            st = rng.choice(B.apply(st, rng.choice(acts)))
        log = [list(map(str, e)) for e in st.log if e[0] in ('init', 'act', 'env')]
        tr = replay.build_trace(_jsonable(cfg), log, {'max_size': cfg['max_size_concrete']}, kind='unmanaged')
        nat = replay.run_native(tr); eng, _ = replay.run_engine(prog, tr)
        d = replay.compare(nat, eng); steps += len(nat)
        if d: bad.append({'trace': log, 'diff': d})
        if k < 2: samples.append({'trace': [e for e in log if e[0] != 'env'][:12]})
        if time.time() - t0 > job['budget']: n = k + 1; break
    if bad:
        raise RuntimeError(f'translation validation (unmanaged) failed on {len(bad)} of {n} traces: {bad[0]["diff"]} -- trace {bad[0]["trace"]}')
    return {'validated': n, 'states': 0, 'transitions': 0, 'violations': [], 'samples': samples, 'complete': True,
            'summary': f'{n} random traces ({steps} steps, task and thread mode) agree between engine and real crate', 'dump_s': prog.dump_s,
            'bounds': {'traces': n, 'length': '6..30 steps', 'max_size': '0..=3'}}


def vfam(n, offset=0):
    return {'name': f'translation validation ({n} traces, offset {offset})', 'kind': 'validate_managed', 'cfg': {'traces': n, 'offset': offset}, 'crates': ['deadpool', 'deadpool_runtime']}


def _jsonable(x):
    return json.loads(json.dumps(x, default=str))
