"""C14 / C15: deadpool-sync's SyncWrapper (real MIR of sync/ and runtime/) on a model of tokio's blocking pool, and the
recycle() bodies of the sqlite / r2d2 / diesel managers linked against it."""
import re
import z3
from .mir import Unmodelled
from .core import (I, Agg, Ref, Opaque, UNINIT, UNIT, NONE, PENDING, mk_enum, some, ok, err, ready, payload, is_sym, simp, z, b_not, b_and,
                   b_or, binop, InternalError, State, Thread)
from .models import Env
from .managed import World
from .w_pgconfig import sterm, S, sref
from . import explore


class SyncEnv(Env):
    home = 'deadpool_sync'

    def __init__(s, cfg=None):
        super().__init__()
        s.cfg = {'closure': ('ok', 'panic'), 'create': ('ok', 'err'), 'backend': {}}
        s.cfg.update(cfg or {})

    def copy_types(s): return ('Runtime', 'Metrics')

    # ---- formatting is never the subject
    def call(s, M, st, th, callee, args):
        if callee.startswith(('core::fmt::rt::', 'Arguments::', 'std::fmt::Arguments', 'core::fmt::Arguments')): return s.ret(st, Opaque('fmt'))
        if re.match(r'^(std::fmt::|alloc::fmt::)?format$', callee) or callee.startswith('format::') or callee in ('std::fmt::format', 'alloc::fmt::format'):
            return s.ret(st, S(z3.String(f'formatted_{st.nroot}')))
        if callee.startswith('std::rt::begin_panic') or callee.startswith('core::panicking::panic') or callee.startswith('std::rt::panic_fmt') or callee.startswith('panic_fmt'):
            return [('panic', st, 'explicit panic! in deadpool code', 'deadpool')]
        return super().call(M, st, th, callee, args)

    def d_String(s, M, st, th, v): return True
    def d_str(s, M, st, th, v): return True

    # ---- tokio blocking pool
    def p___spawn_blocking(s, M, st, th, ci, a):
        n = st.gget('n_btask', 0) + 1; st.gset('n_btask', n)
        root = st.alloc(a[0])
        bt = dict(st.gget('btasks', {})); bt[n] = {'closure': root, 'state': 'queued', 'result': None, 'spawned_by': th.name}
        st.gset('btasks', bt)
        st.logev('spawn_blocking', n, th.name)
        if st.gget('spawn_now') and th.kind == 'async':
            # a spawn is a schedule point of the spawning thread: the pool may run the new task to completion before the spawner
            # executes its next statement (here: before the rest of the wrapper's drop glue runs)
            from .core import Thread
            st.gset('spawn_now', False)
            name = f'B{n}'; thb = Thread(name, 'blocking'); st.threads[name] = thb; thb.result = None
            clo = st.heap.pop(root); bt[n] = dict(bt[n], closure=None); st.gset('btasks', dict(bt))
            r = M.call_value(st, thb, clo, [])
            outs = []
            for x in ([st] if r is None else [x_ for x_, _ in r]):
                for y in (M.run(x, name) if x.threads[name].stack else [x]):
                    thy = y.threads[name]
                    if thy.stack: continue          # the task cannot finish in this window (inside a closure / waiting for a lock): not this schedule
                    resv = thy.result; rr = ok(resv[1]) if resv and resv[0] == 'ok' else err(Agg('JoinError', []))
                    b2 = dict(y.gget('btasks')); b2[n] = dict(b2[n], state='done', result=y.alloc(rr), panicked=not (resv and resv[0] == 'ok')); y.gset('btasks', b2)
                    y.threads.pop(name, None); y.logev('ran_inside_spawn', n)
                    outs.append(('ret', y, Agg('JoinHandle', [I(n)])))
            return outs
        return s.ret(st, Agg('JoinHandle', [I(n)]))
    p_task__spawn_blocking = p___spawn_blocking

    def poll_JoinHandle(s, M, st, th, fut, fref):
        t = st.gget('btasks')[fut.f[0].v]
        if t['state'] not in ('done',): return s.ret(st, PENDING)
        res = st.heap.pop(t['result'])
        bt = dict(st.gget('btasks')); bt[fut.f[0].v] = dict(t, state='joined', result=None); st.gset('btasks', bt)
        return s.ret(st, ready(res))

    def d_JoinHandle(s, M, st, th, v): return True     # dropping the handle does not cancel the task
    def p_JoinError__into_panic(s, M, st, th, ci, a): return s.ret(st, Agg('PanicPayload', []))
    def d_JoinError(s, M, st, th, v): return True
    def d_PanicPayload(s, M, st, th, v): return True

    def p_Arc__get_mut(s, M, st, th, ci, a):
        v = s.tgt(M, st, a[0]); inner = M.deref(st, v.f[0])
        if inner.f[1].v == 1 and inner.f[2].v == 0: return s.ret(st, some(v.f[0].field(0)))
        return s.ret(st, NONE)

    def p_Mutex__get_mut(s, M, st, th, ci, a):
        m = s.tgt(M, st, a[0])
        return s.ret(st, err(Agg('PoisonError', [a[0].field(0)])) if m.f[2] is True else ok(a[0].field(0)))

    def p_PoisonError__into_inner(s, M, st, th, ci, a): return s.ret(st, a[0].f[0])
    def p_PoisonError__get_mut(s, M, st, th, ci, a): return s.ret(st, a[0].field(0))

    # ---- the wrapped value and the user's closures
    def d_Val(s, M, st, th, v):
        st.logev('val_drop', v.f[0].tag, th.name, th.kind)
        # "still using it": a task that is inside its closure - not the task whose closure has returned and which is now letting go of
        # its own reference (a value destroyed by the last reference after the last closure finished is what the property asks for)
        if any(t['state'] == 'running' and k not in st.gget('closure_done', ()) for k, t in st.gget('btasks', {}).items()): st.gset('drop_while_running', True)
        st.gset('val_drops', st.gget('val_drops', ()) + ((v.f[0].tag, th.name, th.kind),))
        return True

    def call_value(s, M, st, th, fv, fv2, args):
        if isinstance(fv2, Agg) and fv2.ty == 'UserFn':
            k = fv2.f[0].v; want = fv2.f[1].tag
            tgt = M.deref(st, args[0]) if args and isinstance(args[0], Ref) else None
            alive = isinstance(tgt, Agg) and tgt.ty == 'Val'
            if s.cfg.get('split') and th.kind == 'blocking':
                # the closure takes time: the thread stops inside it (holding whatever locks the wrapper took for it) and
                # finishes when it is scheduled again
                st.logev('closure_enter', k, th.name, th.kind, 'alive' if alive else 'dead')
                M.push_k(th, 'env', 'closure_body', (k, want, alive))
                th.at_point = 'closure.running'
                return [('raw', [(st, 'stop')])]
            return s._closure_finish(M, st, th, k, want, alive)
        if isinstance(fv2, Agg) and fv2.ty == 'CreateFn':
            st.logev('create_run', th.name, th.kind)
            st.gset('create_runs', st.gget('create_runs', ()) + ((th.name, th.kind),))
            if fv2.f[0].tag == 'err': return s.ret(st, err(Agg('CreateErr', [])))
            return s.ret(st, ok(Agg('Val', [Opaque('val:1')])))
        return None

    def _closure_finish(s, M, st, th, k, want, alive):
        if th.name.startswith('B') and th.name[1:].isdigit(): st.gset('closure_done', st.gget('closure_done', ()) + (int(th.name[1:]),))
        st.logev('closure_run', k, th.name, th.kind, 'alive' if alive else 'dead')
        st.gset('closure_runs', st.gget('closure_runs', ()) + ((k, th.name, th.kind, alive, len(st.gget('val_drops', ()))),))
        if want == 'panic': return [('panic', st, f'user closure {k} panicked', 'user')]
        return s.ret(st, Agg('UserResult', [I(k)]))

    def k_closure_body(s, M, st, th, fr, why, rv, data):
        th.stack.pop()
        if why == 'unwind': return 'continue'
        k, want, alive = data
        return s._closure_finish(M, st, th, k, want, alive)

    def d_UserFn(s, M, st, th, v): return True
    def d_CreateFn(s, M, st, th, v): return True
    def d_UserResult(s, M, st, th, v): return True
    def d_CreateErr(s, M, st, th, v): return True
    def d_InteractError(s, M, st, th, v): return True
    def d_SpawnBlockingError(s, M, st, th, v): return True

    def convert_into(s, M, st, th, ci, v): return None
    def convert_err(s, M, st, th, ci, e): return [('ret', st, err(e))]


class SyncBSE:
    """exploration world for one SyncWrapper: async thread A (script of interacts), blocking pool (any order), drop at any time"""

    def __init__(s, prog, cfg):
        c = {'max_interacts': 2, 'depth': 10, 'outcomes': ('ok', 'panic'), 'oracles': ('C14',), 'create': 'ok'}
        c.update(cfg); s.cfg = c
        s.W = World(prog, SyncEnv({'split': bool(c.get('split'))})); s.M = s.W.M
        s.M.allow_block = bool(c.get('split'))
        s.M.enums.setdefault('Runtime', ['Tokio1']); s.M.enums.setdefault('InteractError', ['Panic', 'Aborted'])
        s.M.enums.setdefault('SpawnBlockingError', ['Panic'])
        s.F = lambda suf: s.W.find(suf, 'sync/src/lib.rs')
        s.nprobes = 0; s.susp = {}

    def init_states(s):
        st = State(); W = s.W
        A = W.thread(st, 'A', 'async'); A.local = {'n': 0}
        st.log = (('init', 'sync'),)
        st.gset('btasks', {}); st.gset('wrapper', None); st.gset('phase', 'creating')
        # SyncWrapper::new(runtime, create_closure): returns a future; poll it, run the blocking task, poll again
        outs = W.call(st, 'A', s.F('::new'), [mk_enum('Runtime', 'Tokio1'), Agg('CreateFn', [Opaque(s.cfg['create'])])])
        res = []
        for st1, r in outs:
            fr = st1.alloc(r[1]); st1.threads['A'].local['fut'] = fr; st1.threads['A'].local['kind'] = 'new'
            for st2, r2 in W.dispatch(st1, 'A', '<F as Future>::poll', [Agg('Pin', [Ref(fr)]), UNIT]):
                st2.gset('last', None); res.append(st2)
        return res

    # ---- actions
    def actions(s, st):
        acts = []
        A = st.threads['A'].local
        if st.gget('a_blocked'): return []
        running = any(t['state'] == 'running' for t in st.gget('btasks', {}).values())
        for k, t in st.gget('btasks', {}).items():
            if t['state'] in ('queued', 'running') or (t['state'] == 'blocked' and not running): acts.append(('run', k))
        if 'fut' in A:
            acts.append(('poll',))
            if A.get('kind') == 'interact': acts.append(('cancel',))
        elif st.gget('wrapper') is not None:
            if A['n'] < s.cfg['max_interacts']:
                for o in s.cfg['outcomes']: acts.append(('interact', o))
            acts.append(('drop_wrapper',))
            if s.cfg.get('unwinding_drop', True): acts.append(('drop_wrapper', 'unwinding'))      # the owner of the wrapper panics: dropped during unwinding
            if s.cfg.get('spawn_point', True): acts.append(('drop_wrapper', 'task_runs_at_once'))  # the pool runs the task Drop spawns before the drop glue continues
            acts.append(('is_poisoned',))
        return acts

    def apply(s, st, a):
        st = st.clone(); st.log = st.log + (('act',) + tuple(a),); W = s.W; outs = []
        A = st.threads['A'].local
        if a[0] == 'run':
            k = a[1]; t = st.gget('btasks')[k]
            name = f'B{k}'; th = W.thread(st, name, 'blocking')
            if t['state'] == 'queued':
                th.result = None
                clo = st.heap.pop(t['closure'])
                bt = dict(st.gget('btasks')); bt[k] = dict(t, closure=None); st.gset('btasks', bt)
                r = s.M.call_value(st, th, clo, [])
                sts = [st] if r is None else [x for x, _ in r]
            else:
                th.at_point = None; sts = [st]
            for x in sts:
                for y in (s.M.run(x, name) if x.threads[name].stack and x.threads[name].at_point is None else [x]):
                    thy = y.threads[name]; resv = thy.result
                    if thy.stack:
                        # stopped inside the task: in the user's closure, or waiting for a lock another thread holds
                        stt = 'running' if thy.at_point == 'closure.running' else 'blocked'
                        bt = dict(y.gget('btasks')); bt[k] = dict(bt[k], state=stt); y.gset('btasks', bt)
                        y.gset('last', {'act': a, 'res': (stt,)}); outs.append(y); continue
                    rr = ok(resv[1]) if resv and resv[0] == 'ok' else err(Agg('JoinError', []))
                    root = y.alloc(rr)
                    bt = dict(y.gget('btasks')); bt[k] = dict(bt[k], state='done', result=root, panicked=not (resv and resv[0] == 'ok')); y.gset('btasks', bt)
                    y.threads.pop(name, None)
                    y.gset('last', {'act': a}); outs.append(y)
            return outs
        if a[0] != 'run' and s.cfg.get('split'):
            outs = s._apply_A(st, a)
            for y in outs:
                ta = y.threads['A']
                if ta.stack and isinstance(ta.at_point, tuple) and ta.at_point[0] == 'blocked':
                    y.gset('a_blocked', True); y.gset('last', {'act': a, 'res': ('blocked',)})
            return outs
        return s._apply_A(st, a)

    def _apply_A(s, st, a):
        W = s.W; outs = []; A = st.threads['A'].local
        if a[0] == 'interact':
            A['n'] += 1; k = A['n']
            wr = st.gget('wrapper')
            for st1, r in W.call(st, 'A', s.F('::interact'), [Ref(wr), Agg('UserFn', [I(k), Opaque(a[1])])]):
                L = st1.threads['A'].local
                L['fut'] = st1.alloc(r[1]); L['kind'] = 'interact'; L['cur'] = (k, a[1])
                outs.extend(s.do_poll(st1, a))
            return outs
        if a[0] == 'poll': return s.do_poll(st, a)
        if a[0] == 'cancel':
            fut = st.heap.pop(A.pop('fut')); A.pop('kind'); cur = A.pop('cur')
            st.gset('cancelled', st.gget('cancelled', ()) + (cur[0],))
            for st1, r in W.drop(st, 'A', [fut]):
                st1.gset('last', {'act': a, 'res': r}); outs.append(st1)
            return outs
        if a[0] == 'drop_wrapper':
            w = st.heap.pop(st.gget('wrapper')); st.gset('wrapper', None); st.gset('phase', 'dropped')
            unw = len(a) > 1 and a[1] == 'unwinding'
            if unw: st.threads['A'].panicking = True          # std::thread::panicking() is true while the wrapper's Drop runs
            if len(a) > 1 and a[1] == 'task_runs_at_once': st.gset('spawn_now', True)
            for st1, r in W.drop(st, 'A', [w]):
                if unw: st1.threads['A'].panicking = False
                st1.gset('spawn_now', False)
                st1.gset('last', {'act': a, 'res': r}); outs.append(st1)
            return outs
        if a[0] == 'is_poisoned':
            for st1, r in W.call(st, 'A', s.F('::is_mutex_poisoned'), [Ref(st.gget('wrapper'))]):
                st1.gset('last', {'act': a, 'res': r}); outs.append(st1)
            return outs
        raise ValueError(a)

    def do_poll(s, st, a):
        outs = []
        L = st.threads['A'].local
        for st1, r in s.W.dispatch(st, 'A', '<F as Future>::poll', [Agg('Pin', [Ref(L['fut'])]), UNIT]):
            L1 = st1.threads['A'].local
            if r[0] != 'ok':
                fut = st1.heap.pop(L1.pop('fut')); kind = L1.pop('kind'); L1.pop('cur', None)
                for st2, _ in s.W.drop(st1, 'A', [fut]):
                    st2.gset('last', {'act': a, 'res': ('panic',), 'kind': kind}); outs.append(st2)
                continue
            p = r[1]
            if p.variant == 'Pending':
                st1.gset('last', {'act': a, 'res': ('pending',)}); outs.append(st1); continue
            st1.heap.pop(L1.pop('fut')); kind = L1.pop('kind'); cur = L1.pop('cur', None)
            res = payload(p)
            if kind == 'new':
                if res.variant == 'Ok':
                    st1.gset('wrapper', st1.alloc(payload(res))); st1.gset('phase', 'live')
                else: st1.gset('phase', 'failed')
                st1.gset('last', {'act': a, 'res': ('created', res.variant)}); outs.append(st1)
            else:
                desc = 'Ok' if res.variant == 'Ok' else payload(res).variant
                done = dict(st1.gget('results', {})); done[cur[0]] = (cur[1], desc); st1.gset('results', done)
                for st2, _ in s.W.drop(st1, 'A', [res]):
                    st2.gset('last', {'act': a, 'res': ('interact', cur[0], cur[1], desc)}); outs.append(st2)
        return outs

    # ---- oracle
    def vio(s, what, st): return {'property': 'C14', 'what': what, 'model': {}}

    def check(s, st0, a, st):
        out = []
        # a panic inside a blocking task is caught by the runtime and reported through the JoinHandle (by design: interact on a poisoned
        # wrapper); a panic raised by deadpool code on the async thread is a violation (except the documented one in SyncWrapper::new)
        for e in st.log:
            if e[0] == 'panic' and e[1] == 'A' and e[2] == 'deadpool' and s.cfg['create'] == 'ok':
                out.append(s.vio('panic raised inside deadpool-sync on the async thread: ' + e[3], st)); return out
        for (tag, tn, kind) in st.gget('val_drops', ()):
            if kind != 'blocking': out.append(s.vio(f'the wrapped value was destroyed on thread {tn} ({kind}), not on a blocking thread', st))
        if len(st.gget('val_drops', ())) > 1: out.append(s.vio('the wrapped value was destroyed more than once', st))
        if st.gget('a_blocked'):
            out.append(s.vio(f'{a[0]} makes the async thread wait for the wrapper\'s mutex while an interact() closure is still running on the blocking pool', st))
        if st.gget('drop_while_running'):
            out.append(s.vio('the wrapped value was destroyed while an interact() closure was still using it', st))
        for (tn, kind) in st.gget('create_runs', ()):
            if kind != 'blocking': out.append(s.vio(f'the creation closure ran on thread {tn} ({kind})', st))
        for (k, tn, kind, alive, ndrops) in st.gget('closure_runs', ()):
            if kind != 'blocking': out.append(s.vio(f'interact closure {k} ran on thread {tn} ({kind})', st))
            if not alive or ndrops > 0: out.append(s.vio(f'interact closure {k} ran after the wrapped value had been destroyed', st))
        last = st.gget('last') or {}
        r = last.get('res')
        if r and r[0] == 'interact':
            k, want, desc = r[1], r[2], r[3]
            if want == 'panic' and desc != 'Panic': out.append(s.vio(f'a panicking closure was reported as {desc}, not InteractError::Panic', st))
            if want == 'ok' and desc not in ('Ok', 'Panic', 'Aborted'): out.append(s.vio(f'unexpected interact result {desc}', st))
            if want == 'ok' and desc == 'Panic' and not s.poisoned_before(st, k): out.append(s.vio('InteractError::Panic for a closure that did not panic on an unpoisoned wrapper', st))
        if r and a[0] == 'is_poisoned' and r[0] == 'ok':
            panicked = any(w == 'panic' and d == 'Panic' for (w, d) in st.gget('results', {}).values())
            if panicked and r[1] is not True: out.append(s.vio('is_mutex_poisoned() is false after a closure panicked', st))
            if r[1] is True and not any(k2 for (k2, tn, kind, alive, nd) in st.gget('closure_runs', ()) if s.want_of(st, k2) == 'panic'):
                out.append(s.vio('is_mutex_poisoned() is true although no closure panicked', st))
        return out

    def want_of(s, st, k):
        for e in st.log:
            if e[0] == 'act' and e[1] == 'interact': pass
        n = 0
        for e in st.log:
            if e[0] == 'act' and e[1] == 'interact':
                n += 1
                if n == k: return e[2]
        return None

    def poisoned_before(s, st, k):
        return any(s.want_of(st, k2) == 'panic' for (k2, tn, kind, alive, nd) in st.gget('closure_runs', ()))

    def check_state(s, st):
        out = []
        # at quiescence after the wrapper is gone the value must have been destroyed exactly once (if it was created)
        if st.gget('phase') == 'dropped' and all(t['state'] in ('done', 'joined') for t in st.gget('btasks', {}).values()) and 'fut' not in st.threads['A'].local and not st.gget('a_blocked'):
            if len(st.gget('val_drops', ())) != 1:
                out.append(s.vio(f'after the wrapper was dropped and the blocking pool drained the value was destroyed {len(st.gget("val_drops", ()))} times', st))
        return out

    def key(s, st):
        roots = []
        if st.gget('wrapper') is not None: roots.append(st.gget('wrapper'))
        L = st.threads['A'].local
        if 'fut' in L: roots.append(L['fut'])
        for k, t in sorted(st.gget('btasks', {}).items()):
            if t['state'] == 'queued' and t.get('closure') is not None: roots.append(t['closure'])
            if t.get('result') is not None: roots.append(t['result'])
        bt = tuple((k, t['state']) for k, t in sorted(st.gget('btasks', {}).items()))
        return (explore.state_key(st, roots, ('phase', 'val_drops', 'closure_runs', 'create_runs', 'results', 'cancelled', 'a_blocked', 'drop_while_running')), bt)

    def describe(s, st): return {'trace': [list(map(str, e)) for e in st.log if e[0] in ('init', 'act')]}


# ====================================================================== C15: Manager::recycle of the SyncWrapper-based pools
class RecycleEnv(SyncEnv):
    """adds the backends the three managers talk to; every backend call is logged with the kind of thread it ran on"""

    def blog(s, st, th, what, outcome):
        st.logev('backend', what, th.name, th.kind, outcome)
        st.gset('backend_calls', st.gget('backend_calls', ()) + ((what, th.kind, outcome),))

    def clone_value(s, M, st, v, strict=True):
        if isinstance(v, Agg) and v.ty in ('PathBuf', 'String', 'Config', 'R2d2Mgr'): return v
        return super().clone_value(M, st, v, strict)

    # rusqlite
    def p_Connection__query_row(s, M, st, th, ci, a):
        o = s.cfg['backend'].get('query_row', 'echo'); s.blog(st, th, 'query_row', o)
        p = a[2].f[0] if isinstance(a[2], Agg) else a[2]
        if o == 'echo': return s.ret(st, ok(p))
        if o == 'wrong': return s.ret(st, ok(binop('Add', p, I(1))))
        return s.ret(st, err(Agg('BackendErr', [Opaque('rusqlite')])))

    # r2d2
    def t_ManageConnection__has_broken(s, M, st, th, ci, a):
        o = s.cfg['backend'].get('has_broken', False); s.blog(st, th, 'has_broken', o); return s.ret(st, bool(o))
    def t_ManageConnection__is_valid(s, M, st, th, ci, a):
        o = s.cfg['backend'].get('is_valid', 'ok'); s.blog(st, th, 'is_valid', o)
        return s.ret(st, ok(UNIT) if o == 'ok' else err(Agg('BackendErr', [Opaque('r2d2')])))

    # diesel
    def t_TransactionManager__is_broken_transaction_manager(s, M, st, th, ci, a):
        o = s.cfg['backend'].get('broken_tx', False); s.blog(st, th, 'is_broken_transaction_manager', o); return s.ret(st, bool(o))
    def p___select(s, M, st, th, ci, a): return s.ret(st, Agg('Stmt', [Opaque('select 1')]))
    p_diesel__select = p___select
    def p___sql_query(s, M, st, th, ci, a): return s.ret(st, Agg('Stmt', [Opaque('custom')]))
    p_diesel__sql_query = p___sql_query
    def t_IntoSql__into_sql(s, M, st, th, ci, a): return s.ret(st, Opaque('sql-literal'))
    def t_RunQueryDsl__execute(s, M, st, th, ci, a):
        o = s.cfg['backend'].get('execute', 'ok'); s.blog(st, th, 'execute:' + a[0].f[0].tag, o)
        return s.ret(st, ok(I(1)) if o == 'ok' else err(Agg('BackendErr', [Opaque('diesel')])))
    def t_AsRef__as_ref(s, M, st, th, ci, a):
        v = s.tgt(M, st, a[0])
        if isinstance(v, Agg) and v.ty == 'Cow': return s.ret(st, sref(payload(v).f[0] if isinstance(payload(v), Agg) else z3.StringVal('q')))
        return super().t_AsRef__as_ref(M, st, th, ci, a)
    def d_Stmt(s, M, st, th, v): return True
    def d_BackendErr(s, M, st, th, v): return True
    def d_Cow(s, M, st, th, v): return True
    def d_R2d2Mgr(s, M, st, th, v): return True
    def d_CustomCheck(s, M, st, th, v): return True
    def d_RecycleError(s, M, st, th, v): return True
    def d_Error(s, M, st, th, v): return None

    def p___must_use(s, M, st, th, ci, a): return s.ret(st, a[0])
    p_hint__must_use = p___must_use

    def call_value(s, M, st, th, fv, fv2, args):
        if isinstance(fv2, Agg) and fv2.ty == 'Box' and isinstance(fv2.f[0], Ref):
            inner = M.deref(st, fv2.f[0])
            if isinstance(inner, Agg) and inner.ty == 'CustomCheck': fv2 = inner
        if isinstance(fv2, Agg) and fv2.ty == 'CustomCheck':
            o = s.cfg['backend'].get('custom', 'ok'); s.blog(st, th, 'custom_check', o)
            return s.ret(st, ok(UNIT) if o == 'ok' else err(mk_enum('Error', 'Ping', [Agg('BackendErr', [Opaque('custom')])])))
        return super().call_value(M, st, th, fv, fv2, args)

    def convert_into(s, M, st, th, ci, v):
        if isinstance(v, (Opaque,)) or (isinstance(v, Agg) and v.ty in ('String', 'str')): return s.ret(st, v if not isinstance(v, Opaque) else S(sterm(M, st, v)))
        return None

    def convert_err(s, M, st, th, ci, e):
        # `??` in sqlite's recycle: rusqlite::Error -> RecycleError::Backend (impl From<E> for RecycleError<E> in deadpool core)
        if isinstance(e, Agg) and e.ty == 'BackendErr': return [('ret', st, err(mk_enum('RecycleError', 'Backend', [e])))]
        return [('ret', st, err(e))]


class RecycleBSE(SyncBSE):
    def __init__(s, prog, cfg):
        c = {'manager': 'sqlite', 'depth': 10, 'backend': {}, 'prefix': (), 'method': 'Fast', 'oracles': ('C15',), 'max_interacts': 0, 'outcomes': ('ok',), 'create': 'ok'}
        c.update(cfg); s.cfg = c
        env = RecycleEnv({'backend': c['backend'], 'split': bool(c.get('split'))}); env.home = {'sqlite': 'deadpool_sqlite', 'r2d2': 'deadpool_r2d2', 'diesel': 'deadpool_diesel'}[c['manager']]
        s.W = World(prog, env); s.M = s.W.M
        s.M.allow_block = bool(c.get('split'))
        for k, v in (('Runtime', ['Tokio1']), ('InteractError', ['Panic', 'Aborted']), ('SpawnBlockingError', ['Panic'])): s.M.enums.setdefault(k, v)
        s.F = lambda suf: s.W.find(suf, 'sync/src/lib.rs')
        s.nprobes = 0; s.susp = {}; s.structs = prog.structs

    def manager_value(s, st):
        m = s.cfg['manager']; rt = mk_enum('Runtime', 'Tokio1')
        def build(path, **kw): return Agg('Manager', [kw[f] for f in s.structs[(path, 'Manager')]])
        if m == 'sqlite':
            return build('sqlite/src/lib.rs', config=Agg('Config', [Agg('PathBuf', [z3.String('db_path')])]), recycle_count=Agg('Atomic', [z3.BitVec('recycle_count', 64)]), runtime=rt)
        if m == 'r2d2':
            r = st.alloc(Agg('ArcInner', [Agg('R2d2Mgr', []), I(1), I(0)]))
            return build('r2d2/src/manager.rs', r2d2_manager=Agg('Arc', [Ref(r)]), runtime=rt)
        meth = s.cfg['method']
        if meth in ('Fast', 'Verified'): rm = mk_enum('RecyclingMethod', meth)
        elif meth == 'CustomQuery': rm = mk_enum('RecyclingMethod', 'CustomQuery', [mk_enum('Cow', 'Owned', [S(z3.String('custom_sql'))])])
        else:
            b = st.alloc(Agg('CustomCheck', [])); rm = mk_enum('RecyclingMethod', 'CustomFunction', [Agg('Box', [Ref(b)])])
        r = st.alloc(Agg('ArcInner', [Agg('ManagerConfig', [rm]), I(1), I(0)]))
        return build('diesel/src/manager.rs', database_url=S(z3.String('db_url')), runtime=rt, manager_config=Agg('Arc', [Ref(r)]), _marker=UNIT)

    def init_states(s):
        base = super().init_states()
        # finish creation: run the creation task, poll
        def drive(states, acts):
            for a in acts:
                states = [y for x in states for y in s.apply(x, a)]
            return states
        sts = drive(base, [('run', 1), ('poll',)])
        out = []
        for st in sts:
            if st.gget('wrapper') is None: continue
            st.gset('mgr', st.alloc(s.manager_value(st)))
            cur = [st]
            for p in s.cfg['prefix']:
                if p == 'interact_ok': cur = drive(cur, [('interact', 'ok'), ('run', st.gget('n_btask', 0) + 1), ('poll',)])
                elif p == 'interact_panic': cur = drive(cur, [('interact', 'panic'), ('run', cur[0].gget('n_btask', 0) + 1), ('poll',)])
                elif p == 'cancelled_panic_queued': cur = drive(cur, [('interact', 'panic'), ('cancel',)])
                elif p == 'cancelled_ok_queued': cur = drive(cur, [('interact', 'ok'), ('cancel',)])
                elif p in ('cancelled_ok_running', 'cancelled_panic_running'):
                    # the closure of a cancelled interaction is still inside the wrapper (needs cfg split)
                    cur = drive(cur, [('interact', p.split('_')[1]), ('run', cur[0].gget('n_btask', 0) + 1), ('cancel',)])
            out.extend(cur)
        return out

    def actions(s, st):
        acts = []
        A = st.threads['A'].local
        if st.gget('a_blocked'): return []
        running = any(t['state'] == 'running' for t in st.gget('btasks', {}).values())
        for k, t in st.gget('btasks', {}).items():
            if t['state'] in ('queued', 'running') or (t['state'] == 'blocked' and not running): acts.append(('run', k))
        if 'fut' in A: acts.append(('poll',))
        elif not st.gget('recycled'): acts.append(('recycle',))
        return acts

    def apply(s, st, a):
        if a[0] == 'run' and a[1] == st.gget('recycle_task'):
            # history fact needed by the oracle (kept in the state so that merging cannot lose it)
            outs = super().apply(st, a)
            pbc = any(s.want_of(st, k) == 'panic' for (k, tn, kind, alive, nd) in st.gget('closure_runs', ()))
            for o in outs: o.gset('panic_before_check', pbc)
            return outs
        if a[0] != 'recycle': return super().apply(st, a)
        st = st.clone(); st.log = st.log + (('act',) + tuple(a),); W = s.W; outs = []
        st.gset('recycled', True)
        fn = [n for n in s.M.fns if n.endswith('::recycle') and s.M.fns[n].crate == W.env.home]
        if len(fn) != 1: raise Unmodelled('Manager::recycle body')
        met = st.alloc(Agg('Metrics', [Agg('Instant', [I(0)]), NONE, I(0)]))
        for st1, r in W.call(st, 'A', fn[0], [Ref(st.gget('mgr')), Ref(st.gget('wrapper')), Ref(met)]):
            L = st1.threads['A'].local
            L['fut'] = st1.alloc(r[1]); L['kind'] = 'recycle'; L['cur'] = ('recycle', '')
            nb = st1.gget('n_btask', 0)
            for y in s.do_poll(st1, a):
                if y.gget('n_btask', 0) > nb: y.gset('recycle_task', y.gget('n_btask'))
                outs.append(y)
        return outs

    def do_poll(s, st, a):
        if st.threads['A'].local.get('kind') != 'recycle': return super().do_poll(st, a)
        outs = []
        L = st.threads['A'].local
        for st1, r in s.W.dispatch(st, 'A', '<F as Future>::poll', [Agg('Pin', [Ref(L['fut'])]), UNIT]):
            L1 = st1.threads['A'].local
            if r[0] != 'ok':
                st1.heap.pop(L1.pop('fut'), None); L1.pop('kind'); L1.pop('cur', None)
                st1.gset('last', {'act': a, 'res': ('recycle', 'panic')}); outs.append(st1); continue
            p = r[1]
            if p.variant == 'Pending':
                st1.gset('last', {'act': a, 'res': ('pending',)}); outs.append(st1); continue
            st1.heap.pop(L1.pop('fut')); L1.pop('kind'); L1.pop('cur', None)
            res = payload(p)
            st1.gset('recycle_result', res.variant)
            st1.gset('last', {'act': a, 'res': ('recycle', res.variant)}); outs.append(st1)
        return outs

    def vio(s, what, st): return {'property': 'C15', 'what': what, 'model': {}}

    def check(s, st0, a, st):
        out = []
        last = st.gget('last') or {}; r = last.get('res')
        for (what, kind, o) in st.gget('backend_calls', ()):
            if kind != 'blocking': out.append(s.vio(f'the backend check {what} ran on an async thread', st))
        if st.gget('a_blocked'): out.append(s.vio('recycle() makes the async thread wait for the connection mutex while a closure is still running', st))
        if r and r[0] == 'recycle':
            if r[1] == 'panic': out.append(s.vio('Manager::recycle panicked', st)); return out
            b = s.cfg['backend']
            # a panic counts when it happened before recycle()'s own check ran on the connection (a cancelled closure that panics
            # later is indistinguishable from one that panics after the hand-out)
            rt = st.gget('recycle_task')
            if rt is None: panicked = any(s.want_of(st, k) == 'panic' for (k, tn, kind, alive, nd) in st.gget('closure_runs', ()))
            else: panicked = bool(st.gget('panic_before_check'))
            unhealthy = b.get('has_broken') or b.get('is_valid', 'ok') != 'ok' or b.get('query_row', 'echo') != 'echo' or b.get('broken_tx') or \
                (b.get('execute', 'ok') != 'ok' and s.cfg['method'] in ('Verified', 'CustomQuery')) or (b.get('custom', 'ok') != 'ok' and s.cfg['method'] == 'CustomFunction')
            if r[1] == 'Ok' and panicked:
                out.append(s.vio('recycle() accepted a connection on which a closure had panicked', st))
            if r[1] == 'Ok' and unhealthy:
                out.append(s.vio(f'recycle() accepted a connection the backend reports as unhealthy ({b})', st))
            if r[1] == 'Err' and not panicked and not unhealthy and not st.gget('cancelled'):
                out.append(s.vio('recycle() rejected a healthy connection', st))
        return out

    def check_state(s, st): return []

    def key(s, st):
        k = super().key(st)
        return (k, st.gget('recycled'), st.gget('recycle_result'), st.gget('backend_calls'), st.gget('panic_before_check'))
