"""Library models (the trusted base): std, tokio::sync::Semaphore, futures plumbing.
Every model is a method `m_<key>` of Env, looked up through a table keyed by the structured callee.
Each returns a list of outcomes (see Machine docstring) or None when it does not apply."""
import re
import z3
from .mir import Unmodelled, split_top
from .core import (I, Agg, Ref, Opaque, FnItem, UNINIT, UNIT, NONE, PENDING, mk_enum, some, ok, err, ready, payload,
                   type_head, is_sym, simp, z, b_not, b_and, b_or, binop, Violation, InternalError, is_int, width)

_ci_cache = {}


def strip_generics(t):
    out = []; d = 0
    for i, c in enumerate(t):
        if c == '<': d += 1
        elif c == '>' and (i == 0 or t[i - 1] not in '-='): d -= 1
        elif d == 0: out.append(c)
    return ''.join(out)


def callee_info(c):
    r = _ci_cache.get(c)
    if r is not None: return r
    if c.startswith('<'):
        # <Self as Trait>::method[::<G>]
        d = 0; as_at = None; close = None
        for i, ch in enumerate(c):
            if ch == '<': d += 1
            elif ch == '>' and c[i - 1] not in '-=':
                d -= 1
                if d == 0: close = i; break
            elif d == 1 and as_at is None and c.startswith(' as ', i):
                # ' as ' at depth 1 - but `impl X as Y`/casts do not occur in types, fine
                as_at = i
        selfty = c[1:as_at] if as_at is not None else c[1:close]
        trait = c[as_at + 4:close] if as_at is not None else None
        rest = c[close + 1:]
        m = re.match(r'^::(\w+)(::<.*>)?$', rest)
        method = m.group(1) if m else rest
        r = {'kind': 'trait', 'selfty': selfty, 'self_head': type_head(selfty), 'trait': trait,
             'trait_head': type_head(trait) if trait else None, 'method': method, 'text': c}
    else:
        flat = strip_generics(c)
        segs = [x for x in flat.split('::') if x]
        r = {'kind': 'path', 'selfty': None, 'self_head': segs[-2] if len(segs) >= 2 else None, 'trait': None,
             'trait_head': None, 'method': segs[-1], 'text': c, 'segs': segs}
    _ci_cache[c] = r
    return r


MAX_PERMITS = (1 << 64) - 1 >> 3


class Env:
    """base environment: std + tokio models.  Worlds subclass it (manager, hooks, predicates...)."""

    def __init__(s):
        s.path_models = {}; s.trait_models = {}
        for name in dir(s):
            if name.startswith('p_'):
                # p_<Type>__<method>
                ty, meth = name[2:].split('__', 1)
                s.path_models[(ty, meth)] = getattr(s, name)
            elif name.startswith('t_'):
                tr, meth = name[2:].split('__', 1)
                s.trait_models[(tr, meth)] = getattr(s, name)

    # -------- hooks for Machine
    def const(s, M, c):
        if c.startswith('std::sync::atomic::Ordering::') or c.startswith('Ordering::'): return Opaque(c)
        m = re.match(r'^(.+)::(\w+)$', c)
        return None

    _shared_re = re.compile(r'^(std::sync::)?Mutex::<.*>::(lock|try_lock)$|^Atomic::<.*>::(load|store|swap|fetch_add|fetch_sub|fetch_or|compare_exchange)$|'
                            r'^Semaphore::(try_acquire|try_acquire_many|add_permits|close|is_closed|available_permits)$|Semaphore::acquire\(\)\} as Future>::poll$')

    def is_shared_access(s, callee): return s._shared_re.search(callee) is not None

    def resolve_hint(s, callee): return None
    def home_crate(s): return getattr(s, 'home', None)
    def disambiguate(s, callee, cands): return cands
    def pick_drop_impl(s, M, v, impls): return impls

    _num_re = re.compile(r'^core::num::<impl (u8|u16|u32|u64|u128|usize|i8|i16|i32|i64|i128|isize)>::(\w+)$')

    def num_method(s, M, st, ty, meth, a):
        signed = ty.startswith('i'); w = 64 if ty.endswith('size') else int(ty[1:])
        x = a[0]; y = a[1] if len(a) > 1 else None
        def ite(c, p, q):
            if isinstance(c, bool): return p if c else q
            return simp(z3.If(c, z(p), z(q)))
        if meth == 'saturating_sub' and not signed: return ite(binop('Lt', x, y), I(0, w), binop('Sub', x, y))
        if meth == 'saturating_add' and not signed:
            r = binop('AddWithOverflow', x, y); return ite(r[2], I((1 << w) - 1, w), r[1])
        if meth in ('wrapping_add', 'wrapping_sub', 'wrapping_mul'): return binop({'wrapping_add': 'Add', 'wrapping_sub': 'Sub', 'wrapping_mul': 'Mul'}[meth], x, y)
        if meth in ('checked_add', 'checked_sub', 'checked_mul'):
            r = binop({'checked_add': 'AddWithOverflow', 'checked_sub': 'SubWithOverflow', 'checked_mul': 'MulWithOverflow'}[meth], x, y, signed)
            return ('fork', r[2], NONE, some(r[1]))
        if meth in ('min', 'max'):
            c = binop('Le', x, y, signed); return ite(c, x, y) if meth == 'min' else ite(c, y, x)
        if meth == 'abs_diff': return ite(binop('Lt', x, y, signed), binop('Sub', y, x), binop('Sub', x, y))
        if meth == 'is_power_of_two' or meth == 'pow' or meth == 'leading_zeros': raise Unmodelled('integer method ' + meth)
        return None

    def call(s, M, st, th, callee, args):
        # formatting is never the subject: format!() yields a fresh string about which nothing is known (so a property that needs
        # a particular text can be falsified by it, and nothing is proved from it)
        if callee.startswith(('core::fmt::rt::', 'Arguments::', 'std::fmt::Arguments', 'core::fmt::Arguments', 'fmt::Arguments')):
            return s.ret(st, Opaque('fmt'))
        if callee in ('format', 'std::fmt::format', 'alloc::fmt::format', 'fmt::format') or callee.startswith(('format::', 'alloc::fmt::format::', 'std::fmt::format::')):
            import z3 as _z3
            n = st.gget('n_formatted', 0); st.gset('n_formatted', n + 1)
            return s.ret(st, Agg('String', [_z3.String(f'formatted_{n}')]))
        m = s._num_re.match(callee)
        if m:
            r = s.num_method(M, st, m.group(1), m.group(2), args)
            if r is None: raise Unmodelled('integer method ' + callee)
            if isinstance(r, tuple) and r[0] == 'fork':
                return [('ret', st2, r[2] if c else r[3]) for st2, c in M.fork_on(st, r[1])]
            return s.ret(st, r)
        ci = callee_info(callee)
        if ci['kind'] == 'trait':
            f = s.trait_models.get((ci['trait_head'], ci['method']))
            if f is not None:
                r = f(M, st, th, ci, args)
                if r is not None: return r
            return None
        f = s.path_models.get((ci['self_head'], ci['method']))
        if f is not None:
            r = f(M, st, th, ci, args)
            if r is not None: return r
        f = s.path_models.get(('', ci['method']))
        if f is not None and (ci['self_head'] is None or ci.get('segs', [''])[0] in ('std', 'core', 'alloc', 'verif')):
            r = f(M, st, th, ci, args)
            if r is not None: return r
        return None

    def call_value(s, M, st, th, fv, fv2, args): return None

    def drop(s, M, st, th, v):
        """model destructors.  True = handled, None = not a model type, list = outcomes"""
        f = getattr(s, 'd_' + re.sub(r'\W', '_', v.ty), None)
        if f is not None: return f(M, st, th, v)
        if v.ty in ('tuple', '()', 'Pin', 'Instant', 'Duration', 'array', 'Weak0', 'Context'): return None if v.ty in ('tuple', 'array') else True
        return None

    # -------- helpers
    @staticmethod
    def ret(st, v): return [('ret', st, v)]

    def tgt(s, M, st, ref): return M.deref(st, ref)

    # ======================================================= Option / Result / Try
    def p_Option__unwrap(s, M, st, th, ci, a):
        v = a[0]
        if v.variant == 'None': return [('panic', st, 'called `Option::unwrap()` on a `None` value', 'deadpool')]
        return s.ret(st, payload(v))

    def p_Option__expect(s, M, st, th, ci, a):
        v = a[0]
        if v.variant == 'None': return [('panic', st, 'Option::expect on None', 'deadpool')]
        return s.ret(st, payload(v))

    def p_Option__unwrap_or(s, M, st, th, ci, a):
        if a[0].variant == 'Some': return s.drop_then_ret(M, st, th, [a[1]], payload(a[0]))
        return s.ret(st, a[1])

    def p_Option__unwrap_or_default(s, M, st, th, ci, a):
        if a[0].variant == 'Some': return s.ret(st, payload(a[0]))
        # None: T::default() for the T named in the call's generic arguments (Option::<T>::unwrap_or_default)
        m = re.search(r'Option::<(.+)>::unwrap_or_default$', ci['text'])
        if not m: return None
        r = M.dispatch(st, th, f'<{m.group(1)} as Default>::default', [])
        return [('push', st)] if r is None else [('raw', r)]

    def p_Result__unwrap_or_default(s, M, st, th, ci, a):
        if a[0].variant == 'Ok': return s.ret(st, payload(a[0]))
        # Err(e): e is dropped, T::default() for the T named in the call (Result::<T, E>::unwrap_or_default)
        m = re.search(r'Result::<(.+)>::unwrap_or_default$', ci['text'])
        if not m: return None
        T = split_top(m.group(1), ',')[0].strip()
        e = payload(a[0])
        dv = s.default_value(T)
        if dv is not None: return s.drop_then_ret(M, st, th, [e], dv)
        if isinstance(e, Agg) and e is not UNIT: return None          # a user Default impl after a drop: not sequenced by this model
        r = M.dispatch(st, th, f'<{T} as Default>::default', [])
        return [('push', st)] if r is None else [('raw', r)]

    def p_Option__take(s, M, st, th, ci, a):
        o = s.tgt(M, st, a[0]); M.write(st, a[0], NONE); return s.ret(st, o)

    def p_Option__replace(s, M, st, th, ci, a):
        o = s.tgt(M, st, a[0]); M.write(st, a[0], some(a[1])); return s.ret(st, o)

    def p_Option__is_some(s, M, st, th, ci, a): return s.ret(st, s.tgt(M, st, a[0]).variant == 'Some')
    def p_Option__is_none(s, M, st, th, ci, a): return s.ret(st, s.tgt(M, st, a[0]).variant == 'None')

    def p_Option__as_mut(s, M, st, th, ci, a):
        o = s.tgt(M, st, a[0])
        return s.ret(st, some(a[0].field(('Some', 0))) if o.variant == 'Some' else NONE)

    p_Option__as_ref = p_Option__as_mut

    def p_Option__as_deref(s, M, st, th, ci, a):
        o = s.tgt(M, st, a[0])
        return s.ret(st, some(a[0].field(('Some', 0))) if o.variant == 'Some' else NONE)

    # NB an argument that is not used (the closure of a combinator applied to None, the default when the value is there) is DROPPED:
    # it may own captured objects
    def p_Option__ok_or(s, M, st, th, ci, a):
        if a[0].variant == 'Some': return s.drop_then_ret(M, st, th, [a[1]], ok(payload(a[0])))
        return s.ret(st, err(a[1]))

    def p_Option__map(s, M, st, th, ci, a):
        if a[0].variant == 'None': return s.drop_then_ret(M, st, th, [a[1]], NONE)
        return s.call_then(M, st, th, a[1], [payload(a[0])], 'wrap', ('Option', 'Some'))

    def p_Option__map_or(s, M, st, th, ci, a):
        if a[0].variant == 'None': return s.drop_then_ret(M, st, th, [a[2]], a[1])
        if isinstance(a[1], Agg) and a[1] is not UNIT: return None          # the unused default owns something: run the reference body (shim) for the exact drop order
        return s.call_then(M, st, th, a[2], [payload(a[0])], 'ident', None)

    def p_Option__and_then(s, M, st, th, ci, a):
        if a[0].variant == 'None': return s.drop_then_ret(M, st, th, [a[1]], NONE)
        return s.call_then(M, st, th, a[1], [payload(a[0])], 'ident', None)

    def p_Option__ok_or_else(s, M, st, th, ci, a):
        if a[0].variant == 'Some': return s.drop_then_ret(M, st, th, [a[1]], ok(payload(a[0])))
        return s.call_then(M, st, th, a[1], [], 'wrap', ('Result', 'Err'))

    def p_Option__unwrap_or_else(s, M, st, th, ci, a):
        if a[0].variant == 'Some': return s.drop_then_ret(M, st, th, [a[1]], payload(a[0]))
        return s.call_then(M, st, th, a[1], [], 'ident', None)

    def p_Option__is_some_and(s, M, st, th, ci, a):
        if a[0].variant == 'None': return s.drop_then_ret(M, st, th, [a[1]], False)
        return s.call_then(M, st, th, a[1], [payload(a[0])], 'ident', None)

    def p_Option__filter(s, M, st, th, ci, a):
        if a[0].variant == 'None': return s.drop_then_ret(M, st, th, [a[1]], NONE)
        tmp = st.alloc(payload(a[0]))
        return s.call_then(M, st, th, a[1], [Ref(tmp)], 'filter', (tmp,))

    def p_Option__cloned(s, M, st, th, ci, a):
        if a[0].variant == 'None': return s.ret(st, NONE)
        return s.ret(st, some(s.clone_value(M, st, s.tgt(M, st, payload(a[0])))))

    p_Option__copied = p_Option__cloned

    def p_Result__unwrap(s, M, st, th, ci, a):
        v = a[0]
        if v.variant == 'Err':
            # the error value is dropped while the panic unwinds (a PoisonError releases its guard)
            e = payload(v)
            if isinstance(e, Agg) and e is not UNIT:
                M.push_k(th, 'after', 'panic', ('called `Result::unwrap()` on an `Err` value', 'deadpool'))
                M.push_k(th, 'drop', (e,), None)
                return [('push', st)]
            return [('panic', st, 'called `Result::unwrap()` on an `Err` value', 'deadpool')]
        return s.ret(st, payload(v))

    p_Result__expect = p_Result__unwrap

    def p_Result__is_err(s, M, st, th, ci, a): return s.ret(st, s.tgt(M, st, a[0]).variant == 'Err')
    def p_Result__is_ok(s, M, st, th, ci, a): return s.ret(st, s.tgt(M, st, a[0]).variant == 'Ok')

    def p_Result__ok(s, M, st, th, ci, a):
        if a[0].variant == 'Ok': return s.ret(st, some(payload(a[0])))
        return s.drop_then_ret(M, st, th, [payload(a[0])], NONE)

    def p_Result__err(s, M, st, th, ci, a):
        if a[0].variant == 'Err': return s.ret(st, some(payload(a[0])))
        return s.drop_then_ret(M, st, th, [payload(a[0])], NONE)

    def p_Result__map_err(s, M, st, th, ci, a):
        v, f = a
        if v.variant == 'Ok': return s.drop_then_ret(M, st, th, [f], v)
        return s.call_then(M, st, th, f, [payload(v)], 'wrap', ('Result', 'Err'))

    def p_Result__map(s, M, st, th, ci, a):
        v, f = a
        if v.variant == 'Err': return s.drop_then_ret(M, st, th, [f], v)
        return s.call_then(M, st, th, f, [payload(v)], 'wrap', ('Result', 'Ok'))

    def p_Result__and_then(s, M, st, th, ci, a):
        v, f = a
        if v.variant == 'Err': return s.drop_then_ret(M, st, th, [f], v)
        return s.call_then(M, st, th, f, [payload(v)], 'ident', None)

    def p_Result__unwrap_or_else(s, M, st, th, ci, a):
        v, f = a
        if v.variant == 'Ok': return s.drop_then_ret(M, st, th, [f], payload(v))
        return s.call_then(M, st, th, f, [payload(v)], 'ident', None)

    def p_PoisonError__into_inner(s, M, st, th, ci, a): return s.ret(st, a[0].f[0])

    def t_Try__branch(s, M, st, th, ci, a):
        v = a[0]
        if v.variant in ('Ok', 'Some'):
            return s.ret(st, mk_enum('ControlFlow', 'Continue', [v.f.get((v.variant, 0), UNIT)]))
        res = mk_enum(v.ty, v.variant, [v.f[(v.variant, 0)]] if (v.variant, 0) in v.f else [])
        return s.ret(st, mk_enum('ControlFlow', 'Break', [res]))

    def t_FromResidual__from_residual(s, M, st, th, ci, a):
        v = a[0]
        if v.ty == 'Option': return s.ret(st, NONE)
        e = payload(v)
        # `?` converts with From: identity when source and target error types are the same text
        try:
            tgt_e = split_top(strip_outer(ci['selfty']))[-1]
            src_e = split_top(strip_outer(strip_outer(ci['trait'])))[-1]
        except Exception:
            tgt_e, src_e = 'a', 'b'
        if tgt_e == src_e: return s.ret(st, err(e))
        return s.convert_err(M, st, th, ci, e)

    def convert_err(s, M, st, th, ci, e):
        """From<E> for the error type of the function's Result: worlds override for their error enums"""
        raise Unmodelled('error conversion in `?`: ' + ci['text'][:160])

    def after(s, M, st, th, k, data, rv): return None

    # ----- closures / fn calls
    def call_then(s, M, st, th, f, args, k, data):
        """call callable f with args, then post-process its return value with continuation k_after"""
        M.push_k(th, 'after', k, data)
        r = M.call_value(st, th, f, args)
        if r is None: return [('push', st)]
        # call_value already produced outcomes relative to the frame below (the k frame): pass them through
        return [('raw', r)]

    def drop_then_ret(s, M, st, th, values, rv):
        vals = [v for v in values if isinstance(v, Agg) and v is not UNIT]
        if not vals: return s.ret(st, rv)
        M.push_k(th, 'after', 'const', (rv,))
        M.push_k(th, 'drop', tuple(vals), None)
        return [('push', st)]

    def t_FnOnce__call_once(s, M, st, th, ci, a): return s._call_closure(M, st, th, ci, a)
    def t_FnMut__call_mut(s, M, st, th, ci, a): return s._call_closure(M, st, th, ci, a)
    def t_Fn__call(s, M, st, th, ci, a): return s._call_closure(M, st, th, ci, a)

    def _call_closure(s, M, st, th, ci, a):
        f = a[0]; extra = a[1].items() if len(a) > 1 and isinstance(a[1], Agg) else []
        r = M.call_value(st, th, f, extra)
        if r is None: return [('push', st)]
        return [('raw', r)]

    # ----- conversions / misc
    def t_Into__into(s, M, st, th, ci, a):
        r = s.convert_into(M, st, th, ci, a[0])
        if r is not None: return r
        # std's blanket impl: <S as Into<T>>::into(x) = <T as From<S>>::from(x); T's From impl may be one of the crate's own
        m = re.match(r'^(?:std::convert::|core::convert::)?Into<(.+)>$', (ci.get('trait') or '').strip())
        if m:
            callee = f'<{m.group(1)} as From<{ci["selfty"]}>>::from'
            fn = M.local_fn(callee, th.stack[-1].fn.crate if th.stack and th.stack[-1].kind == 'mir' else None)
            if fn is not None:
                M.push_mir(st, th, fn, list(a)); return [('push', st)]
            return s._generic_from(M, st, th, m.group(1), a)
        return None
    def t_From__from(s, M, st, th, ci, a):
        r = s.convert_into(M, st, th, ci, a[0])
        if r is not None: return r
        return s._generic_from(M, st, th, ci['selfty'], a)

    def _generic_from(s, M, st, th, target, a):
        """`<U as From<T>>::from(v)` inside generic code, U a bare type parameter (no monomorphisation here): the conversion is
        chosen by the VALUE - the one From impl of the workspace that takes this type, or the reflexive `From<T> for T` when
        there is none.  More than one candidate is not decided (Unmodelled)."""
        if not re.match(r'^[A-Z]\w{0,2}$', target.strip()): return None
        v = a[0]
        vt = v.ty if isinstance(v, Agg) else None
        if vt is None: return s.ret(st, v)                     # scalars / references: only the reflexive impl can be meant
        from .core import type_head
        c = [n for n in M.by_last.get('from', []) if len(M.fns[n].params) == 1 and type_head(M.fns[n].params[0][1]) == vt]
        if not c: return s.ret(st, v)
        if len(c) == 1:
            M.push_mir(st, th, c[0], list(a)); return [('push', st)]
        return None
    def convert_into(s, M, st, th, ci, v): return None

    def t_IntoFuture__into_future(s, M, st, th, ci, a): return s.ret(st, a[0])
    SHIM_ITERS = ('Map', 'Filter', 'FilterMap', 'Chain', 'Flatten', 'FlatMap', 'Enumerate', 'Zip', 'Take', 'Skip', 'TakeWhile', 'SkipWhile',
                  'Inspect', 'Cloned', 'Copied', 'Rev', 'Peekable')

    def p_Option__iter(s, M, st, th, ci, a):
        o = s.tgt(M, st, a[0])
        return s.ret(st, Agg('IntoIter', [Agg('Vec', [a[0].field(('Some', 0))] if o.variant == 'Some' else [])]))
    p_Option__iter_mut = p_Option__iter
    def p_Result__iter(s, M, st, th, ci, a):
        o = s.tgt(M, st, a[0])
        return s.ret(st, Agg('IntoIter', [Agg('Vec', [a[0].field(('Ok', 0))] if o.variant == 'Ok' else [])]))

    def t_IntoIterator__into_iter(s, M, st, th, ci, a):
        v = a[0]
        if isinstance(v, Agg) and v.ty in s.SHIM_ITERS: return s.ret(st, v)
        if isinstance(v, Agg) and v.ty == 'Option': return s.ret(st, Agg('IntoIter', [Agg('Vec', [payload(v)] if v.variant == 'Some' else [])]))
        if isinstance(v, Ref):
            c = s.tgt(M, st, v)
            if isinstance(c, Agg) and c.ty == 'Option': return s.ret(st, Agg('IntoIter', [Agg('Vec', [v.field(('Some', 0))] if c.variant == 'Some' else [])]))
            if isinstance(c, Agg) and c.ty in s.SHIM_ITERS: return s.ret(st, v)        # &mut I is an iterator itself
            if isinstance(c, Agg) and c.ty in ('Vec', 'VecDeque', 'array'): return s.ret(st, Agg('SliceIter', [v, I(0)]))
        if isinstance(v, Agg) and v.ty in ('Vec', 'VecDeque', 'array'): return s.ret(st, Agg('IntoIter', [Agg('Vec', v.items())]))
        if isinstance(v, Agg) and v.ty in ('Drain', 'IntoIter', 'SliceIter', 'Range', 'RangeInclusive'): return s.ret(st, v)
        return None

    def p_RangeInclusive__new(s, M, st, th, ci, a): return s.ret(st, Agg('RangeInclusive', [a[0], a[1], False]))
    def d_RangeInclusive(s, M, st, th, v): return True

    def t_Iterator__next(s, M, st, th, ci, a):
        it = s.tgt(M, st, a[0])
        if isinstance(it, Agg) and it.ty == 'RangeInclusive':
            if it.f[2] is True: return s.ret(st, NONE)
            outs = []
            for st2, more in M.fork_on(st, binop('Lt', it.f[0], it.f[1])):
                cur = M.deref(st2, a[0])
                if more:
                    M.write(st2, a[0], cur.with_field(0, binop('Add', cur.f[0], I(1, width(cur.f[0]))))); outs.append(('ret', st2, some(cur.f[0])))
                else:
                    for st3, last in M.fork_on(st2, binop('Eq', it.f[0], it.f[1])):
                        cur = M.deref(st3, a[0]); M.write(st3, a[0], cur.with_field(2, True))
                        outs.append(('ret', st3, some(cur.f[0]) if last else NONE))
            return outs
        if isinstance(it, Agg) and it.ty == 'Range':
            outs = []
            for st2, more in M.fork_on(st, binop('Lt', it.f[0], it.f[1])):
                if more:
                    cur = M.deref(st2, a[0]); M.write(st2, a[0], cur.with_field(0, binop('Add', cur.f[0], I(1, width(cur.f[0])))))
                    outs.append(('ret', st2, some(cur.f[0])))
                else: outs.append(('ret', st2, NONE))
            return outs
        if it.ty == 'SliceIter':
            c = s.tgt(M, st, it.f[0]); i = it.f[1].v; back = it.f[2].v if 2 in it.f else 0
            if i >= len(c.f) - back: return s.ret(st, NONE)
            M.write(st, a[0], it.with_field(1, I(i + 1)))
            return s.ret(st, some(it.f[0].field(i)))
        if it.ty in ('Drain', 'IntoIter'):
            items = it.f[0].items()
            if not items: return s.ret(st, NONE)
            M.write(st, a[0], it.with_field(0, Agg('Vec', items[1:])))
            return s.ret(st, some(items[0]))
        return None

    def t_DoubleEndedIterator__next_back(s, M, st, th, ci, a):
        it = s.tgt(M, st, a[0])
        if not isinstance(it, Agg): return None
        if it.ty == 'Range':
            outs = []
            for st2, more in M.fork_on(st, binop('Lt', it.f[0], it.f[1])):
                if more:
                    cur = M.deref(st2, a[0]); hi = binop('Sub', cur.f[1], I(1, width(cur.f[1])))
                    M.write(st2, a[0], cur.with_field(1, hi)); outs.append(('ret', st2, some(hi)))
                else: outs.append(('ret', st2, NONE))
            return outs
        if it.ty == 'SliceIter':
            c = s.tgt(M, st, it.f[0]); i = it.f[1].v; back = it.f[2].v if 2 in it.f else 0
            if i >= len(c.f) - back: return s.ret(st, NONE)
            M.write(st, a[0], Agg('SliceIter', [it.f[0], it.f[1], I(back + 1)]))
            return s.ret(st, some(it.f[0].field(len(c.f) - back - 1)))
        if it.ty in ('Drain', 'IntoIter'):
            items = it.f[0].items()
            if not items: return s.ret(st, NONE)
            M.write(st, a[0], it.with_field(0, Agg('Vec', items[:-1])))
            return s.ret(st, some(items[-1]))
        return None

    def t_Iterator__collect(s, M, st, th, ci, a):
        it = a[0]
        if isinstance(it, Agg) and it.ty in ('IntoIter', 'Drain'): return s.ret(st, Agg('Vec', it.f[0].items()))
        return None

    def d_SliceIter(s, M, st, th, v): return True
    def d_Range(s, M, st, th, v): return True
    def d_Drain(s, M, st, th, v): return None      # remaining items are dropped field-wise
    def d_IntoIter(s, M, st, th, v): return None

    def p_Pin__new_unchecked(s, M, st, th, ci, a): return s.ret(st, Agg('Pin', [a[0]]))
    def p_Pin__new(s, M, st, th, ci, a): return s.ret(st, Agg('Pin', [a[0]]))
    def p_Pin__as_mut(s, M, st, th, ci, a):
        p = s.tgt(M, st, a[0]); inner = p.f[0]
        if isinstance(inner, Agg) and inner.ty == 'Box': return s.ret(st, Agg('Pin', [inner.f[0]]))
        return s.ret(st, Agg('Pin', [inner]))
    def p_Pin__get_mut(s, M, st, th, ci, a): return s.ret(st, a[0].f[0])
    def p_Pin__get_unchecked_mut(s, M, st, th, ci, a): return s.ret(st, a[0].f[0])
    def p_Pin__into_inner_unchecked(s, M, st, th, ci, a): return s.ret(st, a[0].f[0])
    def p_Pin__into_inner(s, M, st, th, ci, a): return s.ret(st, a[0].f[0])
    def d_Pin(s, M, st, th, v): return None

    # std::panic::catch_unwind(f): run f; a panic that unwinds up to here is stopped and becomes Err(payload)
    def p___catch_unwind(s, M, st, th, ci, a):
        f = a[0]
        if isinstance(f, Agg) and f.ty == 'AssertUnwindSafe': f = f.f[0]
        M.push_k(th, 'env', 'catch_unwind', ())
        r = M.call_value(st, th, f, [])
        return [('push', st)] if r is None else [('raw', r)]
    p_panic__catch_unwind = p___catch_unwind
    def k_catch_unwind(s, M, st, th, fr, why, rv, data):
        th.stack.pop()
        if why == 'unwind':
            th.panicking = False; st.logev('caught', th.name)
            return [('ret', st, err(Agg('PanicPayload', [])))]
        return [('ret', st, ok(rv))]
    def p___resume_unwind(s, M, st, th, ci, a): return [('panic', st, 'resume_unwind', 'user')]
    p_panic__resume_unwind = p___resume_unwind
    def d_AssertUnwindSafe(s, M, st, th, v): return None
    def d_PanicPayload(s, M, st, th, v): return True

    def p___identity(s, M, st, th, ci, a): return s.ret(st, a[0])            # std::convert::identity
    p_convert__identity = p___identity
    p___must_use = p___identity; p_hint__must_use = p___identity; p___black_box = p___identity; p_hint__black_box = p___identity
    def p___panicking(s, M, st, th, ci, a): return s.ret(st, bool(th.panicking))       # std::thread::panicking
    p_thread__panicking = p___panicking
    def p_mem__forget(s, M, st, th, ci, a): return s.ret(st, UNIT)
    def p_mem__drop(s, M, st, th, ci, a): return s.drop_then_ret(M, st, th, [a[0]], UNIT)
    def p_mem__take(s, M, st, th, ci, a):
        old = s.tgt(M, st, a[0])
        if isinstance(old, Agg) and old.ty in ('Vec', 'VecDeque'): d = Agg(old.ty)
        elif isinstance(old, Agg) and old.ty == 'Option': d = NONE
        elif isinstance(old, I): d = I(0, old.w)
        elif isinstance(old, bool): d = False
        elif isinstance(old, z3.BitVecRef): d = I(0, old.size())
        else: return None
        M.write(st, a[0], d); return s.ret(st, old)
    def p_mem__replace(s, M, st, th, ci, a):
        old = s.tgt(M, st, a[0]); M.write(st, a[0], a[1]); return s.ret(st, old)
    def p_mem__swap(s, M, st, th, ci, a):
        x = s.tgt(M, st, a[0]); y = s.tgt(M, st, a[1]); M.write(st, a[0], y); M.write(st, a[1], x); return s.ret(st, UNIT)

    # ----- comparison traits on machine integers (everything else goes through the crate's own impls / derives)
    _INTS = ('u8', 'u16', 'u32', 'u64', 'u128', 'usize', 'i8', 'i16', 'i32', 'i64', 'i128', 'isize')

    def _int_args(s, M, st, ci, a):
        h = ci['self_head']
        if h not in s._INTS: return None
        vals = [s.tgt(M, st, x) if isinstance(x, Ref) else x for x in a]
        if any(isinstance(v, (Agg, Ref, Opaque)) for v in vals): return None
        return h.startswith('i'), vals

    def _cmp_args(s, M, st, ci, a):
        """operands of a comparison: integers, or std::time::Duration as its total number of nanoseconds (u128)"""
        r = s._int_args(M, st, ci, a)
        if r is not None or ci['self_head'] != 'Duration': return r
        vals = []
        for x in a:
            d = x
            for _ in range(3):
                if isinstance(d, Ref): d = M.deref(st, d)
            if not (isinstance(d, Agg) and d.ty == 'Duration'):
                import os
                if os.environ.get('VERIF_DEBUG'): print('cmp_args: not a Duration:', repr(d)[:200])
                return None
            secs, nanos = d.f[0], d.f[1]
            if isinstance(secs, I) and isinstance(nanos, I): vals.append(I(secs.v * 1000000000 + nanos.v, 128))
            else: vals.append(simp(z3.ZeroExt(64, z(secs)) * z3.BitVecVal(1000000000, 128) + z3.ZeroExt(96, z(nanos))))
        return False, vals

    def _ite(s, c, p, q):
        if isinstance(c, bool): return p if c else q
        return simp(z3.If(c, z(p), z(q)))

    def t_Ord__max(s, M, st, th, ci, a):
        r = s._int_args(M, st, ci, a)
        if r is None: return None
        sg, (x, y) = r; return s.ret(st, s._ite(binop('Gt', x, y, sg), x, y))
    def t_Ord__min(s, M, st, th, ci, a):
        r = s._int_args(M, st, ci, a)
        if r is None: return None
        sg, (x, y) = r; return s.ret(st, s._ite(binop('Lt', x, y, sg), x, y))
    def t_Ord__clamp(s, M, st, th, ci, a):
        r = s._int_args(M, st, ci, a)
        if r is None: return None
        sg, (x, lo, hi) = r; outs = []
        for st2, bad in M.fork_on(st, binop('Gt', lo, hi, sg)):
            if bad: outs.append(('panic', st2, 'assertion failed: min <= max', 'deadpool'))
            else: outs.append(('ret', st2, s._ite(binop('Lt', x, lo, sg), lo, s._ite(binop('Gt', x, hi, sg), hi, x))))
        return outs
    def t_Ord__cmp(s, M, st, th, ci, a):
        r = s._cmp_args(M, st, ci, a)
        if r is None: return None
        sg, (x, y) = r; outs = []
        for st2, lt in M.fork_on(st, binop('Lt', x, y, sg)):
            if lt: outs.append(('ret', st2, mk_enum('Ordering', 'Less'))); continue
            for st3, eq in M.fork_on(st2, binop('Eq', x, y)):
                outs.append(('ret', st3, mk_enum('Ordering', 'Equal' if eq else 'Greater')))
        return outs
    def t_PartialOrd__partial_cmp(s, M, st, th, ci, a):
        r = s.t_Ord__cmp(M, st, th, ci, a)
        if r is None: return None
        return [(k, st2, some(v)) for (k, st2, v) in r]
    def _cmpop(op):
        def f(s, M, st, th, ci, a):
            r = s._cmp_args(M, st, ci, a) if op != 'Eq' else s._int_args(M, st, ci, a)
            if r is None: return None
            sg, (x, y) = r; return s.ret(st, binop(op, x, y, sg))
        return f
    t_PartialOrd__lt = _cmpop('Lt'); t_PartialOrd__le = _cmpop('Le'); t_PartialOrd__gt = _cmpop('Gt'); t_PartialOrd__ge = _cmpop('Ge')
    t_PartialEq__eq = _cmpop('Eq')
    def t_PartialEq__ne(s, M, st, th, ci, a):
        r = s.t_PartialEq__eq(M, st, th, ci, a)          # worlds override eq for their string representation
        if r is None:
            # `ne` is a provided method: the negation of the type's own (derived or hand-written) `eq`
            fn = M.local_fn(ci['text'].replace('>::ne', '>::eq'), th.stack[-1].fn.crate if th.stack and th.stack[-1].kind == 'mir' else None)
            if fn is None: return None
            M.push_k(th, 'after', 'not', None); M.push_mir(st, th, fn, list(a)); return [('push', st)]
        return [(o[0], o[1], b_not(o[2])) + tuple(o[3:]) if o[0] == 'ret' else o for o in r]
    def p_Ordering__is_lt(s, M, st, th, ci, a): return s.ret(st, a[0].variant == 'Less')
    def p_Ordering__is_le(s, M, st, th, ci, a): return s.ret(st, a[0].variant != 'Greater')
    def p_Ordering__is_gt(s, M, st, th, ci, a): return s.ret(st, a[0].variant == 'Greater')
    def p_Ordering__is_ge(s, M, st, th, ci, a): return s.ret(st, a[0].variant != 'Less')
    def p_Ordering__is_eq(s, M, st, th, ci, a): return s.ret(st, a[0].variant == 'Equal')
    def p_Ordering__is_ne(s, M, st, th, ci, a): return s.ret(st, a[0].variant != 'Equal')

    def p_cmp__min(s, M, st, th, ci, a): return s._minmax(M, st, a, True)
    def p_cmp__max(s, M, st, th, ci, a): return s._minmax(M, st, a, False)
    def _minmax(s, M, st, a, mn):
        x, y = a
        if isinstance(x, I) and isinstance(y, I): return s.ret(st, (x if x.v <= y.v else y) if mn else (y if y.v >= x.v else x))
        c = z3.ULE(z(x), z(y))
        return s.ret(st, simp(z3.If(c, z(x), z(y)) if mn else z3.If(c, z(y), z(x))))

    def t_Default__default(s, M, st, th, ci, a):
        h = ci['self_head']
        if h in ('usize', 'u64', 'isize', 'i64'): return s.ret(st, I(0, 64))
        if h in ('u32', 'i32'): return s.ret(st, I(0, 32))
        if h in ('u16',): return s.ret(st, I(0, 16))
        if h in ('u8',): return s.ret(st, I(0, 8))
        if h == 'bool': return s.ret(st, False)
        if h == 'Vec': return s.ret(st, Agg('Vec'))
        if h == 'VecDeque': return s.ret(st, Agg('VecDeque'))
        if h == 'Option': return s.ret(st, NONE)
        if h == 'String': return s.ret(st, Agg('String', [Opaque('str:""')]))
        v = s.default_value(ci['selfty'])
        return None if v is None else s.ret(st, v)

    def default_value(s, tytext):
        """Default::default() of a std type given as text (containers of defaults), None if unknown"""
        t = tytext.strip(); h = type_head(t)
        m = re.match(r'^[^<]*<(.*)>$', t); inner = split_top(m.group(1), ',')[0].strip() if m else None
        if h in ('usize', 'u64', 'isize', 'i64'): return I(0, 64)
        if h in ('u32', 'i32'): return I(0, 32)
        if h == 'bool': return False
        if h in ('Vec', 'VecDeque'): return Agg(h)
        if h == 'Option': return NONE
        if h == 'Atomic' and inner: return Agg('Atomic', [s.default_value(inner)])
        if h in ('AtomicUsize', 'AtomicIsize', 'AtomicU64'): return Agg('Atomic', [I(0, 64)])
        if h == 'AtomicBool': return Agg('Atomic', [False])
        if h == 'Mutex' and inner:
            iv = s.default_value(inner)
            return None if iv is None else Agg('Mutex', [iv, Opaque('unlocked'), False])
        if h == 'HashMap': return Agg('HashMap')
        return None

    def t_Clone__clone(s, M, st, th, ci, a):
        v = s.tgt(M, st, a[0])
        if isinstance(v, Agg) and v.ty == 'Arc': return s.arc_clone(M, st, v)
        r = s.clone_value(M, st, v, strict=False)
        if r is None: return None
        return s.ret(st, r)

    def clone_value(s, M, st, v, strict=True):
        if not isinstance(v, Agg): return v
        if v.ty in ('tuple', 'Option', 'Result', 'Duration', 'Instant', 'String', 'Vec', 'array', '()', 'Metrics', 'Timeouts', 'PoolConfig', 'QueueMode', 'Status') or v.ty in s.copy_types():
            f = {}
            for k, x in v.f.items():
                c = s.clone_value(M, st, x, strict)
                if c is None: return None
                f[k] = c
            return Agg(v.ty, f, v.variant, v.discr)
        if strict: raise Unmodelled('clone of ' + v.ty)
        return None

    def copy_types(s): return ()

    # ======================================================= Arc / Weak
    def p_Arc__new(s, M, st, th, ci, a):
        r = st.alloc(Agg('ArcInner', [a[0], I(1), I(0)]))
        return s.ret(st, Agg('Arc', [Ref(r)]))

    def arc_clone(s, M, st, v):
        r = v.f[0]; inner = M.deref(st, r)
        M.write(st, r, inner.with_field(1, I(inner.f[1].v + 1)))
        return s.ret(st, Agg('Arc', [r]))

    def p_Arc__clone(s, M, st, th, ci, a): return s.arc_clone(M, st, s.tgt(M, st, a[0]))

    def p_Arc__downgrade(s, M, st, th, ci, a):
        v = s.tgt(M, st, a[0]); r = v.f[0]; inner = M.deref(st, r)
        M.write(st, r, inner.with_field(2, I(inner.f[2].v + 1)))
        return s.ret(st, Agg('Weak', [r]))

    def p_Arc__strong_count(s, M, st, th, ci, a):
        v = s.tgt(M, st, a[0]); return s.ret(st, M.deref(st, v.f[0]).f[1])

    def p_Arc__ptr_eq(s, M, st, th, ci, a):
        x = s.tgt(M, st, a[0]); y = s.tgt(M, st, a[1]); return s.ret(st, x.f[0] == y.f[0])

    def p_Weak__upgrade(s, M, st, th, ci, a):
        v = s.tgt(M, st, a[0]); r = v.f[0]
        if r is UNIT: return s.ret(st, NONE)
        inner = M.deref(st, r)
        if inner.f[1].v == 0: return s.ret(st, NONE)
        M.write(st, r, inner.with_field(1, I(inner.f[1].v + 1)))
        return s.ret(st, some(Agg('Arc', [r])))

    def p_Weak__strong_count(s, M, st, th, ci, a):
        v = s.tgt(M, st, a[0]); r = v.f[0]
        return s.ret(st, I(0) if r is UNIT else M.deref(st, r).f[1])
    def p_Weak__weak_count(s, M, st, th, ci, a):
        v = s.tgt(M, st, a[0]); r = v.f[0]
        if r is UNIT: return s.ret(st, I(0))
        inner = M.deref(st, r); return s.ret(st, inner.f[2] if inner.f[1].v > 0 else I(0))
    def p_Arc__weak_count(s, M, st, th, ci, a):
        v = s.tgt(M, st, a[0]); return s.ret(st, M.deref(st, v.f[0]).f[2])
    def p_Weak__new(s, M, st, th, ci, a): return s.ret(st, Agg('Weak', [UNIT]))
    def p_Weak__ptr_eq(s, M, st, th, ci, a):
        x = s.tgt(M, st, a[0]); y = s.tgt(M, st, a[1]); return s.ret(st, x.f[0] == y.f[0])

    def d_Weak(s, M, st, th, v):
        r = v.f[0]
        if r is UNIT: return True
        inner = M.deref(st, r)
        M.write(st, r, inner.with_field(2, I(inner.f[2].v - 1)))
        return True

    def d_Arc(s, M, st, th, v):
        r = v.f[0]; inner = M.deref(st, r); n = inner.f[1].v - 1
        if n < 0: raise InternalError('Arc strong count below zero')
        if n > 0:
            M.write(st, r, inner.with_field(1, I(n))); return True
        payload_v = inner.f[0]
        M.write(st, r, Agg('ArcInner', [UNINIT, I(0), inner.f[2]]))
        st.logev('arc_last_drop', th.name)
        M.push_k(th, 'drop', (payload_v,), None)
        return [('push', st)]

    def d_ArcInner(s, M, st, th, v): return None

    def t_Deref__deref(s, M, st, th, ci, a): return s._deref(M, st, th, ci, a)
    def t_DerefMut__deref_mut(s, M, st, th, ci, a): return s._deref(M, st, th, ci, a)
    def t_AsRef__as_ref(s, M, st, th, ci, a):
        v = s.tgt(M, st, a[0])
        if isinstance(v, Agg) and v.ty == 'Arc': return s.ret(st, v.f[0].field(0))
        # String / str / Vec / slices / paths: the view is the value itself in this representation
        if isinstance(v, Agg) and v.ty in ('String', 'str', 'Vec', 'VecDeque', 'array', 'PathBuf', 'Path', 'OsString'): return s.ret(st, a[0])
        if isinstance(v, Opaque) and v.tag.startswith('str:'): return s.ret(st, a[0])
        if isinstance(v, Ref): return s.ret(st, v)              # &&T: one level of auto-deref
        return None
    t_AsMut__as_mut = t_AsRef__as_ref
    t_Borrow__borrow = t_AsRef__as_ref

    def _deref(s, M, st, th, ci, a):
        v = s.tgt(M, st, a[0])
        if not isinstance(v, Agg): return None
        if v.ty == 'Arc': return s.ret(st, v.f[0].field(0))
        if v.ty == 'MutexGuard': return s.ret(st, v.f[0].field(0))
        if v.ty == 'Box': return s.ret(st, v.f[0])
        if v.ty in ('String',): return s.ret(st, a[0])
        if v.ty in ('Vec',): return s.ret(st, a[0])
        if v.ty == 'Pin': return s.ret(st, v.f[0])
        return None

    def p_Box__new(s, M, st, th, ci, a):
        r = st.alloc(a[0]); return s.ret(st, Agg('Box', [Ref(r)]))

    def p_Box__new_uninit(s, M, st, th, ci, a):
        # vec![..] expands to Box::new_uninit + a write through the raw pointer + box_assume_init_into_vec_unsafe
        r = st.alloc(UNINIT); return s.ret(st, Agg('Box', [Agg('Unique', [Ref(r)])]))

    def p_boxed__box_assume_init_into_vec_unsafe(s, M, st, th, ci, a):
        r = a[0].f[0].f[0]; v = st.heap.pop(r.root)
        arr = v.f[1].f[0].f[0]
        return s.ret(st, Agg('Vec', arr.items()))

    def p_Box__pin(s, M, st, th, ci, a):
        r = st.alloc(a[0]); return s.ret(st, Agg('Pin', [Agg('Box', [Ref(r)])]))

    def d_Box(s, M, st, th, v):
        r = v.f[0]
        if not isinstance(r, Ref) or r.path: return True
        inner = st.heap.pop(r.root, None)
        if isinstance(inner, Agg):
            M.push_k(th, 'drop', (inner,), None); return [('push', st)]
        return True

    # ======================================================= Mutex
    def p_Mutex__new(s, M, st, th, ci, a): return s.ret(st, Agg('Mutex', [a[0], Opaque('unlocked'), False]))

    def p_Mutex__lock(s, M, st, th, ci, a):
        m = s.tgt(M, st, a[0]); owner = m.f[1]
        if owner != Opaque('unlocked'):
            if owner == Opaque('owner:' + th.name):
                st.logev('self_deadlock', th.name)
                st.gset('deadlocks', st.gget('deadlocks', ()) + (th.name,))
                return [('block', st, 'self-deadlock')]
            return [('block', st, 'mutex', a[0])]
        M.write(st, a[0], m.with_field(1, Opaque('owner:' + th.name)))
        g = Agg('MutexGuard', [a[0], bool(th.panicking)])
        if m.f[2] is True: return s.ret(st, err(Agg('PoisonError', [g])))
        return s.ret(st, ok(g))

    def p_Mutex__try_lock(s, M, st, th, ci, a):
        m = s.tgt(M, st, a[0]); owner = m.f[1]
        if owner != Opaque('unlocked'): return s.ret(st, err(mk_enum('TryLockError', 'WouldBlock')))
        return s.p_Mutex__lock(M, st, th, ci, a)

    def p_Mutex__clear_poison(s, M, st, th, ci, a):
        m = s.tgt(M, st, a[0]); M.write(st, a[0], m.with_field(2, False)); return s.ret(st, UNIT)
    def p_Mutex__is_poisoned(s, M, st, th, ci, a): return s.ret(st, s.tgt(M, st, a[0]).f[2])
    def p_Mutex__get_mut(s, M, st, th, ci, a):
        # exclusive access (&mut Mutex): no locking; Err(PoisonError(&mut T)) if poisoned
        m = s.tgt(M, st, a[0])
        return s.ret(st, err(Agg('PoisonError', [a[0].field(0)])) if m.f[2] is True else ok(a[0].field(0)))

    def p_Mutex__into_inner(s, M, st, th, ci, a):
        m = a[0]
        return s.ret(st, err(Agg('PoisonError', [m.f[0]])) if m.f[2] is True else ok(m.f[0]))

    def d_MutexGuard(s, M, st, th, v):
        m = M.deref(st, v.f[0])
        m = m.with_field(1, Opaque('unlocked'))
        if th.panicking and not v.f[1]: m = m.with_field(2, True)     # std: only a panic that started while the guard was held poisons
        M.write(st, v.f[0], m)
        return True

    def d_Mutex(s, M, st, th, v):
        M.push_k(th, 'drop', (v.f[0],), None) if isinstance(v.f[0], Agg) else None
        return [('push', st)] if isinstance(v.f[0], Agg) else True

    def d_PoisonError(s, M, st, th, v): return None

    # ======================================================= atomics
    def p_Atomic__new(s, M, st, th, ci, a): return s.ret(st, Agg('Atomic', [a[0]]))
    p_AtomicUsize__new = p_Atomic__new
    p_AtomicIsize__new = p_Atomic__new
    p_AtomicBool__new = p_Atomic__new
    p_AtomicU64__new = p_Atomic__new

    def p_Atomic__load(s, M, st, th, ci, a): return s.ret(st, s.tgt(M, st, a[0]).f[0])
    def p_Atomic__store(s, M, st, th, ci, a):
        M.write(st, a[0], Agg('Atomic', [a[1]])); return s.ret(st, UNIT)
    def p_Atomic__swap(s, M, st, th, ci, a):
        old = s.tgt(M, st, a[0]).f[0]; M.write(st, a[0], Agg('Atomic', [a[1]])); return s.ret(st, old)
    def p_Atomic__fetch_add(s, M, st, th, ci, a):
        old = s.tgt(M, st, a[0]).f[0]; M.write(st, a[0], Agg('Atomic', [binop('Add', old, a[1])])); return s.ret(st, old)
    def p_Atomic__fetch_sub(s, M, st, th, ci, a):
        old = s.tgt(M, st, a[0]).f[0]; M.write(st, a[0], Agg('Atomic', [binop('Sub', old, a[1])]))
        s.on_atomic_sub(M, st, th, ci, a[0], old, a[1])
        return s.ret(st, old)
    def p_Atomic__fetch_or(s, M, st, th, ci, a):
        old = s.tgt(M, st, a[0]).f[0]; M.write(st, a[0], Agg('Atomic', [binop('BitOr', old, a[1])])); return s.ret(st, old)
    def on_atomic_sub(s, M, st, th, ci, ref, old, n): pass
    def p_Atomic__get_mut(s, M, st, th, ci, a): return s.ret(st, a[0].field(0))         # exclusive access: a plain &mut to the value
    def p_Atomic__into_inner(s, M, st, th, ci, a): return s.ret(st, a[0].f[0])
    def d_Atomic(s, M, st, th, v): return True
    for _n in ('AtomicUsize', 'AtomicIsize', 'AtomicBool', 'AtomicU64'):
        for _m in ('load', 'store', 'swap', 'fetch_add', 'fetch_sub', 'fetch_or', 'get_mut', 'into_inner'):
            locals()[f'p_{_n}__{_m}'] = locals()[f'p_Atomic__{_m}']

    # ======================================================= Vec / VecDeque
    def _seq(s, M, st, ref):
        v = s.tgt(M, st, ref)
        if not (isinstance(v, Agg) and v.ty in ('Vec', 'VecDeque')): raise InternalError(f'sequence op on {v!r}'[:200])
        return v

    def p_Vec__new(s, M, st, th, ci, a): return s.ret(st, Agg('Vec'))
    def p_Vec__with_capacity(s, M, st, th, ci, a): return s.ret(st, Agg('Vec'))
    def p_VecDeque__new(s, M, st, th, ci, a): return s.ret(st, Agg('VecDeque'))
    def p_VecDeque__with_capacity(s, M, st, th, ci, a): return s.ret(st, Agg('VecDeque'))
    def p_Vec__reserve_exact(s, M, st, th, ci, a): return s.ret(st, UNIT)
    p_VecDeque__reserve_exact = p_Vec__reserve_exact
    p_Vec__reserve = p_Vec__reserve_exact
    p_VecDeque__reserve = p_Vec__reserve_exact
    p_Vec__shrink_to_fit = p_Vec__reserve_exact
    p_VecDeque__shrink_to_fit = p_Vec__reserve_exact

    def p_Vec__push(s, M, st, th, ci, a):
        v = s._seq(M, st, a[0]); M.write(st, a[0], Agg(v.ty, v.items() + [a[1]])); return s.ret(st, UNIT)
    p_VecDeque__push_back = p_Vec__push

    def p_VecDeque__push_front(s, M, st, th, ci, a):
        v = s._seq(M, st, a[0]); M.write(st, a[0], Agg(v.ty, [a[1]] + v.items())); return s.ret(st, UNIT)

    def p_Vec__pop(s, M, st, th, ci, a):
        v = s._seq(M, st, a[0]); it = v.items()
        if not it: return s.ret(st, NONE)
        M.write(st, a[0], Agg(v.ty, it[:-1])); return s.ret(st, some(it[-1]))
    p_VecDeque__pop_back = p_Vec__pop

    def p_VecDeque__pop_front(s, M, st, th, ci, a):
        v = s._seq(M, st, a[0]); it = v.items()
        if not it: return s.ret(st, NONE)
        M.write(st, a[0], Agg(v.ty, it[1:])); return s.ret(st, some(it[0]))

    def p_Vec__append(s, M, st, th, ci, a):
        v = s._seq(M, st, a[0]); o = s._seq(M, st, a[1])
        M.write(st, a[0], Agg(v.ty, v.items() + o.items())); M.write(st, a[1], Agg(o.ty)); return s.ret(st, UNIT)
    p_VecDeque__append = p_Vec__append

    def p_Vec__insert(s, M, st, th, ci, a):
        v = s._seq(M, st, a[0]); it = v.items(); i = a[1]
        if not isinstance(i, I): raise Unmodelled('symbolic index in insert')
        if i.v > len(it): return [('panic', st, 'insert index out of bounds', 'deadpool')]
        it.insert(i.v, a[2]); M.write(st, a[0], Agg(v.ty, it)); return s.ret(st, UNIT)
    p_VecDeque__insert = p_Vec__insert

    def p_Vec__truncate(s, M, st, th, ci, a):
        v = s._seq(M, st, a[0]); it = v.items(); n = a[1]
        if not isinstance(n, I): raise Unmodelled('symbolic length in truncate')
        if n.v >= len(it): return s.ret(st, UNIT)
        M.write(st, a[0], Agg(v.ty, it[:n.v])); return s.drop_then_ret(M, st, th, it[n.v:], UNIT)
    p_VecDeque__truncate = p_Vec__truncate

    def p_Vec__split_off(s, M, st, th, ci, a):
        v = s._seq(M, st, a[0]); it = v.items(); n = a[1]
        if not isinstance(n, I): raise Unmodelled('symbolic index in split_off')
        if n.v > len(it): return [('panic', st, 'split_off index out of bounds', 'deadpool')]
        M.write(st, a[0], Agg(v.ty, it[:n.v])); return s.ret(st, Agg(v.ty, it[n.v:]))
    p_VecDeque__split_off = p_Vec__split_off

    def p_Vec__swap(s, M, st, th, ci, a):
        v = s._seq(M, st, a[0]); it = v.items(); i, j = a[1], a[2]
        if not (isinstance(i, I) and isinstance(j, I)): raise Unmodelled('symbolic index in swap')
        if i.v >= len(it) or j.v >= len(it): return [('panic', st, 'swap index out of bounds', 'deadpool')]
        it[i.v], it[j.v] = it[j.v], it[i.v]; M.write(st, a[0], Agg(v.ty, it)); return s.ret(st, UNIT)
    p_VecDeque__swap = p_Vec__swap

    def p_VecDeque__rotate_left(s, M, st, th, ci, a):
        v = s._seq(M, st, a[0]); it = v.items(); n = a[1]
        if not isinstance(n, I): raise Unmodelled('symbolic amount in rotate')
        if n.v > len(it): return [('panic', st, 'rotate amount out of bounds', 'deadpool')]
        M.write(st, a[0], Agg(v.ty, it[n.v:] + it[:n.v])); return s.ret(st, UNIT)
    def p_VecDeque__rotate_right(s, M, st, th, ci, a):
        v = s._seq(M, st, a[0]); it = v.items(); n = a[1]
        if not isinstance(n, I): raise Unmodelled('symbolic amount in rotate')
        if n.v > len(it): return [('panic', st, 'rotate amount out of bounds', 'deadpool')]
        k = len(it) - n.v; M.write(st, a[0], Agg(v.ty, it[k:] + it[:k])); return s.ret(st, UNIT)

    def t_Extend__extend(s, M, st, th, ci, a):
        v = s.tgt(M, st, a[0]); src = a[1]
        if not (isinstance(v, Agg) and v.ty in ('Vec', 'VecDeque')): return None
        if isinstance(src, Agg) and src.ty in ('Vec', 'VecDeque'): items = src.items()
        elif isinstance(src, Agg) and src.ty in ('Drain', 'IntoIter'): items = src.f[0].items()
        else: return None
        M.write(st, a[0], Agg(v.ty, v.items() + items)); return s.ret(st, UNIT)
    p_Vec__extend = t_Extend__extend
    p_VecDeque__extend = t_Extend__extend

    def p_Vec__len(s, M, st, th, ci, a): return s.ret(st, I(len(s._seq(M, st, a[0]).f)))
    p_VecDeque__len = p_Vec__len
    def p_Vec__is_empty(s, M, st, th, ci, a): return s.ret(st, len(s._seq(M, st, a[0]).f) == 0)
    p_VecDeque__is_empty = p_Vec__is_empty

    def p_Vec__clear(s, M, st, th, ci, a):
        v = s._seq(M, st, a[0]); M.write(st, a[0], Agg(v.ty))
        return s.drop_then_ret(M, st, th, v.items(), UNIT)
    p_VecDeque__clear = p_Vec__clear

    def p_VecDeque__remove(s, M, st, th, ci, a):
        v = s._seq(M, st, a[0]); it = v.items(); i = a[1]
        if not isinstance(i, I): raise Unmodelled('symbolic index in remove')
        if i.v >= len(it): return s.ret(st, NONE)
        x = it.pop(i.v); M.write(st, a[0], Agg(v.ty, it)); return s.ret(st, some(x))

    def p_Vec__remove(s, M, st, th, ci, a):
        v = s._seq(M, st, a[0]); it = v.items(); i = a[1]
        if not isinstance(i, I): raise Unmodelled('symbolic index in remove')
        if i.v >= len(it): return [('panic', st, 'Vec::remove index out of bounds', 'deadpool')]
        x = it.pop(i.v); M.write(st, a[0], Agg(v.ty, it)); return s.ret(st, x)

    def p_Vec__swap_remove(s, M, st, th, ci, a):
        v = s._seq(M, st, a[0]); it = v.items(); i = a[1]
        if not isinstance(i, I): raise Unmodelled('symbolic index in swap_remove')
        if i.v >= len(it): return [('panic', st, 'Vec::swap_remove index out of bounds', 'deadpool')]
        x = it[i.v]; last = it.pop()
        if i.v < len(it): it[i.v] = last
        M.write(st, a[0], Agg(v.ty, it)); return s.ret(st, x)

    def p_VecDeque__swap_remove_back(s, M, st, th, ci, a):
        v = s._seq(M, st, a[0]); it = v.items(); i = a[1]
        if not isinstance(i, I): raise Unmodelled('symbolic index in swap_remove_back')
        if i.v >= len(it): return s.ret(st, NONE)
        it[i.v], it[-1] = it[-1], it[i.v]; x = it.pop()
        M.write(st, a[0], Agg(v.ty, it)); return s.ret(st, some(x))

    def p_VecDeque__swap_remove_front(s, M, st, th, ci, a):
        v = s._seq(M, st, a[0]); it = v.items(); i = a[1]
        if not isinstance(i, I): raise Unmodelled('symbolic index in swap_remove_front')
        if i.v >= len(it): return s.ret(st, NONE)
        it[i.v], it[0] = it[0], it[i.v]; x = it.pop(0)
        M.write(st, a[0], Agg(v.ty, it)); return s.ret(st, some(x))

    def p_VecDeque__drain(s, M, st, th, ci, a):
        v = s._seq(M, st, a[0]); M.write(st, a[0], Agg(v.ty)); return s.ret(st, Agg('Drain', [Agg('Vec', v.items())]))
    p_Vec__drain = p_VecDeque__drain

    def p_VecDeque__front(s, M, st, th, ci, a):
        v = s._seq(M, st, a[0]); return s.ret(st, some(a[0].field(0)) if v.f else NONE)
    def p_VecDeque__back(s, M, st, th, ci, a):
        v = s._seq(M, st, a[0]); return s.ret(st, some(a[0].field(len(v.f) - 1)) if v.f else NONE)
    p_VecDeque__front_mut = p_VecDeque__front
    p_VecDeque__back_mut = p_VecDeque__back
    p_Vec__first = p_VecDeque__front
    p_Vec__first_mut = p_VecDeque__front
    p_Vec__last = p_VecDeque__back
    p_Vec__last_mut = p_VecDeque__back
    def p_VecDeque__get(s, M, st, th, ci, a):
        v = s._seq(M, st, a[0]); i = a[1]
        if not isinstance(i, I): raise Unmodelled('symbolic index')
        return s.ret(st, some(a[0].field(i.v)) if i.v < len(v.f) else NONE)
    p_VecDeque__get_mut = p_VecDeque__get
    p_Vec__get = p_VecDeque__get
    p_Vec__get_mut = p_VecDeque__get

    def p_Vec__shrink_to(s, M, st, th, ci, a): return s.ret(st, UNIT)
    def p_Vec__as_slice(s, M, st, th, ci, a): return s.ret(st, a[0])
    p_Vec__as_mut_slice = p_Vec__as_slice
    p_VecDeque__make_contiguous = p_Vec__as_slice
    p_VecDeque__shrink_to = p_Vec__shrink_to

    def t_IndexMut__index_mut(s, M, st, th, ci, a):
        v = s.tgt(M, st, a[0]); i = a[1]
        if not (isinstance(v, Agg) and v.ty in ('Vec', 'VecDeque')): return None
        if not isinstance(i, I): raise Unmodelled('symbolic index')
        if i.v >= len(v.f): return [('panic', st, 'index out of bounds', 'deadpool')]
        return s.ret(st, a[0].field(i.v))
    t_Index__index = t_IndexMut__index_mut

    def p_VecDeque__iter(s, M, st, th, ci, a): return s.ret(st, Agg('SliceIter', [a[0], I(0)]))
    p_Vec__iter = p_VecDeque__iter
    p_VecDeque__iter_mut = p_VecDeque__iter
    p_Vec__iter_mut = p_VecDeque__iter

    def p_VecDeque__retain(s, M, st, th, ci, a): return s._retain(M, st, th, a, False)
    def p_VecDeque__retain_mut(s, M, st, th, ci, a): return s._retain(M, st, th, a, True)
    p_Vec__retain = p_VecDeque__retain
    p_Vec__retain_mut = p_VecDeque__retain_mut

    def _retain(s, M, st, th, a, mut):
        v = s._seq(M, st, a[0])
        M.push_k(th, 'retain', a[0], a[1], 0, 0)
        return [('push', st)]

    def d_Vec(s, M, st, th, v): return None
    def d_VecDeque(s, M, st, th, v): return None

    # ======================================================= time
    def p_Instant__now(s, M, st, th, ci, a):
        t = st.gget('clock', 0) + 1; st.gset('clock', t)
        return s.ret(st, Agg('Instant', [I(t)]))

    def p_Instant__elapsed(s, M, st, th, ci, a):
        ns = st.fresh('elapsed_ns', 32); st.assume(z3.ULT(ns, 1000000000))
        return s.ret(st, Agg('Duration', [st.fresh('elapsed_s'), ns]))

    def p_Duration__as_nanos(s, M, st, th, ci, a):
        d = s.tgt(M, st, a[0]); secs, nanos = d.f[0], d.f[1]
        if isinstance(secs, I) and isinstance(nanos, I): return s.ret(st, I(secs.v * 1000000000 + nanos.v, 128))
        zs = z3.ZeroExt(64, z(secs)); zn = z3.ZeroExt(96, z(nanos))
        return s.ret(st, simp(zs * z3.BitVecVal(1000000000, 128) + zn))

    def _dur_div(s, M, st, a, per_sec, sub_div, bits):
        d = s.tgt(M, st, a[0]); secs, nanos = d.f[0], d.f[1]
        if isinstance(secs, I) and isinstance(nanos, I): return s.ret(st, I(secs.v * per_sec + nanos.v // sub_div, bits))
        zs = z3.ZeroExt(bits - 64, z(secs)); zn = z3.ZeroExt(bits - 32, z3.UDiv(z(nanos), z3.BitVecVal(sub_div, 32)))
        return s.ret(st, simp(zs * z3.BitVecVal(per_sec, bits) + zn))
    def p_Duration__as_millis(s, M, st, th, ci, a): return s._dur_div(M, st, a, 1000, 1000000, 128)
    def p_Duration__as_micros(s, M, st, th, ci, a): return s._dur_div(M, st, a, 1000000, 1000, 128)
    def p_Duration__as_secs(s, M, st, th, ci, a): return s.ret(st, s.tgt(M, st, a[0]).f[0])
    def p_Duration__subsec_nanos(s, M, st, th, ci, a): return s.ret(st, s.tgt(M, st, a[0]).f[1])
    def _dur_sub(s, M, st, a, div):
        n = s.tgt(M, st, a[0]).f[1]
        return s.ret(st, I(n.v // div, 32) if isinstance(n, I) else simp(z3.UDiv(z(n), z3.BitVecVal(div, 32))))
    def p_Duration__subsec_millis(s, M, st, th, ci, a): return s._dur_sub(M, st, a, 1000000)
    def p_Duration__subsec_micros(s, M, st, th, ci, a): return s._dur_sub(M, st, a, 1000)

    def p_Duration__is_zero(s, M, st, th, ci, a):
        d = s.tgt(M, st, a[0]); return s.ret(st, b_and(binop('Eq', d.f[0], I(0)), binop('Eq', d.f[1], I(0, 32))))

    def p_Duration__from_millis(s, M, st, th, ci, a):
        ms = a[0]
        if isinstance(ms, I): return s.ret(st, Agg('Duration', [I(ms.v // 1000), I((ms.v % 1000) * 1000000, 32)]))
        return s.ret(st, Agg('Duration', [simp(z3.UDiv(ms, z3.BitVecVal(1000, 64))), simp(z3.Extract(31, 0, z3.URem(ms, z3.BitVecVal(1000, 64)) * 1000000))]))

    def p_Duration__from_secs(s, M, st, th, ci, a): return s.ret(st, Agg('Duration', [a[0], I(0, 32)]))
    def p_Duration__new(s, M, st, th, ci, a): return s.ret(st, Agg('Duration', [a[0], a[1]]))
    def d_Duration(s, M, st, th, v): return True
    def d_Instant(s, M, st, th, v): return True

    def t_TryInto__try_into(s, M, st, th, ci, a):
        v = a[0]
        if ci['self_head'] == 'usize' and 'isize' in (ci['trait'] or ''):
            if isinstance(v, I):
                return s.ret(st, ok(v) if v.v < (1 << 63) else err(Opaque('TryFromIntError')))
            outs = []
            for st2, big in M.fork_on(st, simp(z3.UGE(v, z3.BitVecVal(1 << 63, 64)))):
                outs.append(('ret', st2, err(Opaque('TryFromIntError')) if big else ok(v)))
            return outs
        return None

    # ======================================================= verification hooks (only present with --cfg deadpool_verif)
    def p___point(s, M, st, th, ci, a):
        name = a[0].tag if isinstance(a[0], Opaque) else str(a[0])
        return [('yield', st, name.replace('str:', '').strip('"'))]

    # ======================================================= num_cpus / logging
    def p___get_physical(s, M, st, th, ci, a):
        v = st.fresh('cpus'); st.assume(z3.And(z3.UGE(v, 1), z3.ULE(v, 1 << 20)))
        return s.ret(st, v)

    # ======================================================= tokio Semaphore
    # Agg('Semaphore', [permits, closed, queue (tuple of ticket Opaques, oldest first), assigned (tuple of tickets)])
    def p_Semaphore__new(s, M, st, th, ci, a):
        n = a[0]
        outs = []
        for st2, big in M.fork_on(st, binop('Gt', n, I(MAX_PERMITS))):
            if big: outs.append(('panic', st2, 'Semaphore::new: permits exceed MAX_PERMITS', 'deadpool'))
            else: outs.append(('ret', st2, Agg('Semaphore', [n, False, (), ()])))
        return outs

    def p_Semaphore__const_new(s, M, st, th, ci, a): return s.p_Semaphore__new(M, st, th, ci, a)

    def p_Semaphore__is_closed(s, M, st, th, ci, a): return s.ret(st, s.tgt(M, st, a[0]).f[1])
    def p_Semaphore__available_permits(s, M, st, th, ci, a): return s.ret(st, s.tgt(M, st, a[0]).f[0])

    def p_Semaphore__close(s, M, st, th, ci, a):
        sem = s.tgt(M, st, a[0])
        # waiters are woken and removed from the queue; permits already assigned to a waiter stay with it
        M.write(st, a[0], Agg('Semaphore', [sem.f[0], True, (), sem.f[3]]))
        st.logev('sem_close', th.name)
        return s.ret(st, UNIT)

    def _try_acquire(s, M, st, th, semref, n):
        outs = []
        for st2, closed in M.fork_on(st, M.deref(st, semref).f[1]):
            if closed:
                outs.append(('ret', st2, err(mk_enum('TryAcquireError', 'Closed')))); continue
            sem = M.deref(st2, semref)
            for st3, enough in M.fork_on(st2, binop('Ge', sem.f[0], n)):
                if not enough:
                    outs.append(('ret', st3, err(mk_enum('TryAcquireError', 'NoPermits')))); continue
                sem3 = M.deref(st3, semref)
                M.write(st3, semref, sem3.with_field(0, binop('Sub', sem3.f[0], n)))
                outs.append(('ret', st3, ok(Agg('SemaphorePermit', [semref, n]))))
        return outs

    def p_Semaphore__try_acquire(s, M, st, th, ci, a): return s._try_acquire(M, st, th, a[0], I(1))

    def p_Semaphore__try_acquire_many(s, M, st, th, ci, a):
        n = a[1]
        n64 = I(n.v, 64) if isinstance(n, I) else simp(z3.ZeroExt(32, n))
        return s._try_acquire(M, st, th, a[0], n64)

    def p_Semaphore__acquire(s, M, st, th, ci, a):
        return s.ret(st, Agg('Acquire', [a[0], Opaque('fresh')]))

    def p_Semaphore__add_permits(s, M, st, th, ci, a):
        return s.sem_add(M, st, th, a[0], a[1], [('ret', UNIT)])

    def p_Semaphore__forget_permits(s, M, st, th, ci, a):
        sem = s.tgt(M, st, a[0]); n = a[1]
        if isinstance(sem.f[0], I) and isinstance(n, I):
            k = min(sem.f[0].v, n.v); M.write(st, a[0], sem.with_field(0, I(sem.f[0].v - k))); return s.ret(st, I(k))
        raise Unmodelled('symbolic forget_permits')

    def sem_add(s, M, st, th, semref, n, then):
        """add n permits: queued waiters are served first (oldest first), the rest goes to the counter.
        returns outcomes; `then` = [('ret', value)]"""
        outs = []
        work = [(st, n)]
        while work:
            st1, n1 = work.pop()
            sem = M.deref(st1, semref)
            if isinstance(n1, I) and n1.v == 0:
                outs.append(('ret', st1, then[0][1])); continue
            if sem.f[2]:
                # there are waiters: need n1 > 0 decided
                forks = M.fork_on(st1, binop('Gt', n1, I(0)))
                for st2, pos in forks:
                    if not pos:
                        outs.append(('ret', st2, then[0][1])); continue
                    sem2 = M.deref(st2, semref)
                    tk = sem2.f[2][0]
                    M.write(st2, semref, Agg('Semaphore', [sem2.f[0], sem2.f[1], sem2.f[2][1:], sem2.f[3] + (tk,)]))
                    st2.logev('sem_assign', tk.tag)
                    work.append((st2, binop('Sub', n1, I(1))))
                continue
            tot = binop('AddWithOverflow', sem.f[0], n1)
            bad = b_or(tot[2], binop('Gt', tot[1], I(MAX_PERMITS)))
            for st2, ovf in M.fork_on(st1, bad):
                if ovf:
                    outs.append(('panic', st2, 'Semaphore::add_permits: permit counter overflow', 'deadpool')); continue
                sem2 = M.deref(st2, semref)
                M.write(st2, semref, sem2.with_field(0, binop('Add', sem2.f[0], n1)))
                outs.append(('ret', st2, then[0][1]))
        return outs

    def p_SemaphorePermit__forget(s, M, st, th, ci, a): return s.ret(st, UNIT)

    def d_SemaphorePermit(s, M, st, th, v):
        n = v.f[1]
        if isinstance(n, I) and n.v == 0: return True
        st.logev('permit_drop', th.name)
        return s.sem_add(M, st, th, v.f[0], n, [('ret', UNIT)])

    def d_Semaphore(s, M, st, th, v): return True

    def poll_Acquire(s, M, st, th, fut, fref):
        semref = fut.f[0]; tk = fut.f[1]
        outs = []
        for st2, closed in M.fork_on(st, M.deref(st, semref).f[1]):
            if closed:
                outs.append(('ret', st2, ready(err(Opaque('AcquireError'))))); continue
            sem = M.deref(st2, semref)
            if tk == Opaque('fresh'):
                for st3, avail in M.fork_on(st2, binop('Gt', sem.f[0], I(0))):
                    sem3 = M.deref(st3, semref)
                    if avail:
                        M.write(st3, semref, sem3.with_field(0, binop('Sub', sem3.f[0], I(1))))
                        M.write(st3, fref, fut.with_field(1, Opaque('done')))
                        outs.append(('ret', st3, ready(ok(Agg('SemaphorePermit', [semref, I(1)])))))
                    else:
                        n = st3.gget('ntickets', 0) + 1; st3.gset('ntickets', n)
                        t = Opaque(f'tk:{n}')
                        M.write(st3, semref, Agg('Semaphore', [sem3.f[0], sem3.f[1], sem3.f[2] + (t,), sem3.f[3]]))
                        M.write(st3, fref, fut.with_field(1, t))
                        st3.logev('sem_enqueue', th.name, t.tag)
                        outs.append(('ret', st3, PENDING))
                continue
            if tk == Opaque('done'): raise InternalError('Acquire polled after completion')
            if tk in sem.f[3]:
                M.write(st2, semref, Agg('Semaphore', [sem.f[0], sem.f[1], sem.f[2], tuple(x for x in sem.f[3] if x != tk)]))
                M.write(st2, fref, fut.with_field(1, Opaque('done')))
                outs.append(('ret', st2, ready(ok(Agg('SemaphorePermit', [semref, I(1)])))))
                continue
            if tk not in sem.f[2]: raise InternalError('waiter neither queued nor assigned on an open semaphore')
            if M.feasible(st2, z(binop('Gt', sem.f[0], I(0)))) and not (isinstance(sem.f[0], I) and sem.f[0].v == 0):
                raise Unmodelled('queued waiter while permits are available (outside the semaphore model)')
            outs.append(('ret', st2, PENDING))
        return outs

    def d_Acquire(s, M, st, th, v):
        tk = v.f[1]
        if tk in (Opaque('fresh'), Opaque('done')): return True
        semref = v.f[0]; sem = M.deref(st, semref)
        if tk in sem.f[2]:
            M.write(st, semref, Agg('Semaphore', [sem.f[0], sem.f[1], tuple(x for x in sem.f[2] if x != tk), sem.f[3]]))
            st.logev('sem_dequeue', tk.tag)
            return True
        if tk in sem.f[3]:
            M.write(st, semref, Agg('Semaphore', [sem.f[0], sem.f[1], sem.f[2], tuple(x for x in sem.f[3] if x != tk)]))
            st.logev('sem_pass_on', tk.tag)
            return s.sem_add(M, st, th, semref, I(1), [('ret', UNIT)])
        return True      # closed: the waiter was removed by close()

    # ======================================================= futures
    def t_Future__poll(s, M, st, th, ci, a):
        pin, cx = a
        fref = pin.f[0] if isinstance(pin, Agg) and pin.ty == 'Pin' else pin
        if isinstance(fref, Agg) and fref.ty == 'Box': fref = fref.f[0]
        fut = M.deref(st, fref)
        if isinstance(fut, Agg) and fut.ty == 'Pin': fref = fut.f[0]; fut = M.deref(st, fref) if isinstance(fref, Ref) else fut
        if isinstance(fut, Agg) and fut.ty == 'Box': fref = fut.f[0]; fut = M.deref(st, fref)
        if isinstance(fut, Agg) and fut.ty.startswith('{coroutine'):
            if fut.discr == 1: return [('panic', st, '`async fn` resumed after completion', 'deadpool')]
            if fut.discr == 2: return [('panic', st, '`async fn` resumed after panicking', 'deadpool')]
            M.push_mir(st, th, fut.variant, [Agg('Pin', [fref]), cx])
            return [('push', st)]
        f = getattr(s, 'poll_' + re.sub(r'\W', '_', fut.ty), None) if isinstance(fut, Agg) else None
        if f is None: raise Unmodelled(f'poll of {fut!r}'[:200])
        return f(M, st, th, fut, fref)


def strip_outer(t):
    t = t.strip()
    i = t.find('<')
    return t[i + 1:-1] if i >= 0 and t.endswith('>') else t


# slice methods reached through Deref (core::slice::<impl [T]>::m): a slice reference is the reference to its Vec / VecDeque / array
for _m in ('get', 'get_mut', 'len', 'is_empty', 'iter', 'iter_mut', 'first', 'first_mut', 'last', 'last_mut', 'swap'):
    setattr(Env, 'p_slice__' + _m, getattr(Env, 'p_Vec__' + _m))
