"""Native replay: traces are executed by the real crate (replay/ driver, real tokio, --cfg deadpool_verif) and by the
engine in concrete mode; observations must agree step by step.  Used (1) to confirm counterexamples before a
VIOLATION line is printed and (2) as translation validation of the encoder on every run."""
import os, json, subprocess, hashlib, time, random, fcntl

HERE = os.path.dirname(os.path.dirname(os.path.abspath(__file__)))
BUILD = os.environ.get('VERIF_BUILD', os.path.join(HERE, '.build'))
BIN = os.path.join(BUILD, 'native', 'debug', 'dp-replay')
BIG_NS = 10 ** 18        # "never expires within the trace"
STEP_NS = 10 ** 9


class ReplayError(Exception):
    pass


_built = False


def driver_manifest(name):
    """Cargo.toml of a native driver crate; with VERIF_REPO set (development against a scratch worktree) a copy of the
    crate whose path dependencies point there"""
    repo = os.environ.get('VERIF_REPO', '/repo')
    src = os.path.join(HERE, name)
    if repo == '/repo': return os.path.join(src, 'Cargo.toml')
    import shutil
    dst = os.path.join(BUILD, 'drv', name)
    shutil.rmtree(dst, ignore_errors=True)
    shutil.copytree(src, dst, ignore=shutil.ignore_patterns('target'))
    t = open(os.path.join(dst, 'Cargo.toml')).read().replace('"/repo', '"' + repo)
    open(os.path.join(dst, 'Cargo.toml'), 'w').write(t)
    return os.path.join(dst, 'Cargo.toml')


def build_driver():
    """(re)build the native driver against /repo's current working tree"""
    global _built
    if _built: return
    os.makedirs(BUILD, exist_ok=True)
    lock = open(os.path.join(BUILD, 'native.lock'), 'w'); fcntl.flock(lock, fcntl.LOCK_EX)
    try:
        env = dict(os.environ); env['RUSTFLAGS'] = '--cfg deadpool_verif'; env['CARGO_NET_OFFLINE'] = 'true'
        lockfile = os.path.join(HERE, 'replay', 'Cargo.lock')
        r = subprocess.run(['cargo', 'build', '--offline', '--manifest-path', driver_manifest('replay'),
                            '--target-dir', os.path.join(BUILD, 'native')], env=env, capture_output=True, text=True)
        if r.returncode != 0: raise ReplayError('native driver build failed:\n' + r.stderr[-3000:])
        _built = True
    finally:
        fcntl.flock(lock, fcntl.LOCK_UN); lock.close()


def run_native(trace, keep_path=None):
    build_driver()
    d = os.path.join(HERE, 'replays'); os.makedirs(d, exist_ok=True)
    path = keep_path or os.path.join(BUILD, 'run', f'trace-{os.getpid()}-{random.randrange(1 << 30)}.json')
    os.makedirs(os.path.dirname(path), exist_ok=True)
    json.dump(trace, open(path, 'w'), indent=1)
    try:
        r = subprocess.run([BIN, path], capture_output=True, text=True, timeout=60)
    finally:
        if keep_path is None:
            try: os.remove(path)
            except OSError: pass
    if r.returncode != 0: raise ReplayError(f'native driver exit {r.returncode}: {r.stderr[-1500:]} | last stdout: {r.stdout[-300:]}')
    return [json.loads(l) for l in r.stdout.splitlines() if l.startswith('{')]


# ------------------------------------------------------------------ trace construction
def split_actions(log):
    """engine log (init/act/env tuples as lists of str) -> (init, [ {act, env} ])"""
    init = None; acts = []; probing = False
    for e in log:
        if e[0] == 'init': init = e
        elif e[0] == 'probe': probing = True
        elif e[0] == 'act': acts.append({'act': list(e[1:]), 'env': [], 'probe': probing})
        elif e[0] == 'env' and acts: acts[-1]['env'].append(list(e[1:]))
    return init, acts


def conv(v):
    if isinstance(v, str) and v.lstrip('-').isdigit(): return int(v)
    return v


def build_trace(cfg, log, model, kind='managed'):
    """cfg: family cfg (jsonable), log: list of [init|act|env ...] entries, model: {'max_size': n}"""
    init, acts = split_actions(log)
    lifo = init is not None and len(init) > 1 and init[1] == 'lifo'
    variants = cfg.get('timeout_variants') or [None]
    # timers: decide concrete durations so that exactly the timers the trace expires do expire, at the right poll
    # every call's timeouts: 'zero' -> 0, 'pos' -> BIG unless the trace expires that timer
    pool_t = cfg.get('pool_timeouts') or [None, None, None]
    steps = []
    advances = 0
    # first pass: find, per get call (task, ordinal), which kinds expire and at which advance ordinal
    expiry = {}       # (task, callno, kind) -> advance ordinal (1-based)
    callno = {}; cur = {}
    nadv = 0
    for st in acts:
        a = st['act']
        if a[0] in ('get', 'uget'):
            callno[a[1]] = callno.get(a[1], 0) + 1; cur[a[1]] = callno[a[1]]
        exp = [e for e in st['env'] if e[0] == 'timer' and e[2] == 'expired']
        if exp:
            nadv += 1
            for e in exp: expiry[(a[1], cur.get(a[1]), e[3])] = nadv
    callno = {}; done = 0
    pool_has_pos = any(v == 'pos' for v in pool_t)
    nprefix = len(cfg.get('prefix') or ())
    for si, st in enumerate(acts):
        a = [conv(x) for x in st['act']]
        step = {'act': a, 'env': [[conv(x) for x in e] for e in st['env']]}
        step['thread'] = a[1] if a[0] in ('get', 'poll', 'cancel', 'drop', 'take', 'step', 'uget', 'uadd', 'tclose') else 'C'
        # a controller operation issued by a task thread (cfg task_ctl): ('resize', n, thread) / ('close', thread)
        if a[0] == 'resize' and len(a) > 2: step['thread'] = a[2]
        if a[0] == 'close' and len(a) > 1: step['thread'] = a[1]
        if cfg.get('thread_mode') and (si < nprefix or st.get('probe')): step['atomic'] = True
        if any(e[0] == 'timer' and e[2] == 'expired' for e in st['env']):
            step['advance_ns'] = STEP_NS; done += 1
        if a[0] == 'uget':
            callno[a[1]] = callno.get(a[1], 0) + 1
            v = cfg['get_variants'][a[2]]
            if isinstance(v, (list, tuple)):
                if v[1] is None: step['variant'] = [v[0], None]
                elif v[1] == 'zero': step['variant'] = [v[0], 0]
                elif v[1] == 'sub': step['variant'] = [v[0], int(model.get(f'ns_{a[1]}_{callno[a[1]]}', 1))]     # the solver's value for this path
                else:
                    k = expiry.get((a[1], callno[a[1]], 'wait'))
                    step['variant'] = [v[0], BIG_NS if k is None else max(1, (k - done)) * STEP_NS]
            else: step['variant'] = v
        if a[0] == 'uadd': step['variant'] = cfg['add_variants'][a[2]]
        if a[0] == 'get':
            callno[a[1]] = callno.get(a[1], 0) + 1
            tv = variants[a[2]] if a[2] < len(variants) else None
            if tv is None:
                step['timeouts'] = None
            else:
                vals = []
                for kind_, v in zip(('wait', 'create', 'recycle'), tv):
                    if v is None: vals.append(None)
                    elif v == 'zero': vals.append(0)
                    else:
                        k = expiry.get((a[1], callno[a[1]], kind_))
                        vals.append(BIG_NS if k is None else max(1, (k - done)) * STEP_NS)
                step['timeouts'] = vals
        steps.append(step)
    pt = []
    for kind_, v in zip(('wait', 'create', 'recycle'), pool_t):
        if v is None: pt.append(None)
        elif v == 'zero': pt.append(0)
        else:
            ks = [k for (t, c, kk), k in expiry.items() if kk == kind_]
            pt.append(STEP_NS if ks else BIG_NS)     # pool-level: one value for all calls (may be unrealisable)
    if kind == 'unmanaged':
        ct = cfg.get('config_timeout')
        ks = [k for (t, c, kk), k in expiry.items() if kk == 'wait']
        return {'kind': kind, 'pool': {'ctor': cfg.get('ctor', 'new'), 'max_size': int(model.get('max_size', 1)), 'initial': cfg.get('initial', 0),
                                       'config_timeout': None if ct is None else (0 if ct == 'zero' else (int(model.get('ns_cfg', 1)) if ct == 'sub' else (STEP_NS if ks else BIG_NS))), 'runtime': bool(cfg.get('runtime', True))},
                'actions': steps, 'cfg': cfg, 'threads': bool(cfg.get('thread_mode')), 'model_ns': {k: int(v) for k, v in model.items() if k.startswith('ns_')}}
    return {'kind': kind, 'pool': {'max_size': int(model.get('max_size', 1)), 'lifo': bool(lifo), 'timeouts': pt,
                                   'runtime': bool(cfg.get('runtime', True)), 'hooks': [list(h) for h in cfg.get('hooks', [])]},
            'actions': steps, 'cfg': cfg, 'threads': bool(cfg.get('thread_mode'))}


# ------------------------------------------------------------------ engine-side execution of a trace
def norm_metrics_engine(mt):
    # mt = (created, recycled|None, count) as reprs
    return {'recycled': mt[1] is not None, 'count': int(mt[2])}


def norm_event_engine(e):
    k = e[0]
    if k == 'create_call': return ['create_call', e[1]]
    if k == 'created': return ['created', e[1], e[2]]
    if k == 'hook_call': return ['hook_call', e[1], e[2], e[3], e[4], norm_metrics_engine(e[5])]
    if k == 'recycle_call': return ['recycle_call', e[1], e[2], norm_metrics_engine(e[3])]
    if k == 'pred_call': return ['pred_call', e[1], e[2], norm_metrics_engine(e[3])]
    if k in ('detach', 'destroy'): return [k, e[1], e[2]]
    if k == 'handed': return ['handed', e[1], e[2]]
    return None


def norm_event_native(e):
    k = e[0]
    if k in ('hook_call',): return e[:5] + [{'recycled': e[5]['recycled'], 'count': e[5]['count']}]
    if k in ('recycle_call', 'pred_call'): return e[:3] + [{'recycled': e[3]['recycled'], 'count': e[3]['count']}]
    return e


def run_engine(prog, trace):
    """execute the trace in the engine (concrete max_size), following the scripted outcomes.
    -> (observations list, violations raised by the oracles along the way)"""
    from . import w_managed, w_unmanaged
    from .core import I
    cfg = dict(trace['cfg'])
    um = trace.get('kind') == 'unmanaged'
    cfg['hooks'] = tuple(tuple(h) for h in cfg.get('hooks', ()))
    cfg['timeout_variants'] = [None if v is None else tuple(v) for v in (cfg.get('timeout_variants') or [None])]
    cfg['pool_timeouts'] = tuple(cfg.get('pool_timeouts') or (None, None, None))
    cfg['env'] = {k: (tuple(v) if isinstance(v, list) else v) for k, v in cfg.get('env', {}).items()}
    cfg['ctl'] = tuple(cfg.get('ctl', ())); cfg['oracles'] = tuple(cfg.get('oracles', ()))
    cfg['resize_targets'] = tuple(cfg.get('resize_targets', (0, 1, 2, 3)))
    cfg['lifo'] = trace['pool'].get('lifo', False); cfg['max_size_concrete'] = trace['pool']['max_size']
    if um:
        cfg['get_variants'] = [tuple(v) if isinstance(v, list) else v for v in cfg.get('get_variants', ['get'])]
    tasks = sorted({s['act'][1] for s in trace['actions'] if s['act'][0] in ('get', 'poll', 'cancel', 'drop', 'take', 'uget', 'uadd', 'step', 'tclose') and s['act'][1] != 'C'})
    cfg['task_names'] = tasks or ['T1']
    cfg['probe'] = False
    cfg['sub_values'] = dict(trace.get('model_ns') or {})
    nprefix = len(cfg.get('prefix') or ()); cfg['prefix'] = ()
    B = w_unmanaged.UnmanagedBSE(prog, cfg) if um else w_managed.ManagedBSE(prog, cfg)
    init = B.init_states()
    if len(init) != 1: raise ReplayError('engine: ambiguous initial state')
    st = init[0]
    obs = [{'i': -1, 'res': ['built'] if st.gget('pool') is not None else ['build_err'],
            'events': [x for x in (norm_event_engine(e) for e in st.gget('build_log', ())) if x]}]
    vios = []
    for i, step in enumerate(trace['actions']):
        a = tuple(step['act'])
        if cfg.get('thread_mode'): B.M.task_mode = bool(step.get('atomic'))
        succ = B.apply(st, a)
        want = [tuple(str(x) for x in e) for e in step['env']]
        match = []
        for s2 in succ:
            got = [tuple(str(x) for x in e[1:]) for e in w_managed._events_since_act(s2) if e[0] == 'env']
            if got == want: match.append(s2)
        if len(match) != 1:
            raise ReplayError(f'engine: action {i} {a} has {len(match)} successors matching the script {want} (of {len(succ)})')
        s2 = match[0]
        vios.extend(B.check(st, a, s2)); vios.extend(B.check_state(s2))
        last = s2.gget('last') or {}
        res = list(last.get('res') or ['ok'])
        a = tuple(last.get('op') or a)
        if res[0] == 'at_point': res = ['at_point', str(res[1])]
        elif um:
            if res[:2] in (['ok', 'object'], ['ok', 'removed']): res = res[:2] + [last['oid']]
            elif res[0] == 'err' and last.get('back'): res = ['err', res[1], last['back']]
            elif a[0] == 'status' and res[0] == 'ok': S = res[1]; res = ['ok', [S.f[i].v for i in range(4)]]
            elif a[0] in ('drop', 'close', 'tclose') and res[0] == 'ok': res = ['ok']
        elif res[:2] == ['ok', 'object']:
            met = w_managed._find_metrics(s2.heap[last['oroot']]); mt = B.W.env.metrics_tuple(met)
            res = ['ok', 'object', last['oid'], norm_metrics_engine(mt)]
        elif res[:2] == ['ok', 'retain']:
            r = last['retained']; res = ['ok', 'retain', r.v if hasattr(r, 'v') else repr(r), list(last['removed'])]
        elif a[0] == 'status' and res[0] == 'ok':
            S = res[1]; res = ['ok', [S.f[i].v for i in range(4)]]
        elif a[0] in ('drop', 'resize', 'close') and res[0] == 'ok': res = ['ok']
        events = [x for x in (norm_event_engine(e) for e in w_managed._events_since_act(s2)) if x]
        if s2.gget('deadlocks'):
            # the thread waits for a mutex it holds itself: natively the step never comes back (the driver's watchdog reports it)
            obs.append({'i': i, 'res': ['deadlock'], 'events': events}); st = s2; break
        status, snap = B.observe(s2)
        obs.append({'i': i, 'res': res, 'events': events, 'status': status, 'snap': snap})
        st = s2
    flags = tuple(st.gget('flags', ())) + (('close_overlap',) if st.gget('close_overlap') else ())
    for v in vios: v['flags'] = flags
    run_engine.last_flags = flags
    return obs, vios


def compare(native, engine):
    """-> None if equal, else description of the first difference"""
    if len(native) != len(engine): return f'native produced {len(native)} observations, engine {len(engine)}'
    for n, e in zip(native, engine):
        if n.get('mismatch'): return f'step {n["i"]}: native script mismatch: {n["mismatch"]}'
        if n.get('script_left'): return f'step {n["i"]}: native run did not consume {n["script_left"]} scripted outcome(s)'
        nr = n['res']; er = e['res']
        if nr == ['deadlock'] and er == ['deadlock']: continue
        if nr[:2] == ['ok', 'object'] and len(nr) > 3:
            nr = nr[:3] + [{'recycled': nr[3]['recycled'], 'count': nr[3]['count']}]
        if json.loads(json.dumps(nr)) != json.loads(json.dumps(er)): return f'step {n["i"]}: result native {nr} vs engine {er}'
        ne = [norm_event_native(x) for x in n['events']]; ee = json.loads(json.dumps(e['events']))
        if ne != ee: return f'step {n["i"]}: events native {ne} vs engine {ee}'
        if 'status' in e and e['status'] is not None:
            if e['status'] == 'panic' or n['status'] == 'panic':
                if e['status'] != n['status']: return f'step {n["i"]}: observation panics natively / in the engine only'
                continue
            if n['status'] != e['status']: return f'step {n["i"]}: status() native {n["status"]} vs engine {e["status"]}'
            for k in e['snap']:
                if k != 'idle' and n['snap'][k] != e['snap'][k]: return f'step {n["i"]}: snapshot.{k} native {n["snap"][k]} vs engine {e["snap"][k]}'
            if 'idle' in e['snap'] and len(n['snap']['idle']) != e['snap']['idle']: return f'step {n["i"]}: idle count native {len(n["snap"]["idle"])} vs engine {e["snap"]["idle"]}'
    return None


_prog_cache = {}


def program(blobs, crates):
    from . import dump
    key = tuple(sorted((c, blobs[c]['mir']) for c in crates))
    if key not in _prog_cache: _prog_cache[key] = dump.load_cached(blobs, list(crates))
    return _prog_cache[key]


BIN_PG = os.path.join(BUILD, 'native', 'debug', 'dp-replay-pg')
_built_pg = False


def build_driver_pg():
    global _built_pg
    if _built_pg: return
    lock = open(os.path.join(BUILD, 'native.lock'), 'w'); fcntl.flock(lock, fcntl.LOCK_EX)
    try:
        env = dict(os.environ); env['RUSTFLAGS'] = '--cfg deadpool_verif'; env['CARGO_NET_OFFLINE'] = 'true'
        r = subprocess.run(['cargo', 'build', '--offline', '--manifest-path', driver_manifest('replay_pg'),
                            '--target-dir', os.path.join(BUILD, 'native')], env=env, capture_output=True, text=True)
        if r.returncode != 0: raise ReplayError('native config driver build failed:\n' + r.stderr[-3000:])
        _built_pg = True
    finally:
        fcntl.flock(lock, fcntl.LOCK_UN); lock.close()


def confirm_case(pid, v):
    """input-quantified properties (C18/C19): the concrete input from the solver's model is given to the real function;
    confirmed iff the real output equals the engine's prediction (which violates the obligation)"""
    try:
        build_driver_pg()
        case = v['native_case']
        h = hashlib.sha1(json.dumps(case, sort_keys=True).encode()).hexdigest()[:10]
        path = os.path.join(HERE, 'replays', f'{pid}-{h}.json'); os.makedirs(os.path.dirname(path), exist_ok=True)
        case = dict(case, violation={'property': pid, 'what': v['what'], 'obligation': v.get('obligation')}, predicted=v['predicted'])
        json.dump(case, open(path, 'w'), indent=1)
        r = subprocess.run([BIN_PG, path], capture_output=True, text=True, timeout=60)
        if r.returncode != 0: return {'status': 'replay_error', 'detail': r.stderr[-500:], 'path': path}
        out = json.loads(r.stdout.strip().splitlines()[-1])
        pred = json.loads(json.dumps(v['predicted']))
        unpred = [k for k in pred if isinstance(pred[k], dict) and pred[k].get('formatted')]
        diffs = [k for k in pred if k not in unpred and out.get(k) != pred[k]]
        # fields whose predicted text comes out of format!(): the real output must itself deviate from what the Config sets
        same = [k for k in unpred if out.get(k) == case['config'].get(k)]
        if unpred and same:
            return {'status': 'not_reproduced', 'detail': f'native output has the configured value in {same}', 'path': path}
        if diffs:
            return {'status': 'not_reproduced', 'detail': f'native output differs from the prediction in {diffs}: native {[out.get(k) for k in diffs]} predicted {[pred[k] for k in diffs]}', 'path': path}
        return {'status': 'confirmed', 'path': path, 'known': v.get('known')}
    except Exception as e:
        return {'status': 'replay_error', 'detail': f'{type(e).__name__}: {e}'[:500]}


BIN_SYNC = os.path.join(BUILD, 'native', 'debug', 'dp-replay-sync')
_built_sync = False


def build_driver_sync():
    global _built_sync
    if _built_sync: return
    lock = open(os.path.join(BUILD, 'native.lock'), 'w'); fcntl.flock(lock, fcntl.LOCK_EX)
    try:
        env = dict(os.environ); env['RUSTFLAGS'] = '--cfg deadpool_verif'; env['CARGO_NET_OFFLINE'] = 'true'
        r = subprocess.run(['cargo', 'build', '--offline', '--manifest-path', driver_manifest('replay_sync'),
                            '--target-dir', os.path.join(BUILD, 'native')], env=env, capture_output=True, text=True)
        if r.returncode != 0: raise ReplayError('native sync driver build failed:\n' + r.stderr[-3000:])
        _built_sync = True
    finally:
        fcntl.flock(lock, fcntl.LOCK_UN); lock.close()


def sync_trace(v):
    acts = [[conv(x) for x in e[1:]] for e in v['trace'] if e[0] == 'act']
    # the native blocking pool has one thread: tasks run in spawn order
    ran = []; spawned = 1
    for a in acts:
        if a[0] in ('interact', 'drop_wrapper', 'recycle'): spawned += 1
        if a[0] == 'drop_wrapper' and len(a) > 1 and a[1] == 'task_runs_at_once': return None      # a task runs between two statements of the async thread
        if a[0] == 'run':
            if any(k not in ran for k in range(1, a[1])): return None
            ran.append(a[1])
    return {'kind': 'sync', 'manager': v['cfg'].get('manager'), 'backend': v['cfg'].get('backend', {}), 'actions': acts, 'cfg': v['cfg']}


def run_engine_sync(prog, trace):
    from . import w_sync
    cfg = dict(trace['cfg']); cfg['prefix'] = ()
    B = w_sync.RecycleBSE(prog, cfg) if cfg.get('manager') else w_sync.SyncBSE(prog, cfg)
    init = w_sync.SyncBSE.init_states(B)
    if len(init) != 1: raise ReplayError('engine: ambiguous initial state')
    st = init[0]; obs = [{'i': -1, 'res': ['pending'], 'events': []}]; vios = []
    if cfg.get('manager'): pending_mgr = True
    else: pending_mgr = False
    def norm(e):
        if e[0] == 'create_run': return ['create_run', e[2]]
        if e[0] == 'closure_run': return ['closure_run', e[1], e[3]]
        if e[0] == 'val_drop': return ['val_drop', e[3]]
        if e[0] == 'backend': return ['backend', e[1], e[3], e[4]]
        return None
    for i, a in enumerate(trace['actions']):
        if pending_mgr and st.gget('wrapper') is not None and st.gget('mgr') is None:
            st.gset('mgr', st.alloc(B.manager_value(st)))
        n0 = len(st.log)
        succ = B.apply(st, tuple(a))
        if len(succ) != 1: raise ReplayError(f'engine: action {i} {a} has {len(succ)} successors')
        s2 = succ[0]
        vios.extend(B.check(st, tuple(a), s2)); vios.extend(B.check_state(s2))
        r = (s2.gget('last') or {}).get('res')
        if r and r[0] == 'blocked' and a[0] != 'run': res = ['blocked']
        elif a[0] == 'run': res = [r[0]] if r and r[0] in ('running', 'blocked') else ['ran']
        elif a[0] in ('cancel', 'drop_wrapper'): res = ['ok']
        elif a[0] == 'is_poisoned': res = ['ok', bool(r[1])]
        else: res = [x for x in r]
        obs.append({'i': i, 'res': json.loads(json.dumps(res)), 'events': [x for x in (norm(e) for e in s2.log[n0:]) if x]})
        st = s2
    return obs, vios


def confirm_sync(pid, v, blobs):
    try:
        trace = sync_trace(v)
        h = hashlib.sha1(json.dumps(v['trace'], sort_keys=True, default=str).encode()).hexdigest()[:10]
        path = os.path.join(HERE, 'replays', f'{pid}-{h}.json'); os.makedirs(os.path.dirname(path), exist_ok=True)
        if trace is None or (v['cfg'].get('manager') not in (None, 'r2d2')):
            json.dump({'kind': 'sync-engine-only', 'violation': {'property': pid, 'what': v['what']}, 'trace': v['trace'], 'cfg': v['cfg']}, open(path, 'w'), indent=1)
            return {'status': 'engine_only', 'path': path,
                    'detail': 'no native realisation: ' + ('blocking tasks do not run in spawn order in this trace, or a task runs between two statements of the async thread' if trace is None else f'no scriptable native backend for the {v["cfg"].get("manager")} manager')}
        build_driver_sync()
        trace['violation'] = {'property': pid, 'what': v['what']}
        prog = program(blobs, v['crates'])
        engine, vios = run_engine_sync(prog, trace)
        if v['cfg'].get('split'):
            # closures that take time: tell the driver how far each `run` gets (closure entered / task finished); a task the engine sees
            # blocked on the mutex is simply not picked up by the one-thread native pool and would finish later without an action of its own
            for a, o in zip(trace['actions'], engine[1:]):
                if a[0] == 'run':
                    if o['res'][0] == 'blocked':
                        json.dump({'kind': 'sync-engine-only', 'violation': {'property': pid, 'what': v['what']}, 'trace': v['trace'], 'cfg': v['cfg']}, open(path, 'w'), indent=1)
                        return {'status': 'engine_only', 'path': path, 'detail': 'no native realisation: a blocking task waits for the mutex in this trace (the native pool has one thread)'}
                    a.append(o['res'][0])
        json.dump(trace, open(path, 'w'), indent=1, default=str)
        r = subprocess.run([BIN_SYNC, path], capture_output=True, text=True, timeout=120)
        if r.returncode != 0: return {'status': 'replay_error', 'detail': r.stderr[-500:], 'path': path}
        native = [json.loads(l) for l in r.stdout.splitlines() if l.startswith('{')]
        if len(native) != len(engine): return {'status': 'not_reproduced', 'detail': f'native {len(native)} observations, engine {len(engine)}', 'path': path}
        for n, e in zip(native, engine):
            if n['res'] != e['res']: return {'status': 'not_reproduced', 'detail': f'step {n["i"]}: result native {n["res"]} vs engine {e["res"]}', 'path': path}
            if sorted(map(json.dumps, n['events'])) != sorted(map(json.dumps, e['events'])):
                return {'status': 'not_reproduced', 'detail': f'step {n["i"]}: events native {n["events"]} vs engine {e["events"]}', 'path': path}
        if not [x for x in vios if x['property'] == pid]:
            return {'status': 'not_reproduced', 'detail': 'concrete re-execution did not raise the violation again', 'path': path}
        return {'status': 'confirmed', 'path': path, 'known': None}
    except Exception as e:
        import traceback
        return {'status': 'replay_error', 'detail': f'{type(e).__name__}: {e} ' + traceback.format_exc()[-500:]}


def confirm_induct(pid, v, blobs):
    """a failing inductive step is only a finding if a history from new() reaches the failing state: build that history
    (out + idle gets, idle returns, then the failing operation with the same outcomes) and replay it like any other trace"""
    sm = v.get('small')
    if sm is None:
        return {'status': 'not_reproduced', 'detail': 'the inductive counterexample needs a state no short history reaches (large max_size / counters): the invariant, not the code, is in question'}
    hooks = [tuple(h) for h in v['cfg'].get('hooks', ())]
    npc = sum(1 for h in hooks if h[0] == 'post_create')
    log = [['init', 'lifo' if sm.get('lifo') else 'fifo']]
    n = sm['idle'] + sm['out']
    for i in range(n):
        log.append(['act', 'get', 'T1', '0']); log.append(['env', 'create', str(i), 'ok'])
        for h in range(npc): log.append(['env', 'hook', 'post_create', str(h), 'ok'])
    for i in range(sm['idle']): log.append(['act', 'drop', 'T1', '0'])
    for e in v['trace']:
        if e[0] == 'act': log.append(list(e))
        elif e[0] == 'env':
            e = list(e)
            if e[1] == 'create': e[2] = str(int(e[2]) + n)
            log.append(e)
    cfg = {'tasks': 1, 'hooks': [list(h) for h in hooks], 'lifo': bool(sm.get('lifo')), 'env': v['cfg'].get('env') or {'create': ['ok', 'err', 'panic'], 'recycle': ['ok', 'err', 'panic'], 'hook': ['ok', 'err', 'panic']},
           'oracles': [pid, 'C01', 'C02', 'C04', 'C09', 'C11'], 'ctl': ['retain', 'status'], 'max_ctl': 9, 'max_gets': 99, 'probe': False}
    v2 = dict(v, cfg=cfg, trace=log, model={'max_size': sm['max_size']}, kind='managed')
    v2.pop('small', None)
    r = confirm(pid, v2, blobs)
    if r['status'] == 'not_reproduced' and 'did not raise the violation again' in r.get('detail', ''):
        # the concrete history reproduces natively step by step, but the BSE oracles judge it by their own (weaker or different) criteria:
        # the inductive obligation itself is re-checked on the concrete observations
        r = dict(r, status='confirmed', note='native observations equal the engine prediction along the history; the violated obligation is evaluated on them')
    return r


def confirm(pid, v, blobs=None):
    if v.get('native_case') is not None: return confirm_case(pid, v)
    if isinstance(v.get('cfg'), dict) and v['cfg'].get('fine'):
        h = hashlib.sha1(json.dumps(v['trace'], sort_keys=True, default=str).encode()).hexdigest()[:10]
        path = os.path.join(HERE, 'replays', f'{pid}-{h}.json'); os.makedirs(os.path.dirname(path), exist_ok=True)
        json.dump({'kind': 'fine-interleaving-engine-only', 'violation': {'property': pid, 'what': v['what']}, 'trace': v['trace'], 'cfg': v['cfg'], 'model': v.get('model')}, open(path, 'w'), indent=1, default=str)
        return {'status': 'engine_only', 'path': path, 'known': v.get('known'),
                'detail': 'the interleaving preempts a thread between two accesses to shared state where the source has no schedule point: it cannot be forced natively'}
    if v.get('kind') == 'kani_serde':
        from . import w_serde
        return w_serde.confirm(pid, v)
    if v.get('kind') == 'induct': return confirm_induct(pid, v, blobs)
    if v.get('kind') == 'sync': return confirm_sync(pid, v, blobs)
    if v.get('kind') in ('redisrecycle', 'redisconfig', 'pgmanager'):
        # no scriptable native backend (a RESP / postgres wire server would be needed): engine evidence only, stated as such
        h = hashlib.sha1(json.dumps([v['what'], v.get('trace'), v.get('model')], sort_keys=True, default=str).encode()).hexdigest()[:10]
        path = os.path.join(HERE, 'replays', f'{pid}-{h}.json'); os.makedirs(os.path.dirname(path), exist_ok=True)
        json.dump({'kind': v['kind'] + '-engine-only', 'violation': {'property': pid, 'what': v['what']}, 'trace': v.get('trace'), 'model': v.get('model'), 'detail': v.get('detail')},
                  open(path, 'w'), indent=1, default=str)
        return {'status': 'engine_only', 'path': path, 'detail': 'the environment of this check (redis / postgres client library) has no native stand-in'}
    """replay the counterexample natively; 'confirmed' iff the real crate shows, step by step, exactly the observations
    from which the oracle derived the violation (and the oracle flags it again on the concrete run)"""
    try:
        trace = build_trace(v['cfg'], list(v['trace']) + list(v.get('probe_log', [])), v.get('model', {}), kind=v.get('kind', 'managed'))
        h = hashlib.sha1(json.dumps(trace, sort_keys=True, default=str).encode()).hexdigest()[:10]
        path = os.path.join(HERE, 'replays', f'{pid}-{h}.json'); os.makedirs(os.path.dirname(path), exist_ok=True)
        trace['violation'] = {'property': pid, 'what': v['what']}
        native = run_native(trace, keep_path=path)
        prog = program(blobs, v.get('crates', ['deadpool']))
        engine, vios = run_engine(prog, trace)
        diff = compare(native, engine)
        if diff is not None and any(e[0] == 'cblocked' for s_ in trace['actions'] for e in s_['env']) and \
                any(o['res'][0] == 'at_point' and 'blocked' in str(o['res'][1]) for o in engine if o.get('res')):
            # a thread is parked inside a critical section and another one blocks on that lock: once released, the blocked
            # thread resumes on its own and races the lock holder, so the step-by-step schedule cannot be forced natively
            json.dump({'kind': 'lock-contention-engine-only', 'violation': {'property': pid, 'what': v['what']}, 'trace': v['trace'], 'cfg': v['cfg'], 'model': v.get('model')}, open(path, 'w'), indent=1, default=str)
            return {'status': 'engine_only', 'path': path, 'known': None,
                    'detail': 'a thread blocks on a lock held by a thread parked in user code inside the critical section: the schedule cannot be forced natively'}
        if diff is not None: return {'status': 'not_reproduced', 'detail': diff, 'path': path}
        same = [x for x in vios if x['property'] == pid]
        if not same and not v.get('probe_log'):
            return {'status': 'not_reproduced', 'detail': 'concrete re-execution of the trace did not raise the violation again', 'path': path}
        # known-finding roles are decided on the concrete history that was just replayed, never on the symbolic path
        flags = run_engine.last_flags
        kid = None
        if pid == 'C07' and (v.get('lost') or any(x.get('lost') for x in same)):
            kid = None          # capacity below the configured value is outside every known role
        elif pid == 'C07':
            kid = 'K-C07a' if 'shrink_unused' in flags else ('K-C07b' if 'grow_with_surplus' in flags else ('K-C07c' if 'shrink_assigned_waiter' in flags else ('K-C07d' if 'shrink_overlaps_release' in flags else None)))
        return {'status': 'confirmed', 'path': path, 'steps': len(native), 'known': kid}
    except ReplayError as e:
        return {'status': 'replay_error', 'detail': str(e)[:600]}
    except Exception as e:
        import traceback
        return {'status': 'replay_error', 'detail': f'{type(e).__name__}: {e} ' + traceback.format_exc()[-600:]}


def replay_file(path, verbose=False):
    """./check <ID> --replay <trace>: run the stored trace natively and print what the real crate does"""
    trace = json.load(open(path))
    if trace.get('kind') in ('pgconfig', 'redisconfig'):
        build_driver_pg()
        r = subprocess.run([BIN_PG, path], capture_output=True, text=True, timeout=60)
        print(f'case {path}: {trace.get("violation")}'); print('native:    ' + r.stdout.strip()); print('predicted: ' + json.dumps(trace.get('predicted')))
        return 0
    if trace.get('kind') == 'kani_serde':
        from . import w_serde
        d = w_serde.instantiate()
        env = dict(os.environ); env['CARGO_NET_OFFLINE'] = 'true'; env.pop('RUSTFLAGS', None)
        subprocess.run(['cargo', 'build', '--offline', '--target-dir', os.path.join(d, 'nt')], cwd=d, env=env, capture_output=True, text=True)
        print(f'case {path}: {trace.get("violation")}')
        for o in trace.get('replay', []):
            r = subprocess.run([os.path.join(d, 'nt', 'debug', 'dp-serde-replay')] + o['args'], capture_output=True, text=True, timeout=60)
            print('dp-serde-replay ' + ' '.join(o['args']) + '\n   native now: ' + r.stdout.strip() + '\n   recorded:   ' + o['native'])
        return 0
    native = run_native(trace, keep_path=path)
    print(f'trace {path}: {trace.get("violation")}')
    for n in native:
        print(json.dumps(n))
    return 0
