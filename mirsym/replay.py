"""Native replay of counterexample traces against the real crate (built with --cfg deadpool_verif)."""
import os, json, subprocess, hashlib, time

HERE = os.path.dirname(os.path.dirname(os.path.abspath(__file__)))


def confirm(pid, v):
    return {'status': 'unavailable', 'detail': 'native replay driver not built yet'}


def replay_file(path, verbose=False):
    print('replay driver not built yet'); return 2
