"""C18: deadpool-postgres Config::get_pg_config / builder / create_pool, interpreted from MIR with every payload symbolic
(strings are z3 String terms, so the quantifier "all strings, including empty and non-ASCII" is the solver's)."""
import re, itertools, json
import z3
from .mir import Unmodelled
from .core import (I, Agg, Ref, Opaque, FnItem, UNINIT, UNIT, NONE, mk_enum, some, ok, err, payload, is_sym, simp, z, b_not, b_and, b_or,
                   binop, InternalError, State, Thread, Machine)
from .models import Env, callee_info
from .core import type_head
from .managed import World
from . import explore
from .models import MAX_PERMITS as MAXP

SCALARS = ['password', 'options', 'application_name', 'ssl_mode', 'connect_timeout', 'keepalives', 'keepalives_idle',
           'target_session_attrs', 'channel_binding', 'load_balance_hosts']
ENUM_FIELDS = {'ssl_mode': ('SslMode', ['Disable', 'Prefer', 'Require']), 'target_session_attrs': ('TargetSessionAttrs', ['Any', 'ReadWrite']),
               'channel_binding': ('ChannelBinding', ['Disable', 'Prefer', 'Require']), 'load_balance_hosts': ('LoadBalanceHosts', ['Disable', 'Random'])}
STR_FIELDS = ('url', 'user', 'password', 'dbname', 'options', 'application_name', 'host')
SOCKET_DIRS = ['/run/postgresql', '/var/run/postgresql', '/tmp']


def sterm(M, st, v):
    """z3 String term of a str / String / &str / literal value"""
    if isinstance(v, Ref): v = M.deref(st, v)
    if isinstance(v, Opaque) and v.tag.startswith('str:'):
        lit = v.tag[4:]
        return z3.StringVal(json.loads(lit) if lit.startswith('"') else lit)
    if isinstance(v, Agg) and v.ty in ('String', 'str'): return v.f[0]
    if is_sym(v): return v
    raise InternalError(f'not a string value: {v!r}'[:200])


def S(t): return Agg('String', [t])
def sref(t): return Agg('str', [t])


class PgEnv(Env):
    """models of tokio_postgres::Config (a record), str/String, env::var"""

    home = 'deadpool_postgres'

    def __init__(s, cfg=None):
        super().__init__()
        s.cfg = cfg or {}

    def copy_types(s): return ('PoolConfig', 'Timeouts', 'ManagerConfig', 'RecyclingMethod', 'QueueMode', 'SslMode', 'Runtime', 'Duration', 'IpAddr')

    # ---- strings
    def p_String__as_str(s, M, st, th, ci, a): return s.ret(st, sref(sterm(M, st, a[0])))
    def p_String__is_empty(s, M, st, th, ci, a): return s.ret(st, simp(z3.Length(sterm(M, st, a[0])) == 0))
    def p_str__is_empty(s, M, st, th, ci, a): return s.ret(st, simp(z3.Length(sterm(M, st, a[0])) == 0))
    def p_String__clone(s, M, st, th, ci, a): return s.ret(st, S(sterm(M, st, a[0])))
    def d_String(s, M, st, th, v): return True
    def d_str(s, M, st, th, v): return True

    def _deref(s, M, st, th, ci, a):
        v = s.tgt(M, st, a[0])
        if isinstance(v, Agg) and v.ty == 'String': return s.ret(st, sref(v.f[0]))
        if isinstance(v, Agg) and v.ty == 'Vec': return s.ret(st, a[0])
        return super()._deref(M, st, th, ci, a)

    def t_PartialEq__eq(s, M, st, th, ci, a):
        r0 = super().t_PartialEq__eq(M, st, th, ci, a)
        if r0 is not None: return r0
        x, y = a
        def und(v):
            for _ in range(6):
                if isinstance(v, Ref): v = M.deref(st, v); continue
                break
            return v
        ox, oy = und(x), und(y)
        if isinstance(ox, Agg) and isinstance(oy, Agg) and ox.ty == 'Option' and oy.ty == 'Option':
            # Option<T>: equal iff both None, or both Some with equal payloads
            if ox.variant != oy.variant: return s.ret(st, False)
            if ox.variant == 'None': return s.ret(st, True)
            return s.t_PartialEq__eq(M, st, th, ci, [payload(ox), payload(oy)])
        def un(v):
            # &&&String ... : follow references down to the last one (sterm takes the final step)
            for _ in range(6):
                if isinstance(v, Ref):
                    w = M.deref(st, v)
                    if isinstance(w, Ref): v = w; continue
                break
            return v
        try:
            tx = sterm(M, st, un(x)); ty = sterm(M, st, un(y))
        except InternalError:
            return None
        return s.ret(st, simp(tx == ty))

    def t_Clone__clone(s, M, st, th, ci, a):
        v = s.tgt(M, st, a[0])
        if isinstance(v, Agg) and v.ty == 'String': return s.ret(st, S(v.f[0]))
        return super().t_Clone__clone(M, st, th, ci, a)

    def clone_value(s, M, st, v, strict=True):
        if isinstance(v, Agg) and v.ty in ('String', 'str', 'PgConfig', 'IpAddr', 'Host'): return v
        return super().clone_value(M, st, v, strict)

    def call(s, M, st, th, callee, args):
        if callee.startswith('core::str::<impl str>::is_empty'): return s.p_str__is_empty(M, st, th, None, args)
        if callee.startswith('core::slice::<impl [') and callee.endswith('::is_empty'):
            v = s.tgt(M, st, args[0]); return s.ret(st, len(v.f) == 0)
        if callee.startswith('core::slice::<impl [') and callee.endswith('::iter'):
            return s.ret(st, Agg('SliceIter', [args[0], I(0)]))
        if callee.startswith('var::<') or callee.startswith('std::env::var::<'):
            outs = []
            for present in (True, False):
                st2 = st.clone(); st2.logev('env', 'USER', 'set' if present else 'unset')
                if present:
                    u = z3.String('env_USER'); st2.gset('env_user', u)
                    outs.append(('ret', st2, ok(S(u))))
                else:
                    st2.gset('env_user', None)
                    outs.append(('ret', st2, err(Opaque('VarError'))))
            return outs
        return super().call(M, st, th, callee, args)

    # ---- tokio_postgres::Config as a record  (Agg 'PgConfig' with named fields)
    @staticmethod
    def empty_record():
        return Agg('PgConfig', {'user': NONE, 'password': NONE, 'dbname': NONE, 'options': NONE, 'application_name': NONE,
                                'ssl_mode': mk_enum('PgSslMode', 'Prefer'), 'hosts': (), 'hostaddrs': (), 'ports': (),
                                'connect_timeout': NONE, 'keepalives': True, 'keepalives_idle': Agg('Duration', [I(7200), I(0, 32)]),
                                'target_session_attrs': mk_enum('PgTargetSessionAttrs', 'Any'), 'channel_binding': mk_enum('PgChannelBinding', 'Prefer'),
                                'load_balance_hosts': mk_enum('PgLoadBalanceHosts', 'Disable')})

    def p_Config__new(s, M, st, th, ci, a):
        if 'tokio_postgres' not in ci['text']: return None
        return s.ret(st, s.empty_record())

    def t_Default__default(s, M, st, th, ci, a):
        if 'tokio_postgres' in ci['text'] and ci['self_head'] == 'Config': return s.ret(st, s.empty_record())     # = Config::new()
        return super().t_Default__default(M, st, th, ci, a)

    def t_FromStr__from_str(s, M, st, th, ci, a):
        if 'tokio_postgres::Config' not in ci['text']: return None
        outs = []
        for rec in st.gget('url_records'):
            st2 = st.clone()
            if rec is None:
                st2.logev('env', 'from_str', 'err'); st2.gset('url_record', None)
                outs.append(('ret', st2, err(Opaque('PgError'))))
            else:
                st2.logev('env', 'from_str', 'ok'); st2.gset('url_record', rec)
                outs.append(('ret', st2, ok(rec)))
        return outs

    def _set(s, M, st, cref, field, val):
        rec = M.deref(st, cref); M.write(st, cref, rec.with_field(field, val)); return s.ret(st, cref)

    def _push(s, M, st, cref, field, val):
        rec = M.deref(st, cref); M.write(st, cref, rec.with_field(field, rec.f[field] + (val,))); return s.ret(st, cref)

    def path_setter(name, kind):
        def f(s, M, st, th, ci, a):
            if 'tokio_postgres' not in ci['text']: return None
            if kind == 'str': return s._set(M, st, a[0], name, some(sterm(M, st, a[1])))
            if kind == 'opt': return s._set(M, st, a[0], name, some(a[1]))
            if kind == 'val': return s._set(M, st, a[0], name, a[1])
            if kind == 'host': return s._push(M, st, a[0], 'hosts', ('tcp', sterm(M, st, a[1])))
            if kind == 'host_path': return s._push(M, st, a[0], 'hosts', ('unix', sterm(M, st, a[1])))
            if kind == 'push': return s._push(M, st, a[0], name, a[1])
        return f
    p_Config__user = path_setter('user', 'str'); p_Config__password = path_setter('password', 'str')
    p_Config__dbname = path_setter('dbname', 'str'); p_Config__options = path_setter('options', 'str')
    p_Config__application_name = path_setter('application_name', 'str')
    p_Config__ssl_mode = path_setter('ssl_mode', 'val'); p_Config__connect_timeout = path_setter('connect_timeout', 'opt')
    p_Config__keepalives = path_setter('keepalives', 'val'); p_Config__keepalives_idle = path_setter('keepalives_idle', 'val')
    p_Config__target_session_attrs = path_setter('target_session_attrs', 'val'); p_Config__channel_binding = path_setter('channel_binding', 'val')
    p_Config__load_balance_hosts = path_setter('load_balance_hosts', 'val')
    p_Config__host = path_setter('hosts', 'host'); p_Config__host_path = path_setter('hosts', 'host_path')
    p_Config__hostaddr = path_setter('hostaddrs', 'push'); p_Config__port = path_setter('ports', 'push')

    def p_Config__get_user(s, M, st, th, ci, a):
        v = M.deref(st, a[0]).f['user']; return s.ret(st, NONE if v.variant == 'None' else some(sref(payload(v))))
    def p_Config__get_dbname(s, M, st, th, ci, a):
        v = M.deref(st, a[0]).f['dbname']; return s.ret(st, NONE if v.variant == 'None' else some(sref(payload(v))))
    def str_getter(name):
        def f(s, M, st, th, ci, a):
            if 'tokio_postgres' not in ci['text']: return None
            v = M.deref(st, a[0]).f[name]; return s.ret(st, NONE if v.variant == 'None' else some(sref(payload(v))))
        return f
    def val_getter(name, kind):
        def f(s, M, st, th, ci, a):
            if 'tokio_postgres' not in ci['text']: return None
            v = M.deref(st, a[0]).f[name]
            if kind == 'val': return s.ret(st, v)                       # Copy values (enums, bool, Duration)
            if kind == 'optref': return s.ret(st, NONE if v.variant == 'None' else some(Ref(st.alloc(payload(v)))))
            if kind == 'slice': return s.ret(st, Ref(st.alloc(Agg('Vec', list(v)))))
        return f
    p_Config__get_password = str_getter('password'); p_Config__get_options = str_getter('options')
    p_Config__get_application_name = str_getter('application_name')
    p_Config__get_ssl_mode = val_getter('ssl_mode', 'val'); p_Config__get_keepalives = val_getter('keepalives', 'val')
    p_Config__get_keepalives_idle = val_getter('keepalives_idle', 'val'); p_Config__get_connect_timeout = val_getter('connect_timeout', 'optref')
    p_Config__get_target_session_attrs = val_getter('target_session_attrs', 'val'); p_Config__get_channel_binding = val_getter('channel_binding', 'val')
    p_Config__get_load_balance_hosts = val_getter('load_balance_hosts', 'val')
    p_Config__get_hostaddrs = val_getter('hostaddrs', 'slice'); p_Config__get_ports = val_getter('ports', 'slice')
    def p_Config__get_hosts(s, M, st, th, ci, a):
        return s.ret(st, Ref(st.alloc(Agg('Vec', [Agg('Host', [Opaque(h[0]), h[1]]) for h in M.deref(st, a[0]).f['hosts']]))))
    def d_PgConfig(s, M, st, th, v): return True
    def d_Host(s, M, st, th, v): return True
    def d_IpAddr(s, M, st, th, v): return True

    def convert_into(s, M, st, th, ci, v):
        # the crate's own From<SslMode> for PgSslMode etc. are interpreted from MIR
        if isinstance(v, Agg) and v.ty in ('SslMode', 'TargetSessionAttrs', 'ChannelBinding', 'LoadBalanceHosts'):
            tgt = 'Pg' + v.ty
            fn = [n for n in M.fns if n.endswith('::from') and 'config.rs' in n and M.fns[n].params and M.fns[n].params[0][1].split('::')[-1] == v.ty]
            if len(fn) != 1: raise Unmodelled('From impl for ' + v.ty)
            M.push_mir(st, th, fn[0], [v]); return [('push', st)]
        return None

    def const(s, M, c):
        m = re.match(r'^(?:tokio_postgres::config::|config::)?(Pg)?(SslMode|TargetSessionAttrs|ChannelBinding|LoadBalanceHosts)::(\w+)$', c)
        if m: return mk_enum(('Pg' if m.group(1) or 'tokio_postgres' in c else '') + m.group(2), m.group(3))
        return super().const(M, c)


class PgConfigWorld(World):
    def __init__(s, prog):
        super().__init__(prog, PgEnv())
        # the tokio-postgres enums are constructed by the crate's From impls: Self::Disable etc. print as PgSslMode::Disable
        for n, vs in (('PgSslMode', ['Disable', 'Prefer', 'Require']), ('PgTargetSessionAttrs', ['Any', 'ReadWrite']),
                      ('PgChannelBinding', ['Disable', 'Prefer', 'Require']), ('PgLoadBalanceHosts', ['Disable', 'Random'])):
            s.M.enums[n] = vs
        s.fields = prog.structs[('postgres/src/config.rs', 'Config')]
        s.M.enums.setdefault('Runtime', ['Tokio1'])

    def mk_config(s, st, pattern, sym):
        """pattern: dict field -> spec (None = unset; 'set' = Some(symbolic); ('list', n); ('enum', variant)) -> Config aggregate"""
        vals = []
        for f in s.fields:
            p = pattern.get(f)
            if p is None: vals.append(NONE); continue
            if f in STR_FIELDS: vals.append(some(S(sym.setdefault(f, z3.String('cfg_' + f)))))
            elif f == 'hosts': vals.append(some(Agg('Vec', [S(sym.setdefault(f'hosts{i}', z3.String(f'cfg_hosts{i}'))) for i in range(p[1])])))
            elif f == 'hostaddr': vals.append(some(Agg('IpAddr', [sym.setdefault(f, z3.BitVec('cfg_hostaddr', 32))])))
            elif f == 'hostaddrs': vals.append(some(Agg('Vec', [Agg('IpAddr', [sym.setdefault(f'hostaddrs{i}', z3.BitVec(f'cfg_hostaddrs{i}', 32))]) for i in range(p[1])])))
            elif f == 'port': vals.append(some(sym.setdefault(f, z3.BitVec('cfg_port', 16))))
            elif f == 'ports': vals.append(some(Agg('Vec', [sym.setdefault(f'ports{i}', z3.BitVec(f'cfg_ports{i}', 16)) for i in range(p[1])])))
            elif f in ('connect_timeout', 'keepalives_idle'): vals.append(some(Agg('Duration', [sym.setdefault(f, z3.BitVec('cfg_' + f, 64)), I(0, 32)])))
            elif f == 'keepalives': vals.append(some(sym.setdefault(f, z3.Bool('cfg_keepalives'))))
            elif f in ENUM_FIELDS: vals.append(some(mk_enum(ENUM_FIELDS[f][0], p[1])))
            elif f in ('manager', 'pool'): vals.append(some(p[1]))
            else: raise Unmodelled('Config field ' + f)
        return Agg('Config', vals)

    def url_record(s, spec, sym):
        """an arbitrary record as parsed from a URL: spec = dict(user: bool, dbname: bool, hosts: n, hostaddrs: n, ports: n, password: bool ...)"""
        r = PgEnv.empty_record()
        def sv(n): return sym.setdefault('url_' + n, z3.String('url_' + n))
        for f in ('user', 'password', 'dbname', 'options', 'application_name'):
            if spec.get(f): r = r.with_field(f, some(sv(f)))
        r = r.with_field('hosts', tuple(('tcp', sv(f'host{i}')) for i in range(spec.get('hosts', 0))))
        r = r.with_field('hostaddrs', tuple(Agg('IpAddr', [sym.setdefault(f'url_hostaddr{i}', z3.BitVec(f'url_hostaddr{i}', 32))]) for i in range(spec.get('hostaddrs', 0))))
        r = r.with_field('ports', tuple(sym.setdefault(f'url_port{i}', z3.BitVec(f'url_port{i}', 16)) for i in range(spec.get('ports', 0))))
        if spec.get('scalars'):
            r = r.with_field('connect_timeout', some(Agg('Duration', [sym.setdefault('url_ct', z3.BitVec('url_connect_timeout', 64)), I(0, 32)])))
            r = r.with_field('keepalives', sym.setdefault('url_ka', z3.Bool('url_keepalives')))
            r = r.with_field('keepalives_idle', Agg('Duration', [sym.setdefault('url_kai', z3.BitVec('url_keepalives_idle', 64)), I(0, 32)]))
            r = r.with_field('ssl_mode', mk_enum('PgSslMode', spec.get('ssl_mode', 'Require')))
            r = r.with_field('target_session_attrs', mk_enum('PgTargetSessionAttrs', spec.get('tsa', 'ReadWrite')))
            r = r.with_field('channel_binding', mk_enum('PgChannelBinding', spec.get('cb', 'Require')))
            r = r.with_field('load_balance_hosts', mk_enum('PgLoadBalanceHosts', spec.get('lbh', 'Random')))
        return r

    # ------------------------------------------------------------------ the reference (from the property statement)
    def expected(s, M, st, pattern, sym, rec0, env_user):
        """-> ('err', variant) | ('ok', dict field -> expected value builder) as z3 constraints are per field"""
        return None

    def run_case(s, pattern, url_spec, sym=None):
        """symbolically execute get_pg_config on the Config described by `pattern`; url_spec: None (no url) | 'err' | dict
        -> list of (state, result, obligations) where obligations = list of (description, z3 Bool that must hold)"""
        sym = {} if sym is None else sym
        st = State(); M = s.M
        pat = dict(pattern)
        if url_spec is not None: pat['url'] = 'set'
        cfgv = s.mk_config(st, pat, sym)
        rec0 = None if url_spec in (None, 'err') else s.url_record(url_spec, sym)
        st.gset('url_records', [rec0] if url_spec != 'err' else [None])
        croot = st.alloc(cfgv)
        outs = s.call(st, 'main', s.find('::get_pg_config', 'postgres/src/config.rs'), [Ref(croot)])
        res = []
        for st1, r in outs:
            res.append((st1, r, s.obligations(st1, r, pat, sym, rec0 if url_spec not in (None, 'err') else (None if url_spec == 'err' else PgEnv.empty_record()), url_spec)))
        return res, sym

    def obligations(s, st, r, pat, sym, rec0, url_spec):
        """what the property demands of this outcome, as (text, condition) pairs that must be valid under the path condition"""
        O = []
        if r[0] != 'ok':
            O.append(('get_pg_config never panics', False)); return O
        res = r[1]
        E = z3.StringVal('')
        def nonempty(t): return z3.Length(t) > 0
        if url_spec == 'err':
            O.append(('an invalid url yields InvalidUrl', res.variant == 'Err' and payload(res).variant == 'InvalidUrl')); return O
        # ---- effective user / dbname per the documented rules
        def opt(rec, f): return None if rec.f[f].variant == 'None' else payload(rec.f[f])
        u_cfg = sym.get('user') if pat.get('user') else None
        u_url = opt(rec0, 'user')
        env_user = st.gget('env_user', 'unasked')
        d_cfg = sym.get('dbname') if pat.get('dbname') else None
        d_url = opt(rec0, 'dbname')
        # dbname: cfg value if set and non-empty, else the url's
        def ite(c, a, b): return z3.If(c, a, b)
        if d_cfg is not None and d_url is not None: d_eff = ('some', ite(nonempty(d_cfg), d_cfg, d_url))
        elif d_cfg is not None: d_eff = ('maybe', nonempty(d_cfg), d_cfg)
        elif d_url is not None: d_eff = ('some', d_url)
        else: d_eff = ('none',)
        if res.variant == 'Err':
            ev = payload(res).variant
            if ev == 'InvalidUrl': O.append(('InvalidUrl only for an invalid url', False)); return O
            if ev == 'DbnameMissing':
                c = True if d_eff[0] == 'none' else (b_not(simp(d_eff[1])) if d_eff[0] == 'maybe' else False)
                O.append(('DbnameMissing only when neither the Config (non-empty) nor the url names a database', c)); return O
            if ev == 'DbnameEmpty':
                c = simp(d_eff[1] == E) if d_eff[0] == 'some' else False
                O.append(('DbnameEmpty only when the effective dbname is the empty string', c)); return O
            O.append((f'unexpected error {ev}', False)); return O
        rec = payload(res)
        # reaching Ok requires a non-empty effective dbname
        if d_eff[0] == 'none': O.append(('Ok although no dbname is given', False)); return O
        if d_eff[0] == 'maybe':
            O.append(('Ok requires a dbname', simp(d_eff[1]))); exp_d = d_eff[2]
        else:
            O.append(('Ok requires a non-empty dbname', simp(z3.Not(d_eff[1] == E)))); exp_d = d_eff[1]
        got_d = opt(rec, 'dbname')
        O.append(('dbname in effect', False if got_d is None else simp(got_d == exp_d)))
        # user: cfg (non-empty) overrides url; if the result is unset or empty the USER environment variable is used when present
        if u_cfg is not None and u_url is not None: base = ('some', ite(nonempty(u_cfg), u_cfg, u_url))
        elif u_cfg is not None: base = ('maybe', nonempty(u_cfg), u_cfg)
        elif u_url is not None: base = ('some', u_url)
        else: base = ('none',)
        got_u = opt(rec, 'user')
        if base[0] == 'some': has_user = nonempty(base[1]); bval = base[1]
        elif base[0] == 'maybe': has_user = base[1]; bval = base[2]
        else: has_user = False; bval = None
        if env_user == 'unasked':
            O.append(('USER is consulted whenever no non-empty user is configured', simp(z(has_user)) if has_user is not False else False))
            O.append(('user in effect', False if got_u is None else simp(got_u == bval)))
        elif env_user is None:
            # variable unset: result is the base value (possibly empty / absent)
            O.append(('USER consulted only without a non-empty user', simp(z3.Not(z(has_user))) if has_user is not False else True))
            if base[0] == 'none' or base[0] == 'maybe': O.append(('user stays unset', got_u is None if base[0] == 'none' else True))
            else: O.append(('user in effect', False if got_u is None else simp(got_u == bval)))
        else:
            O.append(('USER consulted only without a non-empty user', simp(z3.Not(z(has_user))) if has_user is not False else True))
            O.append(('user falls back to $USER', False if got_u is None else simp(got_u == env_user)))
        # ---- scalar string options: Config overrides url
        for f in ('password', 'options', 'application_name'):
            exp = sym.get(f) if pat.get(f) else opt(rec0, f)
            got = opt(rec, f)
            if exp is None: O.append((f'{f} stays unset', got is None))
            else: O.append((f'{f} in effect', False if got is None else simp(got == exp)))
        # ---- lists: url's, then the singular, then the plural field
        exp_h = list(rec0.f['hosts'])
        if pat.get('host'): exp_h.append(('tcp', sym['host']))
        if pat.get('hosts'): exp_h += [('tcp', sym[f'hosts{i}']) for i in range(pat['hosts'][1])]
        if not exp_h: exp_h = [('unix', z3.StringVal(d)) for d in SOCKET_DIRS]
        got_h = list(rec.f['hosts'])
        O.append(('hosts = url hosts ++ host ++ hosts (default socket directories only when none is given)',
                  len(got_h) == len(exp_h) and b_and(*[(g[0] == e[0]) and simp(g[1] == e[1]) for g, e in zip(got_h, exp_h)]) if len(got_h) == len(exp_h) else False))
        exp_a = [x.f[0] for x in rec0.f['hostaddrs']]
        if pat.get('hostaddr'): exp_a.append(sym['hostaddr'])
        if pat.get('hostaddrs'): exp_a += [sym[f'hostaddrs{i}'] for i in range(pat['hostaddrs'][1])]
        got_a = [x.f[0] for x in rec.f['hostaddrs']]
        O.append(('hostaddrs = url ++ hostaddr ++ hostaddrs', b_and(*[simp(g == e) for g, e in zip(got_a, exp_a)]) if len(got_a) == len(exp_a) else False))
        exp_p = list(rec0.f['ports'])
        if pat.get('port'): exp_p.append(sym['port'])
        if pat.get('ports'): exp_p += [sym[f'ports{i}'] for i in range(pat['ports'][1])]
        got_p = list(rec.f['ports'])
        O.append(('ports = url ++ port ++ ports', b_and(*[simp(z(g) == z(e)) for g, e in zip(got_p, exp_p)]) if len(got_p) == len(exp_p) else False))
        # ---- remaining scalars
        def dur_eq(a, b): return simp(z(a.f[0]) == z(b.f[0]))
        ct = rec.f['connect_timeout']; ct0 = rec0.f['connect_timeout']
        if pat.get('connect_timeout'):
            O.append(('connect_timeout in effect', ct.variant == 'Some' and simp(z(payload(ct).f[0]) == sym['connect_timeout'])))
        else:
            O.append(('connect_timeout from the url', (ct.variant == ct0.variant) and (ct.variant == 'None' or dur_eq(payload(ct), payload(ct0)))))
        O.append(('keepalives in effect', simp(z(rec.f['keepalives']) == z(sym['keepalives'] if pat.get('keepalives') else rec0.f['keepalives']))))
        O.append(('keepalives_idle in effect', simp(z(rec.f['keepalives_idle'].f[0]) == z(sym['keepalives_idle'] if pat.get('keepalives_idle') else rec0.f['keepalives_idle'].f[0]))))
        for f in ENUM_FIELDS:
            exp = pat[f][1] if pat.get(f) else rec0.f[f].variant
            O.append((f'{f} in effect', rec.f[f].variant == exp))
        return O


# ====================================================================== case enumeration for C18
FULL_URL = {'user': True, 'password': True, 'dbname': True, 'options': True, 'application_name': True, 'hosts': 1, 'hostaddrs': 1, 'ports': 1, 'scalars': True}
FIELD_SPECS = {
    'user': ['set'], 'password': ['set'], 'dbname': ['set'], 'options': ['set'], 'application_name': ['set'], 'host': ['set'],
    'hosts': [('list', 0), ('list', 1), ('list', 2)], 'hostaddr': ['set'], 'hostaddrs': [('list', 0), ('list', 1)], 'port': ['set'],
    'ports': [('list', 0), ('list', 1), ('list', 2)], 'connect_timeout': ['set'], 'keepalives': ['set'], 'keepalives_idle': ['set'],
    'ssl_mode': [('enum', v) for v in ENUM_FIELDS['ssl_mode'][1]], 'target_session_attrs': [('enum', v) for v in ENUM_FIELDS['target_session_attrs'][1]],
    'channel_binding': [('enum', v) for v in ENUM_FIELDS['channel_binding'][1]], 'load_balance_hosts': [('enum', v) for v in ENUM_FIELDS['load_balance_hosts'][1]],
}


def cases(tier, fields):
    """(name, pattern, url_spec) triples.  Tags of the Option fields are covered: identity group and host/port groups as full
    products, every other field alone and every pair of fields together, all set / none set; payloads are always symbolic."""
    C = []
    opt_fields = [f for f in fields if f in FIELD_SPECS]
    urls = [None, 'err', {}, {'user': True}, {'dbname': True}, {'user': True, 'dbname': True}, FULL_URL]
    for u in urls:
        for user in (None, 'set'):
            for db in (None, 'set'):
                C.append((f'identity url={_un(u)} user={user} dbname={db}', {'user': user, 'dbname': db}, u))
    for f in opt_fields:
        for sp in FIELD_SPECS[f]:
            for u in (None, FULL_URL, {'dbname': True, 'scalars': True, 'ssl_mode': 'Disable', 'tsa': 'Any', 'cb': 'Disable', 'lbh': 'Disable'}):
                C.append((f'field {f}={sp} url={_un(u)}', {'dbname': 'set', f: sp}, u))
    for uh in (0, 1, 2):
        for host in (None, 'set'):
            for hosts in (None, ('list', 0), ('list', 1), ('list', 2)):
                C.append((f'hosts url={uh} host={host} hosts={hosts}', {'dbname': 'set', 'host': host, 'hosts': hosts}, {'hosts': uh}))
    for up in (0, 1, 2):
        for port in (None, 'set'):
            for ports in (None, ('list', 0), ('list', 1), ('list', 2)):
                C.append((f'ports url={up} port={port} ports={ports}', {'dbname': 'set', 'port': port, 'ports': ports}, {'ports': up}))
    for ua in (0, 1):
        for a in (None, 'set'):
            for aa in (None, ('list', 0), ('list', 1), ('list', 2)):
                C.append((f'hostaddrs url={ua} hostaddr={a} hostaddrs={aa}', {'dbname': 'set', 'hostaddr': a, 'hostaddrs': aa}, {'hostaddrs': ua}))
    pf = [f for f in opt_fields if f not in ('dbname',)]
    for i, f in enumerate(pf):
        for g in pf[i + 1:]:
            C.append((f'pair {f}+{g}', {'dbname': 'set', f: FIELD_SPECS[f][-1], g: FIELD_SPECS[g][-1]}, None if tier == 'quick' else FULL_URL))
    allset = {f: FIELD_SPECS[f][-1] for f in opt_fields}
    C.append(('all fields set, no url', allset, None)); C.append(('all fields set, full url', allset, FULL_URL))
    C.append(('only dbname, full url', {'dbname': 'set'}, FULL_URL)); C.append(('nothing set, no url', {}, None))
    if tier == 'thorough':
        # every field left out of the otherwise complete Config
        for f in opt_fields:
            p = dict(allset); p[f] = None
            C.append((f'all but {f}', p, FULL_URL))
    return C


def _un(u): return 'none' if u is None else ('invalid' if u == 'err' else '+'.join(sorted(k for k, v in u.items() if v)) or 'empty')


def run_c18_pool(prog, job):
    """the last sentence of C18: the pool and manager sections reach the built pool unchanged, and create_pool() reports timeouts
    configured without a runtime as a build error.  Config::create_pool / builder are executed from MIR down into deadpool core's
    PoolBuilder::build with symbolic max_size and durations; the pg part of the manager must equal what get_pg_config() returns."""
    W = PgConfigWorld(prog); M = W.M
    nobl = 0; ndis = 0; npaths = 0; vios = []
    PI = prog.structs[('src/managed/mod.rs', 'PoolInner')]; MG = prog.structs[('postgres/src/lib.rs', 'Manager')]
    fn_cp = W.find('::create_pool', 'postgres/src/config.rs'); fn_pg = W.find('::get_pg_config', 'postgres/src/config.rs')
    fn_pcd = [n for n in M.fns if n.endswith('::default') and 'src/managed/config.rs' in n and type_head(M.fns[n].ret) in ('PoolConfig', 'Self')]
    def dur(n): return Agg('Duration', [z3.BitVec(n, 64), I(0, 32)])
    def canon(v): return explore.canon_value(v, explore.Canon(State(), set()))
    def oblige(txt, st, cond, case):
        nonlocal nobl, ndis
        nobl += 1
        holds = cond if isinstance(cond, bool) else M.must(st, cond)
        if holds: ndis += 1; return
        vios.append({'property': 'C18', 'what': f'create_pool: {txt} - violated ({case})', 'kind': 'pgmanager', 'crates': job['crates'], 'model': {}, 'trace': [['case', case]]})
    TMO = {'none': (None, None, None), 'wait': ('w', None, None), 'create': (None, 'c', None), 'recycle': (None, None, 'r'), 'all': ('w', 'c', 'r')}
    for pool_kind in ('absent',) + tuple(TMO):
        for mgr_kind in ('absent', 'Fast', 'Verified', 'Clean'):
            for rt_on in (False, True):
                for qm in (('Fifo', 'Lifo') if pool_kind != 'absent' else ('-',)):
                    case = f'pool={pool_kind} queue={qm} manager={mgr_kind} runtime={"set" if rt_on else "none"}'
                    st = State(); sym = {}
                    pat = {'dbname': 'set'}
                    ms = z3.BitVec('pool_max_size', 64)
                    if pool_kind != 'absent':
                        st.assume(z3.ULE(ms, MAXP))
                        tm = Agg('Timeouts', [NONE if x is None else some(dur('t_' + x)) for x in TMO[pool_kind]])
                        pc = Agg('PoolConfig', [ms, tm, mk_enum('QueueMode', qm)]); pat['pool'] = ('val', pc)
                    if mgr_kind != 'absent':
                        mc = Agg('ManagerConfig', [mk_enum('RecyclingMethod', mgr_kind)]); pat['manager'] = ('val', mc)
                    cfg = W.mk_config(st, pat, sym)
                    st.assume(z3.Length(sym['dbname']) > 0)
                    st.gset('url_records', [None])
                    root = st.alloc(cfg)
                    rt = some(mk_enum('Runtime', 'Tokio1')) if rt_on else NONE
                    # the reference pg configuration: get_pg_config() on the same Config
                    refs = [(x.gget('env_user', 'unasked'), r) for x, r in W.call(st.clone(), 'A', fn_pg, [Ref(root)])]
                    for st1, r in W.call(st.clone(), 'A', fn_cp, [Ref(root), rt, Agg('NoTls', [])]):
                        npaths += 1
                        if r[0] != 'ok': oblige('create_pool never panics', st1, False, case); continue
                        res = r[1]
                        want_err = (not rt_on) and pool_kind not in ('absent', 'none')
                        if res.variant == 'Err':
                            e = payload(res)
                            oblige('an error is reported only for timeouts configured without a runtime, as CreatePoolError::Build(NoRuntimeSpecified)', st1,
                                   want_err and e.variant == 'Build' and payload(e).variant == 'NoRuntimeSpecified', case)
                            continue
                        oblige('timeouts configured without a runtime are a build error, not a pool', st1, not want_err, case)
                        pool = payload(res); inner = M.deref(st1, M.deref(st1, pool.f[0].f[0]) if False else pool.f[0].f[0])
                        pin = inner.f[0] if inner.ty == 'ArcInner' else inner
                        got_pc = pin.f[PI.index('config')]; got_rt = pin.f[PI.index('runtime')]; mgr = pin.f[PI.index('manager')]
                        oblige('the runtime reaches the pool', st1, canon(got_rt) == canon(rt), case)
                        if pool_kind != 'absent':
                            oblige('the pool section reaches the built pool unchanged (max_size, timeouts, queue mode)', st1, canon(got_pc) == canon(pc), case)
                        else:
                            dflt = [x[1] for _, x in W.call(st.clone(), 'A', fn_pcd[0], [])] if len(fn_pcd) == 1 else []
                            oblige('without a pool section the pool is built with PoolConfig::default()', st1,
                                   len(dflt) == 1 and canon(got_pc.f[1]) == canon(dflt[0].f[1]) and canon(got_pc.f[2]) == canon(dflt[0].f[2]), case)
                        got_mc = mgr.f[MG.index('config')]
                        exp_mc = Agg('ManagerConfig', [mk_enum('RecyclingMethod', mgr_kind if mgr_kind != 'absent' else 'Fast')])
                        oblige('the manager section reaches the manager unchanged (default: RecyclingMethod::Fast)', st1, canon(got_mc) == canon(exp_mc), case)
                        eu = st1.gget('env_user', 'unasked')
                        ok_refs = [x[1] for (u, x) in refs if x[0] == 'ok' and x[1].variant == 'Ok' and repr(u) == repr(eu)]      # same answer of the environment for $USER
                        oblige('the manager connects with exactly the configuration get_pg_config() returns', st1,
                               len(ok_refs) == 1 and canon(mgr.f[MG.index('pg_config')]) == canon(payload(ok_refs[0])), case)
    S = M.stats
    return {'states': npaths, 'transitions': npaths, 'obligations': nobl, 'discharged': ndis, 'violations': vios, 'samples': [], 'complete': True,
            'queries': S.queries, 'sat': S.sat, 'unsat': S.unsat, 'solver_s': round(S.solver_s, 3), 'cache_hits': S.cache_hits, 'blocks': S.blocks,
            'functions': dict(S.fns), 'models': dict(S.models), 'dump_s': prog.dump_s,
            'bounds': {'pool_section': 'absent / no timeouts / wait / create / recycle / all three (durations symbolic), fifo + lifo, max_size symbolic', 'manager_section': 'absent / Fast / Verified / Clean',
                       'runtime': 'none / tokio'},
            'summary': f'{npaths} paths, {ndis}/{nobl} obligations discharged, {len(vios)} violated'}


def run_c18(prog, job):
    if job['cfg'].get('part') == 'create_pool': return run_c18_pool(prog, job)
    import time
    W = PgConfigWorld(prog); M = W.M
    tier = job['tier']; shard, nshards = job['cfg'].get('shard', (0, 1))
    all_cases = cases(tier, W.fields)
    mine = all_cases[shard::nshards]
    nobl = 0; ndis = 0; npaths = 0; vios = []; samples = []
    for name, pat, url in mine:
        res, sym = W.run_case(pat, url)
        for st, r, O in res:
            npaths += 1
            for txt, c in O:
                nobl += 1
                holds = c if isinstance(c, bool) else M.must(st, c)
                if holds: ndis += 1; continue
                extra = [] if isinstance(c, bool) else [z3.Not(z(c))]
                m = _nice_model(M, st, extra, sym)
                if m is None: raise InternalError('no model for a violated obligation')
                pat2 = dict(pat)
                if url is not None: pat2['url'] = 'set'
                case, pred = concretise(W, st, r, pat2, url, sym, m)
                known = 'K-C18' if txt.split(' ')[0] in ('target_session_attrs', 'channel_binding', 'load_balance_hosts') and pat.get(txt.split(' ')[0]) else None
                vios.append({'property': 'C18', 'what': f'{txt} - violated', 'case_name': name, 'obligation': txt, 'kind': 'pgconfig', 'crates': job['crates'],
                             'native_case': case, 'predicted': pred, 'known': known})
        if len(samples) < 3: samples.append({'case': name, 'pattern': {k: str(v) for k, v in pat.items() if v}, 'url': _un(url), 'paths': len(res)})
    S = M.stats
    return {'states': npaths, 'transitions': npaths, 'obligations': nobl, 'discharged': ndis, 'violations': vios, 'samples': samples, 'complete': True,
            'queries': S.queries, 'sat': S.sat, 'unsat': S.unsat, 'solver_s': round(S.solver_s, 3), 'cache_hits': S.cache_hits, 'blocks': S.blocks,
            'functions': dict(S.fns), 'models': dict(S.models), 'dump_s': prog.dump_s,
            'bounds': {'cases': len(mine), 'of': len(all_cases), 'lists': 'hosts/ports 0..2, hostaddrs 0..2 (url side 0..2 / 0..1)', 'payloads': 'symbolic (z3 String / BitVec / Bool)',
                       'option_tags': 'identity and list groups: full product; every other field alone (x 3 url shapes) and in every pair; all set; none set'},
            'summary': f'{len(mine)} cases, {npaths} paths, {ndis}/{nobl} obligations discharged, {len(vios)} violated'}


# ====================================================================== concretisation for the native replay
def _consts(t):
    seen = set(); out = []; work = [t]
    while work:
        x = work.pop()
        if x.get_id() in seen: continue
        seen.add(x.get_id())
        if z3.is_const(x) and x.decl().kind() == z3.Z3_OP_UNINTERPRETED: out.append(x)
        work.extend(x.children())
    return out


def _nice_model(M, st, extra, sym):
    base = list(st.pc) + [z(e) for e in extra]
    nice = []
    az = z3.Star(z3.Range('a', 'z'))
    for k, v in sym.items():
        if z3.is_string(v):
            nice += [z3.InRe(v, az), z3.Length(v) <= 6]
            if k.startswith('url_host'): nice.append(z3.Length(v) >= 1)
        elif z3.is_bv(v) and v.size() == 64: nice += [z3.ULE(v, 1000), z3.UGT(v, 0)]
    env = z3.String('env_USER'); nice += [z3.InRe(env, az), z3.Length(env) <= 6]
    for cons in (nice, []):
        sol = z3.Solver(); sol.add(*base); sol.add(*cons)
        if sol.check() == z3.sat: return sol.model()
    return None


def _sv(m, t):
    v = m.eval(t, model_completion=True)
    return v.as_string() if z3.is_string_value(v) else str(v)


def _ip(n): return '.'.join(str((n >> s) & 255) for s in (24, 16, 8, 0))


def concretise(W, st, r, pat, url, sym, m):
    """-> (case json for the native driver, predicted output of get_pg_config under the same model)"""
    cfg = {}
    for f in W.fields:
        p = pat.get(f)
        if f == 'url': continue
        if p is None: cfg[f] = None
        elif f in STR_FIELDS: cfg[f] = _sv(m, sym[f])
        elif f == 'hosts': cfg[f] = [_sv(m, sym[f'hosts{i}']) for i in range(p[1])]
        elif f == 'hostaddr': cfg[f] = _ip(m.eval(sym[f], model_completion=True).as_long())
        elif f == 'hostaddrs': cfg[f] = [_ip(m.eval(sym[f'hostaddrs{i}'], model_completion=True).as_long()) for i in range(p[1])]
        elif f == 'port': cfg[f] = m.eval(sym[f], model_completion=True).as_long()
        elif f == 'ports': cfg[f] = [m.eval(sym[f'ports{i}'], model_completion=True).as_long() for i in range(p[1])]
        elif f in ('connect_timeout', 'keepalives_idle'): cfg[f] = m.eval(sym[f], model_completion=True).as_long()
        elif f == 'keepalives': cfg[f] = z3.is_true(m.eval(sym[f], model_completion=True))
        elif f in ENUM_FIELDS: cfg[f] = p[1]
    # connection string for the url record (key=value form, every value quoted)
    if url is None: cfg['url'] = None
    elif url == 'err': cfg['url'] = 'this is :: not a connection string = = ='
    else:
        def q(x): return "'" + x.replace('\\', '\\\\').replace("'", "\\'") + "'"
        parts = []
        for f in ('user', 'password', 'dbname', 'options', 'application_name'):
            if url.get(f): parts.append(f'{f}={q(_sv(m, sym["url_" + f]))}')
        if url.get('hosts'): parts.append('host=' + ','.join(_sv(m, sym[f'url_host{i}']) or 'h' for i in range(url['hosts'])))
        if url.get('hostaddrs'): parts.append('hostaddr=' + ','.join(_ip(m.eval(sym[f'url_hostaddr{i}'], model_completion=True).as_long()) for i in range(url['hostaddrs'])))
        if url.get('ports'): parts.append('port=' + ','.join(str(m.eval(sym[f'url_port{i}'], model_completion=True).as_long()) for i in range(url['ports'])))
        if url.get('scalars'):
            parts.append(f"connect_timeout={m.eval(sym['url_ct'], model_completion=True).as_long()}")
            parts.append(f"keepalives={1 if z3.is_true(m.eval(sym['url_ka'], model_completion=True)) else 0}")
            parts.append(f"keepalives_idle={m.eval(sym['url_kai'], model_completion=True).as_long()}")
            parts.append('sslmode=' + url.get('ssl_mode', 'Require').lower())
            parts.append('target_session_attrs=' + {'Any': 'any', 'ReadWrite': 'read-write'}[url.get('tsa', 'ReadWrite')])
            parts.append('channel_binding=' + url.get('cb', 'Require').lower())
            parts.append('load_balance_hosts=' + url.get('lbh', 'Random').lower())
        cfg['url'] = ' '.join(parts)
    eu = st.gget('env_user', 'unasked')
    case = {'kind': 'pgconfig', 'config': cfg, 'env_user': None if eu is None else _sv(m, z3.String('env_USER'))}
    # prediction
    if r[0] != 'ok': pred = {'result': 'panic'}
    elif r[1].variant == 'Err': pred = {'result': payload(r[1]).variant}
    else:
        rec = payload(r[1])
        def opt(f):
            if rec.f[f].variant == 'None': return None
            t = payload(rec.f[f])
            t = t.f[0] if isinstance(t, Agg) else t
            # a text built by format!() is not predictable (the formatting model returns an unconstrained string): the native
            # run must then violate the obligation itself - the field must differ from the value the Config sets
            if z3.is_expr(t) and any(str(d).startswith('formatted_') for d in _consts(t)): return {'formatted': True}
            return _sv(m, payload(rec.f[f]))
        def num(x): return x.v if isinstance(x, I) else m.eval(x, model_completion=True).as_long()
        ka = rec.f['keepalives']
        pred = {'result': 'Ok', 'user': opt('user'), 'password': opt('password'), 'dbname': opt('dbname'), 'options': opt('options'),
                'application_name': opt('application_name'), 'ssl_mode': rec.f['ssl_mode'].variant,
                'hosts': [[h[0], _sv(m, h[1])] for h in rec.f['hosts']], 'hostaddrs': [_ip(num(a.f[0])) for a in rec.f['hostaddrs']],
                'ports': [num(p) for p in rec.f['ports']],
                'connect_timeout': None if rec.f['connect_timeout'].variant == 'None' else num(payload(rec.f['connect_timeout']).f[0]),
                'keepalives': ka if isinstance(ka, bool) else z3.is_true(m.eval(ka, model_completion=True)),
                'keepalives_idle': num(rec.f['keepalives_idle'].f[0]),
                'target_session_attrs': rec.f['target_session_attrs'].variant, 'channel_binding': rec.f['channel_binding'].variant,
                'load_balance_hosts': rec.f['load_balance_hosts'].variant}
    return case, pred
