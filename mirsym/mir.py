"""Parser for rustc's textual MIR (-Zunpretty=mir / -Zdump-mir).  Everything that is not recognised
raises Unmodelled: nothing is skipped silently."""
import re, hashlib


class Unmodelled(Exception):
    """The interpreter met something it has no semantics for: the check is inconclusive."""


class Fn:
    __slots__ = ('name', 'params', 'ret', 'locals', 'raw', 'blocks', 'hash', 'crate', 'span')

    def __init__(s, name, params, ret):
        s.name = name; s.params = params; s.ret = ret; s.locals = {}; s.raw = {}; s.blocks = None
        s.hash = None; s.crate = None; s.span = None


def split_top(s, sep=','):
    """split at sep outside (), [], {}, <> (-> and => do not close)."""
    out = []; depth = 0; cur = []; n = len(s); i = 0
    while i < n:
        c = s[i]
        if c in '([{': depth += 1
        elif c in ')]}': depth -= 1
        elif c == '<': depth += 1
        elif c == '>' and not (i > 0 and s[i - 1] in '-='): depth -= 1
        elif c == '"':
            j = i + 1
            while j < n and s[j] != '"':
                j += 2 if s[j] == '\\' else 1
            cur.append(s[i:j + 1]); i = j + 1; continue
        if c == sep and depth == 0:
            out.append(''.join(cur).strip()); cur = []
        else:
            cur.append(c)
        i += 1
    t = ''.join(cur).strip()
    if t: out.append(t)
    return out


def _paren_balanced(t):
    d = 0
    for c in t:
        if c == '(':
            d += 1
        elif c == ')':
            d -= 1
            if d < 0: return False
    return d == 0


def find_top(s, needle):
    """index of needle at paren depth 0 (only () and string literals are tracked), or -1"""
    d = 0; i = 0; n = len(s)
    while i < n:
        c = s[i]
        if c == '"':
            j = i + 1
            while j < n and s[j] != '"':
                j += 2 if s[j] == '\\' else 1
            i = j + 1; continue
        if c == '(': d += 1
        elif c == ')': d -= 1
        elif d == 0 and s.startswith(needle, i): return i
        i += 1
    return -1


def parse_mir_text(text, crate, fns=None):
    """-> dict name -> Fn (first definition wins; later duplicates are ctor shims / promoteds)"""
    fns = {} if fns is None else fns
    cur = None; blk = None; keep = False
    for line in text.split('\n'):
        if line.startswith('fn '):
            m = re.match(r'fn (.*?)\((.*)\) -> (.*) \{$', line)
            if not m: raise Unmodelled('MIR header: ' + line[:200])
            params = []
            for p in split_top(m.group(2)):
                mm = re.match(r'(_\d+): (.*)$', p)
                if not mm: raise Unmodelled('MIR param: ' + p)
                params.append((mm.group(1), mm.group(2)))
            cur = Fn(m.group(1), params, m.group(3)); cur.crate = crate
            keep = cur.name not in fns
            if keep: fns[cur.name] = cur
            blk = None
            continue
        if line.startswith(('const ', 'static ')):
            # named constant item:  `const path::NAME: T = {`  -> a body evaluated on demand
            m1 = re.match(r'^(?:const|static) (?:mut )?(.+): ([^=]+?) = (const .*);$', line)
            if m1 and ('const ' + m1.group(1).strip()) not in fns:
                f1 = Fn('const ' + m1.group(1).strip(), [], m1.group(2)); f1.crate = crate
                f1.raw['bb0'] = ['_0 = ' + m1.group(3), 'return']; f1.locals['_0'] = m1.group(2)
                fns[f1.name] = f1
                cur = None; continue
            m = re.match(r'^(?:const|static) (?:mut )?(.+): ([^=]+?) = \{$', line)
            if m:
                cur = Fn('const ' + m.group(1).strip(), [], m.group(2)); cur.crate = crate
                keep = cur.name not in fns
                if keep: fns[cur.name] = cur
                blk = None
            else:
                cur = None
            continue
        if line.startswith('promoted[') or (line and not line[0].isspace() and line[0] not in '}/'):
            cur = None; continue
        if cur is None or not keep: continue
        s = line.strip()
        if not s or s.startswith('//'): continue
        m = re.match(r'let (?:mut )?(_\d+): (.*);$', s)
        if m and blk is None:
            cur.locals[m.group(1)] = m.group(2); continue
        m = re.match(r'(bb\d+)( \(cleanup\))?: \{$', s)
        if m:
            blk = []; cur.raw[m.group(1)] = blk; continue
        if s == '}':
            blk = None; continue
        if blk is None: continue   # debug / scope lines
        blk.append(s[:-1] if s.endswith(';') else s)
    for f in fns.values():
        if f.hash is None:
            h = hashlib.sha1()
            for b in sorted(f.raw, key=lambda x: int(x[2:])):
                h.update(b.encode()); h.update('\n'.join(f.raw[b]).encode())
            f.hash = h.hexdigest()[:12]
            m = re.search(r'\{(?:closure|async block|async closure|async fn body)@([^}]*?)\}', f.params[0][1]) if f.params else None
            f.span = m.group(1) if m else None
    return fns


# ------------------------------------------------------------------ places / operands / rvalues
_place_cache = {}


def parse_place(t):
    r = _place_cache.get(t)
    if r is None:
        r = _parse_place(t.strip()); _place_cache[t] = r
    return r


def _parse_place(t):
    """-> (base, proj tuple, type annotation of the outermost field or None)
    proj elements: '*', int (field), ('v', variantname), ('idx', local), ('cidx', n)"""
    while t.startswith('(') and t.endswith(')') and _paren_balanced(t[1:-1]):
        t = t[1:-1].strip()
    if re.match(r'^_\d+$', t): return (t, (), None)
    if t.startswith('*'):
        b, p, _ = _parse_place(t[1:]); return (b, p + ('*',), None)
    # strip trailing ": Type" at depth 0
    d = 0; colon = None
    for i, c in enumerate(t):
        if c in '([{<': d += 1
        elif c in ')]}': d -= 1
        elif c == '>' and t[i - 1] not in '-=': d -= 1
        elif c == ':' and d == 0 and t[i:i + 2] == ': ': colon = i; break
    ty = None
    if colon is not None:
        ty = t[colon + 2:].strip(); t = t[:colon].strip()
    m = re.match(r'^(.*)\.(\d+)$', t)
    if m and _paren_balanced(m.group(1)):
        b, p, _ = _parse_place(m.group(1)); return (b, p + (int(m.group(2)),), ty)
    m = re.match(r'^(.*) as ([\w#]+)$', t)
    if m and _paren_balanced(m.group(1)):
        b, p, _ = _parse_place(m.group(1)); return (b, p + (('v', m.group(2)),), ty)
    m = re.match(r'^(.*)\[(_\d+)\]$', t)
    if m and _paren_balanced(m.group(1)):
        b, p, _ = _parse_place(m.group(1)); return (b, p + (('idx', m.group(2)),), ty)
    m = re.match(r'^(.*)\[(\d+) of (\d+)\]$', t)
    if m and _paren_balanced(m.group(1)):
        b, p, _ = _parse_place(m.group(1)); return (b, p + (('cidx', int(m.group(2))),), ty)
    m = re.match(r'^(.*)\[-(\d+) of (\d+)\]$', t)
    if m and _paren_balanced(m.group(1)):
        b, p, _ = _parse_place(m.group(1)); return (b, p + (('cidx_end', int(m.group(2))),), ty)
    m = re.match(r'^(.*)\[(\d+):(?:-(\d+))?\]$', t)           # subslice counted from the end: [a:] / [a:-b]
    if m and _paren_balanced(m.group(1)):
        b, p, _ = _parse_place(m.group(1)); return (b, p + (('sub', int(m.group(2)), int(m.group(3) or 0), True),), ty)
    m = re.match(r'^(.*)\[(\d+)\.\.(\d+)\]$', t)             # subslice [a..b]
    if m and _paren_balanced(m.group(1)):
        b, p, _ = _parse_place(m.group(1)); return (b, p + (('sub', int(m.group(2)), int(m.group(3)), False),), ty)
    raise Unmodelled('place ' + t)


def parse_operand(t):
    t = t.strip()
    if t.startswith('const '): return ('const', t[6:].strip())
    for kw, k in (('no_retag copy ', 'copy'), ('no_retag move ', 'move'), ('copy ', 'copy'), ('move ', 'move')):
        if t.startswith(kw): return (k, parse_place(t[len(kw):]))
    return ('fn', t)


BINOPS = ('AddWithOverflow', 'SubWithOverflow', 'MulWithOverflow', 'AddUnchecked', 'SubUnchecked', 'MulUnchecked',
          'Add', 'Sub', 'Mul', 'Div', 'Rem', 'BitAnd', 'BitOr', 'BitXor', 'Shl', 'Shr', 'Le', 'Lt', 'Ge', 'Gt', 'Eq', 'Ne', 'Offset', 'Cmp')
_binop_re = re.compile(r'^(' + '|'.join(BINOPS) + r')\((.*)\)$')


def parse_rvalue(rv):
    rv = rv.strip()
    if rv.startswith('&'):
        m = re.match(r'^&(mut |raw mut |raw const |fake shallow |fake )?(.*)$', rv)
        return ('ref', parse_place(m.group(2)), (m.group(1) or '').strip())
    m = _binop_re.match(rv)
    if m:
        a, b = split_top(m.group(2))
        return ('binop', m.group(1), parse_operand(a), parse_operand(b))
    m = re.match(r'^(Not|Neg|PtrMetadata)\((.*)\)$', rv)
    if m: return ('unop', m.group(1), parse_operand(m.group(2)))
    m = re.match(r'^discriminant\((.*)\)$', rv)
    if m: return ('discr', parse_place(m.group(1)))
    m = re.match(r'^Len\((.*)\)$', rv)
    if m: return ('len', parse_place(m.group(1)))
    if rv.startswith(('move ', 'copy ', 'const ', 'no_retag ')):
        i = find_top(rv, ' as ')
        if i >= 0 and rv.endswith(')') and not rv.startswith('const '):
            # cast:  copy _x as T (Kind)
            j = rv.rfind(' (')
            return ('cast', parse_operand(rv[:i]), rv[i + 4:j].strip(), rv[j + 2:-1])
        if i >= 0 and rv.startswith('const ') and re.search(r' \((IntToInt|PointerCoercion|Transmute|PtrToPtr)[^()]*(\([^()]*\))?\)$', rv):
            j = rv.rfind(' (', 0, rv.rfind('(') if rv.endswith('))') else len(rv))
            return ('cast', parse_operand(rv[:i]), rv[i + 4:j].strip(), rv[j + 2:-1])
        return ('use', parse_operand(rv))
    m = re.match(r'^\{(coroutine|closure|coroutine-closure)@([^}]*?)( \(#\d+\))?\}( \{ (.*) \})?$', rv)
    if m:
        caps = [parse_operand(x.split(': ', 1)[1]) for x in split_top(m.group(5))] if m.group(5) else []
        return ('closure', m.group(1), m.group(2), caps)
    if rv.startswith('[') and rv.endswith(']'):
        inner = rv[1:-1]
        if '; ' in inner and find_top(inner, '; ') >= 0:
            raise Unmodelled('array repeat ' + rv)
        return ('array', [parse_operand(x) for x in split_top(inner)])
    if rv.startswith('(') and rv.endswith(')') and _paren_balanced(rv[1:-1]):
        return ('tuple', [parse_operand(x) for x in split_top(rv[1:-1])])
    if rv == '()': return ('tuple', [])
    m = re.match(r'^(.+?) \{ (.*) \}$', rv)
    if m:
        names = []; ops = []
        for x in split_top(m.group(2)):
            k, v = x.split(': ', 1); names.append(k); ops.append(parse_operand(v))
        return ('struct', m.group(1), names, ops)
    m = re.match(r'^(.+) \{\s*\}$', rv)
    if m: return ('struct', m.group(1), [], [])
    # path with optional payload:   A::B::<T>::Variant(args)   or   A::B::Variant   or TupleStruct(args)
    if rv.endswith(')'):
        d = 0
        for i in range(len(rv) - 1, -1, -1):
            if rv[i] == ')': d += 1
            elif rv[i] == '(':
                d -= 1
                if d == 0: break
        return ('ctor', rv[:i], [parse_operand(x) for x in split_top(rv[i + 1:-1])])
    return ('ctor', rv, None)


def _unwind_action(t):
    t = t.strip()
    if t.startswith('unwind: '): return ('goto', t[8:].strip())
    if t == 'unwind continue': return ('continue',)
    if t.startswith('unwind terminate'): return ('terminate',)
    if t == 'unwind unreachable': return ('unreachable',)
    raise Unmodelled('unwind action ' + t)


def parse_stmt(s):
    if s.startswith(('StorageLive', 'StorageDead', 'nop', 'FakeRead', 'PlaceMention', 'AscribeUserType', 'Retag',
                     'Coverage', 'ConstEvalCounter', 'BackwardIncompatibleDropHint')):
        return ('nop',)
    if s.startswith('assume('): return ('assume', parse_operand(s[7:-1]))
    m = re.match(r'^discriminant\((.*)\) = (\d+)$', s)
    if m: return ('setdiscr', parse_place(m.group(1)), int(m.group(2)))
    m = re.match(r'^Deinit\((.*)\)$', s)
    if m: return ('nop',)
    cut = find_top(s, ' = ')
    if cut < 0: raise Unmodelled('stmt ' + s)
    return ('assign', parse_place(s[:cut]), parse_rvalue(s[cut + 3:]))


def parse_term(t):
    if t == 'return': return ('return',)
    if t == 'unreachable': return ('unreachable',)
    if t == 'resume': return ('resume',)
    if t.startswith(('terminate', 'abort')): return ('terminate',)
    m = re.match(r'^goto -> (bb\d+)$', t)
    if m: return ('goto', m.group(1))
    m = re.match(r'^(?:falseEdge|falseUnwind) -> \[real: (bb\d+),.*\]$', t)
    if m: return ('goto', m.group(1))
    m = re.match(r'^switchInt\((.*)\) -> \[(.*)\]$', t)
    if m:
        arms = []; other = None
        for a in m.group(2).split(', '):
            k, tgt = a.split(': ')
            if k == 'otherwise': other = tgt
            else: arms.append((int(k), tgt))
        return ('switch', parse_operand(m.group(1)), arms, other)
    m = re.match(r'^assert\((!?)(.*?), (".*").*\) -> \[success: (bb\d+), (unwind.*)\]$', t)
    if m:
        return ('assert', bool(m.group(1)), parse_operand(m.group(2)), m.group(3), m.group(4), _unwind_action(m.group(5)))
    m = re.match(r'^drop\((.*)\) -> \[return: (bb\d+), (unwind.*)\]$', t)
    if m: return ('drop', parse_place(m.group(1)), m.group(2), _unwind_action(m.group(3)))
    m = re.match(r'^(.*) -> \[return: (bb\d+), (unwind.*)\]$', t)
    ret = None; unw = None; body = None
    if m:
        body, ret, unw = m.group(1), m.group(2), _unwind_action(m.group(3))
    else:
        m = re.match(r'^(.*) -> (unwind.*)$', t)
        if m: body, unw = m.group(1), _unwind_action(m.group(2))
        else:
            # diverging call whose only successor is its cleanup block
            m = re.match(r'^(.* = .*\)) -> (bb\d+)$', t)
            if m: body, unw = m.group(1), ('goto', m.group(2))
    if body is None: raise Unmodelled('terminator ' + t)
    cut = find_top(body, ' = ')
    if cut < 0: raise Unmodelled('call terminator ' + t)
    dest = parse_place(body[:cut]); rest = body[cut + 3:]
    d = 0; i = len(rest) - 1
    for i in range(len(rest) - 1, -1, -1):
        if rest[i] == ')': d += 1
        elif rest[i] == '(':
            d -= 1
            if d == 0: break
    callee = rest[:i].strip(); argtxt = rest[i + 1:-1]
    args = [parse_operand(a) for a in split_top(argtxt)]
    return ('call', dest, callee, args, ret, unw)


def blocks_of(f):
    """lazily parsed blocks: dict bb -> (stmts list, term)"""
    if f.blocks is None:
        bl = {}
        for b, lines in f.raw.items():
            if not lines: raise Unmodelled(f'empty block {b} in {f.name}')
            bl[b] = ([parse_stmt(x) for x in lines[:-1]], parse_term(lines[-1]))
        f.blocks = bl
    return f.blocks


def parse_all(fns):
    """parse every body eagerly (self-test: the parser must accept the whole dump)"""
    n = 0
    for f in fns.values():
        n += len(blocks_of(f))
    return n
