"""Bounded symbolic exploration world for the managed pool + the property oracles C01-C04, C06-C11, C13."""
import z3
from .mir import Unmodelled
from .core import (I, Agg, Ref, Opaque, UNINIT, UNIT, NONE, mk_enum, some, payload, is_sym, simp, z, b_not, b_and, b_or,
                   binop, InternalError, State, Thread)
from .managed import ManagedWorld, FRESH
from . import explore

GHOST_KEYS = ('hbk', 'cwi', 'objs', 'closed_ret', 'idleq', 'trail', 'resizes', 'hand', 'flags', 'retained_ids', 'created_at', 'met_shadow', 'pool_gone')


def dur(secs, nanos=0):
    return Agg('Duration', [secs if not isinstance(secs, int) else I(secs), I(nanos, 32)])


_probe_cache = {}
def lock_probe_sites(prog):
    """True iff some function of the deadpool crates calls Mutex::try_lock / is_poisoned / RwLock::try_* (the unchanged crate does not)"""
    fns = prog[0] if isinstance(prog, tuple) else getattr(prog, 'fns', prog)
    k = id(fns)
    if k not in _probe_cache:
        hit = False
        for f in (fns.values() if isinstance(fns, dict) else ()):
            if not (getattr(f, 'crate', None) or '').startswith('deadpool'): continue
            for lines in f.raw.values():
                if any(('::try_lock(' in l or '::is_poisoned(' in l or '::try_read(' in l or '::try_write(' in l) for l in lines): hit = True; break
            if hit: break
        _probe_cache[k] = hit
    return _probe_cache[k]


class ManagedBSE:
    def __init__(s, prog, cfg):
        c = {
            'tasks': 2, 'max_gets': 2, 'max_size_bound': 2, 'depth': 8,
            'env': {}, 'hooks': (), 'lifo': None,             # None = symbolic choice (both explored)
            'timeout_variants': [None],                        # None = pool.get(); or tuples of 3 entries from {None,'zero','pos'}
            'pool_timeouts': (None, None, None), 'runtime': True,
            'ctl': (),                                         # controller actions: 'status','resize','close','retain'
            'resize_targets': (0, 1, 2, 3), 'max_ctl': 2,
            'take': True, 'cancel': True,
            'oracles': ('C01', 'C02', 'C11'),
            'probe': True,
            'thread_mode': False,
        }
        c.update(cfg); s.cfg = c
        s.W = ManagedWorld(prog, c['env'])
        s.M = s.W.M
        s.M.task_mode = not c['thread_mode']
        s.M.fine_points = bool(c.get('fine')); s.M.allow_block = True
        # Reduction side condition.  User callbacks that run while the calling thread holds the slots lock are normally
        # not schedule points: every other thread that wants to look at the pool blocks on lock(), so the critical
        # section is atomic for them.  That argument fails as soon as the crate probes a lock without blocking
        # (try_lock, is_poisoned): then the callbacks under the lock become schedule points too, other threads block
        # on lock() and see WouldBlock from try_lock().  Such traces have no native realisation (a blocked thread
        # resumes on its own, racing the lock holder) and are reported on the engine's evidence.
        s.M.lock_probe = lock_probe_sites(prog)
        s.tasks = list(c.get('task_names') or [f'T{i + 1}' for i in range(c['tasks'])])
        s.probe_cache = {}
        s.nprobes = 0
        s.susp = {}

    # ------------------------------------------------------------- initial states
    def init_states(s):
        out = []
        lifos = [False, True] if s.cfg['lifo'] is None else [s.cfg['lifo']]
        for lifo in lifos:
            st = State()
            if s.cfg.get('max_size_concrete') is not None:
                ms = I(s.cfg['max_size_concrete'])
            else:
                ms = z3.BitVec('max_size', 64); st.assume(z3.ULE(ms, s.cfg['max_size_bound']))
            pt = tuple(s.tv_value(st, v, f'pool_{n}') for v, n in zip(s.cfg['pool_timeouts'], ('wait', 'create', 'recycle')))
            for st1, r in s.W.build_pool(st, ms, queue_lifo=lifo, timeouts=pt, runtime=s.cfg['runtime'], hooks=s.cfg['hooks']):
                if st1.log and any(e[0] in ('create_call', 'hook_call', 'recycle_call', 'detach', 'pred_call') for e in st1.log):
                    st1.gset('flags', st1.gget('flags', ()) + ('build_called_user_code',))
                st1.gset('build_log', st1.log)
                if r[0] != 'ok' or r[1].variant != 'Ok':
                    st1.gset('build_result', r); out.append(st1); continue
                proot = st1.alloc(payload(r[1]))
                st1.gset('pool', proot); st1.gset('max_size', ms); st1.gset('lifo', lifo)
                st1.gset('objs', {}); st1.gset('idleq', ()); st1.gset('trail', {}); st1.gset('resizes', ()); st1.gset('hand', ())
                for t in s.tasks + ['C', 'S']:
                    th = s.W.thread(st1, t); th.local = {'gets': 0, 'objs': (), 'nctl': 0}
                st1.threads.pop('main', None)
                st1.log = (('init', 'lifo' if lifo else 'fifo'),)
                out.append(st1)
        if s.cfg.get('prefix'):
            # a prefix of operations executed atomically (task mode) before the exploration proper starts
            saved = s.M.task_mode; s.M.task_mode = True
            try:
                for a in s.cfg['prefix']:
                    out = [y for x in out if x.gget('pool') is not None for y in s.apply(x, tuple(a))]
            finally:
                s.M.task_mode = saved
        return out

    def tv_value(s, st, v, name):
        if v is None: return None
        if v == 'zero': return dur(0)
        if v == 'pos':
            x = z3.BitVec(f'dur_{name}', 64); st.assume(z3.UGT(x, 0)); return dur(x)
        raise ValueError(v)

    # ------------------------------------------------------------- actions
    def actions(s, st):
        if st.gget('pool_gone'):
            # every pool handle is gone: the objects that are still out can only be used, returned (= dropped) or taken
            acts = [('step', t) for t in s.tasks if st.threads[t].stack and not s.blocked(st, t)]
            for t in s.tasks:
                if st.threads[t].stack or not st.threads[t].local['objs']: continue
                acts.append(('drop', t, 0))
                if s.cfg['take']: acts.append(('take', t, 0))
            return acts
        if st.gget('pool') is None: return []
        acts = []
        for t in s.tasks + ['C']:
            if st.threads[t].stack and not s.blocked(st, t): acts.append(('step', t))
        if s.cfg.get('max_preempt') is not None and acts:
            # preemption bounding: while some thread is in the middle of an operation, starting or resuming another
            # thread counts as a preemption
            pass
        for t in s.tasks:
            th = st.threads[t]; L = th.local
            if th.stack: continue
            if 'fut' in L:
                acts.append(('poll', t))
                if s.cfg['cancel']: acts.append(('cancel', t))
            elif L['gets'] < s.cfg['max_gets']:
                for i, tv in enumerate(s.cfg['timeout_variants']): acts.append(('get', t, i))
            for i in range(len(L['objs'])):
                acts.append(('drop', t, i))
                if s.cfg['take']: acts.append(('take', t, i))
                break      # objects held by one task are interchangeable up to renaming: act on the first only
            # a task may act as a second controller (two resize() calls racing): cfg task_ctl = {task: (('resize', n), ...)}
            if 'fut' not in L and L.get('tctl', 0) < 1:
                for act in (s.cfg.get('task_ctl') or {}).get(t, ()): acts.append(tuple(act) + (t,))
        C = st.threads['C'].local
        if C['nctl'] < s.cfg['max_ctl'] and not st.threads['C'].stack:
            for a in s.cfg['ctl']:
                if a == 'resize':
                    for n in s.cfg['resize_targets']: acts.append(('resize', n))
                elif a == 'drop_pool':
                    # the last handle can only go away while no get() future (which borrows a handle) exists
                    if not any('fut' in st.threads[t].local or st.threads[t].stack for t in s.tasks): acts.append((a,))
                else:
                    acts.append((a,))
        return acts

    # ------------------------------------------------------------- apply
    # Every harness operation is a small state machine (phases) whose MIR runs on the operation's thread.  In task mode
    # an operation runs to completion; in thread mode it stops at every schedule point (`verif::point`, user callbacks)
    # and is resumed by a ('step', thread) action.
    def blocked(s, st, t):
        ap = st.threads[t].at_point
        if isinstance(ap, tuple) and ap[0] == 'blocked' and ap[1] is not None:
            m = s.M.deref(st, ap[1])
            return m.f[1] != Opaque('unlocked')
        return False

    def thread_of(s, a):
        if a[0] in ('get', 'poll', 'cancel', 'drop', 'take', 'step'): return a[1]
        if a[0] in ('resize', 'close') and len(a) > (2 if a[0] == 'resize' else 1): return a[-1]
        return 'C'

    def apply(s, st, a):
        pre = st
        st = st.clone()
        st.log = st.log + (('act',) + tuple(a),)
        st.gset('last', None); st.gset('seen', ())
        if a[0] == 'drop_pool':
            proot = st.gget('pool'); pool = st.heap.pop(proot)
            st.gset('pool_gone', True); st.gset('pool', None); st.threads['C'].local['nctl'] += 1
            outs = []
            for st1, r in s.W.drop(st, 'C', [pool]):
                st1.gset('last', {'act': a, 'op': a, 'task': 'C', 'res': ('ok',) if r and r[0] == 'ok' else ('panic',), 'done': True})
                outs.append(st1)
            return outs
        t = s.thread_of(a)
        th = st.threads[t]; th.at_point = None
        if a[0] == 'step':
            states = [st]
        else:
            states = s.begin(st, t, a)
        outs = []
        work = list(states)
        while work:
            x = work.pop()
            thx = x.threads[t]
            if thx.stack:
                for y in s.M.run(x, t):
                    if y.threads[t].stack:
                        pt = y.threads[t].at_point
                        op = y.threads[t].local.get('op')
                        y.gset('last', {'act': a, 'op': op[0] if op else a, 'task': t, 'res': ('at_point', pt), 'done': False})
                        outs.append(y)
                    else: work.append(y)
                continue
            op = thx.local.get('op')
            if op is None:
                outs.append(x); continue
            for y in s.op_next(x, t, op, thx.result): work.append(y)
        for o in outs:
            for th2 in o.threads.values():
                if not th2.stack: th2.panicking = False; th2.result = None
            last = o.gget('last') or {}
            o.gset('pending_vio', tuple(s.digest(pre, last.get('op', a), o)))
        return outs

    def set_op(s, st, t, a, phase, **data):
        st.threads[t].local['op'] = (a, phase, data)

    def end_op(s, st, t, a, res, **kw):
        st.threads[t].local.pop('op', None)
        d = {'act': a, 'op': a, 'task': t, 'res': res, 'done': True}; d.update(kw)
        st.gset('last', d)
        return [st]

    def begin(s, st, t, a):
        kind = a[0]; proot = st.gget('pool'); W = s.W; th = st.threads[t]; th.result = None
        if kind == 'get':
            tvs = s.cfg['timeout_variants'][a[2]]
            th.local['gets'] += 1
            s.note_get_start(st, t, tvs)
            s.set_op(st, t, a, 'started')
            if tvs is None:
                s.M.push_mir(st, th, W.F('::get'), [Ref(proot)])
            else:
                vals = [s.tv_value(st, v, f'{t}_{th.local["gets"]}_{n}') for v, n in zip(tvs, ('wait', 'create', 'recycle'))]
                troot = st.alloc(Agg('Timeouts', [NONE if v is None else some(v) for v in vals]))
                s.M.push_mir(st, th, W.F('::timeout_get'), [Ref(proot), Ref(troot)])
            return [st]
        if kind == 'poll':
            s.set_op(st, t, a, 'polling')
            return s.push_poll(st, t)
        if kind == 'cancel':
            fut = st.heap.pop(th.local.pop('fut')); s.note_susp(fut)
            s.set_op(st, t, a, 'dropping', res=('cancelled',))
            s.M.start_drop(st, th, [fut]); return [st]
        if kind in ('drop', 'take'):
            objs = list(th.local['objs']); oroot = objs.pop(a[2]); th.local['objs'] = tuple(objs)
            obj = st.heap.pop(oroot); oid = s.obj_id(st, obj)
            if st.threads['C'].stack and (st.threads['C'].local.get('op') or ((None,),))[0][0] == 'resize' and 'shrink_overlaps_release' not in st.gget('flags', ()):
                st.gset('flags', st.gget('flags', ()) + ('shrink_overlaps_release',))
            if kind == 'drop':
                s.note_return(st, oid)
                if st.gget('close_started') and not st.gget('closed_ret'): st.gset('close_overlap', True)
                s.set_op(st, t, a, 'dropping', res=('ok',), oid=oid, after_close=bool(st.gget('closed_ret')))
                s.M.start_drop(st, th, [obj])
            else:
                # Object::take consumes the Object: from here on the value is the caller's, not the pool's
                s.W.env.g_obj(st, oid, handed='+1'); st.logev('handed', oid, 'take')
                s.set_op(st, t, a, 'taking', oid=oid)
                s.M.push_mir(st, th, W.F('::take'), [obj])
            return [st]
        if t == 'C': st.threads['C'].local['nctl'] += 1
        else: th.local['tctl'] = th.local.get('tctl', 0) + 1
        if kind == 'status':
            s.set_op(st, t, a, 'simple'); s.M.push_mir(st, th, W.F('::status'), [Ref(proot)])
        elif kind == 'is_closed':
            s.set_op(st, t, a, 'simple'); s.M.push_mir(st, th, W.F('::is_closed'), [Ref(proot)])
        elif kind == 'resize':
            s.note_resize(st, a[1])
            st.gset('resizes', st.gget('resizes', ()) + (a[1],))
            s.set_op(st, t, a, 'simple'); s.M.push_mir(st, th, W.F('::resize'), [Ref(proot), I(a[1])])
        elif kind == 'close':
            st.gset('close_started', True)
            if any(st.threads[x].stack and (st.threads[x].local.get('op') or (None,))[0][0] == 'drop' for x in s.tasks): st.gset('close_overlap', True)
            s.set_op(st, t, a, 'simple'); s.M.push_mir(st, th, W.F('::close'), [Ref(proot)])
        elif kind == 'retain':
            st.gset('pred_removed', ())
            s.set_op(st, t, a, 'retaining')
            s.M.push_mir(st, th, W.F('::retain'), [Ref(proot), Agg('Pred', [I(0)])])
        else:
            raise ValueError(a)
        return [st]

    def push_poll(s, st, t):
        th = st.threads[t]; th.result = None
        r = s.M.dispatch(st, th, '<F as Future>::poll', [Agg('Pin', [Ref(th.local['fut'])]), UNIT])
        if r is None: return [st]
        out = []
        for st2, flag in r:
            out.append(st2)
        return out

    def op_next(s, st, t, op, result):
        """the current phase of thread t's operation finished with `result` (('ok', value) | ('panic',) | ('abort',))"""
        a, phase, data = op; th = st.threads[t]; L = th.local; th.result = None
        if phase == 'started':          # get: future created -> first poll
            if result[0] != 'ok': return s.end_op(st, t, a, ('panic',))
            L['fut'] = st.alloc(result[1]); s.set_op(st, t, a, 'polling')
            return s.push_poll(st, t)
        if phase == 'polling':
            if result[0] != 'ok':
                # panic escaped get(): the future (now in state `panicked`) is dropped by the unwinding caller
                fut = st.heap.pop(L.pop('fut'))
                th.panicking = False
                s.set_op(st, t, a, 'dropping', res=('panic',)); s.M.start_drop(st, th, [fut]); return [st]
            p = result[1]
            if p.variant == 'Pending': return s.end_op(st, t, a, ('pending',))
            st.heap.pop(L.pop('fut'))
            res = payload(p)
            if res.variant == 'Ok':
                obj = payload(res); oid = s.obj_id(st, obj)
                oroot = st.alloc(obj); L['objs'] = L['objs'] + (oroot,)
                s.W.env.g_obj(st, oid, handouts='+1'); st.logev('handout', oid, t)
                return s.end_op(st, t, a, ('ok', 'object'), oid=oid, oroot=oroot)
            e = payload(res)
            desc = e.variant + (':' + payload(e).variant if e.variant == 'Timeout' else '')
            st.logev('get_err', t, desc)
            s.set_op(st, t, a, 'dropping', res=('err', desc)); s.M.start_drop(st, th, [e]); return [st]
        if phase == 'dropping':
            res = data['res'] if result[0] == 'ok' else result
            return s.end_op(st, t, a, res, **{k: v for k, v in data.items() if k != 'res'})
        if phase == 'taking':
            if result[0] != 'ok': return s.end_op(st, t, a, result, oid=data['oid'])
            s.set_op(st, t, a, 'dropping', res=('ok', 'taken'), oid=data['oid']); s.M.start_drop(st, th, [result[1]]); return [st]
        if phase == 'simple':
            if a[0] == 'close' and result[0] == 'ok':
                st.gset('closed_ret', True)
                # every get() that is waiting for a slot at this moment must end with Closed
                calls = dict(st.gget('calls', {})); q = set(s.queued_tasks(st))
                for o in calls:
                    if o in q: calls[o] = dict(calls[o], waiting_at_close=True)
                st.gset('calls', calls)
            return s.end_op(st, t, a, result)
        if phase == 'retaining':
            if result[0] != 'ok': return s.end_op(st, t, a, result)
            rr = result[1]; removed = rr.f[1].items(); ids = tuple(s.W.env.oid_of(s.M, st, o) for o in removed)
            for oid in ids:
                s.W.env.g_obj(st, oid, handed='+1'); st.logev('handed', oid, 'retain')
            s.set_op(st, t, a, 'dropping', res=('ok', 'retain'), retained=rr.f[0], removed=ids, pred_removed=st.gget('pred_removed', ()))
            s.M.start_drop(st, th, removed); return [st]
        raise InternalError('op phase ' + phase)

    def obj_id(s, st, obj):
        """ground-truth id of the pooled object inside an Object wrapper (harness-owned identity tag)"""
        def walk(v):
            if isinstance(v, Agg):
                if v.ty == 'Obj': return v.f[0].tag
                for x in v.f.values():
                    r = walk(x)
                    if r: return r
            return None
        r = walk(obj)
        if r is None: raise InternalError('Object without pooled value')
        return r

    # ------------------------------------------------------------- ghost notes
    def note_get_start(s, st, t, tvs):
        calls = dict(st.gget('calls', {}))
        calls[t] = {'after_resize': len(st.gget('resizes', ())), 'after_close': bool(st.gget('closed_ret')), 'tv': tvs,
                    'snap': s.snapshot(st), 'clean': True, 'inhand': (), 'nogets': st.threads[t].local['gets'],
                    'began': sum(1 for e in st.log if e[0] == 'act')}
        for o in calls:
            if o != t: calls[o] = dict(calls[o], clean=False)
        st.gset('calls', calls)

    def note_return(s, st, oid): pass

    def cur_max(s, st):
        if st.gget('closed_ret'): return I(0)
        r = st.gget('resizes')
        return I(r[-1]) if r else st.gget('max_size')

    def note_resize(s, st, n):
        """classify the resize against ground truth (roles of the known C07 findings)"""
        if st.gget('closed_ret'): return
        cm = s.cur_max(st); live = len(s.live_ids(st)); fl = st.gget('flags', ())
        if s.M.feasible(st, z(binop('Lt', I(n), cm))):
            # K-C07a: the shrink loop stops as soon as size <= n, so never-used capacity survives -- unless more than n objects
            # are checked out / in hand at that moment: then the loop runs until the semaphore is empty and removes it too
            notidle = live - len(st.gget('idleq', ()))
            if s.M.feasible(st, z(binop('Lt', I(live), cm))) and n >= notidle and 'shrink_unused' not in fl: fl = fl + ('shrink_unused',)
            if s.semaphore(st).f[3] and 'shrink_assigned_waiter' not in fl: fl = fl + ('shrink_assigned_waiter',)
            if any(st.threads[x].stack and (st.threads[x].local.get('op') or ((None,),))[0][0] in ('drop', 'take') for x in s.tasks) and 'shrink_overlaps_release' not in fl:
                fl = fl + ('shrink_overlaps_release',)
        if s.M.feasible(st, z(binop('Gt', I(n), cm))):
            if s.M.feasible(st, z(binop('Gt', I(live), cm))) and 'grow_with_surplus' not in fl: fl = fl + ('grow_with_surplus',)
        st.gset('flags', fl)

    def snapshot(s, st):
        """ground truth + real status() (on a scratch copy) for the single-task differential of C03"""
        if s.any_lock_held(st): return {'status': None, 'live': tuple(sorted(s.live_ids(st))), 'permits': s.semaphore(st).f[0], 'queue': 0, 'assigned': 0}
        sc = st.clone()
        res = s.W.status(sc, 'S', sc.gget('pool'))
        S = res[0][1][1] if len(res) == 1 and res[0][1][0] == 'ok' else None
        sem = s.semaphore(st)
        return {'status': None if S is None else tuple(S.items()), 'live': tuple(sorted(s.live_ids(st))),
                'permits': sem.f[0], 'queue': len(sem.f[2]), 'assigned': len(sem.f[3])}

    def semaphore(s, st):
        found = []
        def walk(v):
            if isinstance(v, Agg):
                if v.ty == 'Semaphore': found.append(v); return
                if v.ty in ('Obj',): return
                for x in v.f.values(): walk(x)
        pool = st.heap[st.gget('pool')]
        walk(st.heap[pool.f[0].f[0].root])
        if len(found) != 1: raise InternalError('semaphore of the pool not found')
        return found[0]

    def note_susp(s, fut):
        def walk(v, acc):
            if isinstance(v, Agg):
                if v.ty.startswith('{coroutine') and v.discr is not None and v.discr >= 3:
                    acc.append((v.variant.split('::', 1)[-1][-60:], v.discr))
                for x in v.f.values(): walk(x, acc)
        acc = []; walk(fut, acc)
        key = tuple(acc)
        s.susp[key] = s.susp.get(key, 0) + 1

    # ------------------------------------------------------------- key / describe
    def key(s, st):
        roots = []
        if st.gget('pool') is not None: roots.append(st.gget('pool'))
        for t in sorted(st.threads):
            L = st.threads[t].local
            if 'fut' in L: roots.append(L['fut'])
            roots.extend(L.get('objs', ()))
        return explore.state_key(st, roots, GHOST_KEYS)

    def describe(s, st):
        return {'trace': [list(map(str, e)) for e in st.log if e[0] in ('init', 'act', 'env')], 'pc': [c.sexpr() for c in st.pc]}

    def observe(s, st):
        """what the native driver prints after every action: status() and the guarded snapshot accessor, both run on the MIR"""
        if st.gget('pool') is None: return None, None
        if s.any_lock_held(st): return None, None        # a parked thread holds the slots lock: the native observer times out as well
        sc = st.clone()
        r = s.W.status(sc, 'S', sc.gget('pool'))
        S = r[0][1][1]
        sc = st.clone()
        r = s.W.call(sc, 'S', s.W.F('::verif_snapshot'), [Ref(sc.gget('pool'))])
        N = r[0][1][1]
        def val(x): return x.v if isinstance(x, I) else (bool(x) if isinstance(x, bool) else repr(x))
        return [val(S.f[i]) for i in range(4)], {'permits': val(N.f[0]), 'closed': val(N.f[1]), 'size': val(N.f[2]), 'max_size': val(N.f[3]),
                                                  'users': val(N.f[4]), 'idle': val(N.f[5])}

    # ------------------------------------------------------------- oracles
    def live_ids(s, st):
        return [k for k, r in st.gget('objs', {}).items() if r['destroyed'] == 0 and r['handed'] == 0]

    def vio(s, prop, what, st, **kw):
        d = {'property': prop, 'what': what}; d.update(kw)
        ms = st.gget('max_size')
        if isinstance(ms, I): d['model'] = {'max_size': ms.v}
        else:
            m = s.M.model(st)
            d['model'] = {'max_size': m.eval(ms, model_completion=True).as_long()} if m is not None else {}
        subs = st.gget('sub_durs', ())
        if subs:
            m = s.M.model(st)
            if m is not None:
                for n in subs: d['model'][n] = m.eval(z3.BitVec(n, 32), model_completion=True).as_long() or 1
        return d

    def check_gone(s, st):
        """after the last pool handle is gone (C06: objects that outlive every handle can still be used and dropped safely)"""
        out = []; O = s.cfg['oracles']; p = 'C06' if 'C06' in O else O[0]
        if st.gget('deadpool_panics'): out.append(s.vio(p, 'panic raised inside deadpool after the last pool handle was dropped: ' + st.gget('deadpool_panics')[-1], st)); return out
        last = st.gget('last') or {}
        if last.get('res') and last['res'][0] == 'panic': out.append(s.vio(p, f'{last.get("act")} panicked after the last pool handle was dropped', st)); return out
        if 'C08' in O and last.get('act') and last['act'][0] == 'drop_pool':
            # C08: the manager, hooks and predicates are invoked only from inside get / retain / take / resize / close / the return of an
            # object - dropping the last pool handle is none of these (the idle objects are simply dropped)
            i = max(k for k, e in enumerate(st.log) if e[0] == 'act')
            for e in st.log[i + 1:]:
                if e[0] in ('detach', 'pred_call', 'create_call', 'recycle_call', 'hook_call'):
                    out.append(s.vio('C08', f'the manager was invoked ({e[0]} {e[1]}) while the last pool handle was dropped - not one of get / retain / take / resize / close / the return of an object', st)); break
        objs = st.gget('objs', {})
        for o, r in objs.items():
            if r['destroyed'] > 1: out.append(s.vio(p, f'object {o} destroyed twice', st))
        if not any(st.threads[t].stack or st.threads[t].local['objs'] for t in s.tasks):
            for o, r in objs.items():
                # (a value handed out by take() is dropped by the harness right away, so every object ends destroyed exactly once)
                if r['destroyed'] != 1: out.append(s.vio(p, f'after the pool was dropped and every outstanding object was returned or taken, object {o} was destroyed {r["destroyed"]} times', st))
        return out

    def check(s, st0, a, st):
        out = []
        if st.gget('pool_gone'): return s.check_gone(st)
        if st.gget('pool') is None: return out
        O = s.cfg['oracles']; last = st.gget('last') or {}
        ms = st.gget('max_size')
        objs = st.gget('objs', {})
        # --- generic: deadpool-raised panics, deadlocks, aborts (C02 / C11 "no counter wraps" in dev profile)
        if st.gget('deadpool_panics') and ('C02' in O or 'C11' in O):
            msg = st.gget('deadpool_panics')[-1]
            out.append(s.vio('C11' if 'overflow' in msg and 'C11' in O else ('C02' if 'C02' in O else 'C11'), 'panic raised inside deadpool: ' + msg, st))
            return out
        if st.gget('deadlocks') and 'C02' in O:
            out.append(s.vio('C02', 'self-deadlock on a pool mutex', st)); return out
        for o, r in objs.items():
            if r['destroyed'] > 1: out.append(s.vio(O[0], f'object {o} destroyed twice', st))
        if 'C01' in O and not st.gget('resizes') and not st.gget('close_started'):
            live = len(s.live_ids(st))
            if s.M.feasible(st, z(binop('Gt', I(live), ms))):
                out.append(s.vio('C01', f'{live} live objects exceed max_size', st))
        out.extend(v for v in st.gget('pending_vio', ()) if v['property'] in O)
        return out

    def check_state(s, st):
        out = []
        if st.gget('pool') is None: return out
        O = s.cfg['oracles']
        busy = any(st.threads[t].stack for t in s.tasks + ['C'])
        if busy and all(s.blocked(st, t) for t in s.tasks + ['C'] if st.threads[t].stack):
            out.append(s.vio('C02' if 'C02' in O else O[0], 'deadlock: every thread that is inside a pool operation waits for a lock', st)); return out
        if 'C06' in O and st.gget('closed_ret') and not busy:
            live = len(s.live_ids(st)); out_n = sum(len(st.threads[t].local['objs']) for t in s.tasks)
            idle = live - out_n - s.in_progress_objs(st)
            if idle > 0:
                d = s.vio('C06', f'a closed pool keeps {idle} idle object(s)', st)
                if st.gget('close_overlap'): d['known'] = 'K-C06'; d['what'] = 'an object returned concurrently with close() stays idle in the closed pool'
                out.append(d)
            for t in s.queued_tasks(st):
                out.append(s.vio('C06', f'{t} is still queued for a slot after close() returned', st))
            if not out and not s.any_lock_held(st) and not any('fut' in st.threads[t].local for t in s.tasks):
                # ... and says so: at rest status() of the closed pool reports max_size 0 and nothing available
                sc = st.clone(); r = s.W.status(sc, 'S', sc.gget('pool'))
                if len(r) == 1 and r[0][1][0] == 'ok':
                    S = r[0][1][1]
                    if s.M.feasible(sc, z(binop('Ne', S.f[0], I(0)))): out.append(s.vio('C06', f'status() of the closed pool reports max_size {S.f[0]!r}', st))
                    if s.M.feasible(sc, z(binop('Ne', S.f[2], I(0)))): out.append(s.vio('C06', f'status() of the closed pool reports {S.f[2]!r} available object(s)', st))
        if out and any(not v.get('known') for v in out): return out
        if 'C02' in O and not busy and not st.gget('close_started') and not st.gget('resizes'):
            # "a get() that is waiting is completed as soon as capacity becomes free": at rest nobody may be queued for a slot while an
            # object sits idle or fewer than max_size objects exist
            q = s.queued_tasks(st)
            inflight = [t for t in s.tasks if 'fut' in st.threads[t].local and t not in q]        # these hold (or were promised) a permit
            if q and not inflight:
                live = len(s.live_ids(st)); out_n = sum(len(st.threads[t].local['objs']) for t in s.tasks)
                idle = live - out_n - s.in_progress_objs(st)
                if idle > 0 or s.M.must(st, z(binop('Lt', I(live), st.gget('max_size')))):
                    out.append(s.vio('C02', f'{q} wait(s) for a slot although {idle} object(s) are idle and only {live} exist: a waiter is stranded', st))
                    return out
        if 'C11' in O and not s.any_lock_held(st): out.extend(s.check_status(st))
        if out: return out
        if ('C02' in O or 'C09' in O) and s.cfg['probe'] and not busy: out.extend(s.probe(st))      # C09: retain / take must not cost capacity either
        if 'C07' in O and st.gget('resizes') and not st.gget('closed_ret') and not busy:
            out.extend(s.check_resized(st))
        if 'C09' in O and 'C07' not in O and s.cfg['probe'] and st.gget('resizes') and not st.gget('closed_ret') and not busy \
                and not set(st.gget('flags', ())) & {'shrink_unused', 'grow_with_surplus'} and not any('fut' in st.threads[t].local for t in s.tasks):
            # take()/return after a shrink must leave exactly the last max_size usable (histories playing the known C07 roles are left to C07)
            for v in s.capacity_probe(st, I(st.gget('resizes')[-1]), 'C09'):
                v['what'] = 'take()/return after resize: ' + v['what']; out.append(v)
        return out

    def any_lock_held(s, st):
        """fine mode: a thread preempted inside a critical section holds the slots lock; status() would block"""
        if not (s.cfg.get('fine') or s.M.lock_probe): return False
        held = False
        def walk(v):
            nonlocal held
            if isinstance(v, Agg):
                if v.ty == 'Mutex':
                    if v.f[1] != Opaque('unlocked'): held = True
                    return
                if v.ty == 'Obj': return
                for x in v.f.values(): walk(x)
        pool = st.heap[st.gget('pool')]
        walk(st.heap[pool.f[0].f[0].root])
        return held

    def c07_known(s, st, d):
        fl = st.gget('flags', ())
        if d.get('lost'): return d
        if 'shrink_unused' in fl: d['known'] = 'K-C07a'
        elif 'grow_with_surplus' in fl: d['known'] = 'K-C07b'
        elif 'shrink_assigned_waiter' in fl: d['known'] = 'K-C07c'
        elif 'shrink_overlaps_release' in fl: d['known'] = 'K-C07d'
        return d

    def check_resized(s, st):
        out = []
        n = st.gget('resizes')[-1]
        sc = st.clone(); r = s.W.status(sc, 'S', sc.gget('pool'))
        S = r[0][1][1]
        if s.cfg.get('cap_from_status') and isinstance(S.f[0], I):
            # two resize() calls overlapped: which one was "last" is decided by the order in which they took the slots lock;
            # the pool's own max_size is the reference and the capacity must match it
            n = S.f[0].v
        if s.M.feasible(sc, z(binop('Ne', S.f[0], I(n)))):
            out.append(s.vio('C07', f'status().max_size is {S.f[0]!r} after resize({n})', st)); return out
        out_n = sum(len(st.threads[t].local['objs']) for t in s.tasks)
        # admission: objects handed out by get() calls that started after the last resize returned
        if s.cfg['probe'] and not any('fut' in st.threads[t].local for t in s.tasks):
            for v in s.capacity_probe(st, I(n), 'C07'):
                v['what'] = f'after resize({n}) ' + v['what']
                out.append(s.c07_known(st, v))
        return out

    # status(): exact at rest, plausible otherwise  (run on a scratch copy, the real status() MIR)
    def check_status(s, st):
        out = []
        sc = st.clone()
        res = s.W.status(sc, 'S', sc.gget('pool'))
        if len(res) != 1 or res[0][1][0] != 'ok':
            return [s.vio('C11', 'status() did not return normally', st)]
        sc, r = res[0]; S = r[1]
        smax, ssize, savail, swait = S.f[0], S.f[1], S.f[2], S.f[3]
        live = len(s.live_ids(st))
        pending = [t for t in s.tasks if 'fut' in st.threads[t].local]
        queued = s.queued_tasks(st)
        out_n = sum(len(st.threads[t].local['objs']) for t in s.tasks)
        idle = live - out_n - s.in_progress_objs(st)
        busy = any(st.threads[t].stack for t in s.tasks + ['C'])
        at_rest = all(t in queued for t in pending) and not busy
        closed = st.gget('closed_ret')
        exp_max = I(0) if closed else (I(st.gget('resizes')[-1]) if st.gget('resizes') else st.gget('max_size'))
        def ne(x, y): return s.M.feasible(sc, z(binop('Ne', x, y)))
        def gt(x, y): return s.M.feasible(sc, z(binop('Gt', x, y)))
        if not busy and ne(smax, exp_max): out.append(s.vio('C11', f'status().max_size differs from the configured / last resized value', st))
        if at_rest:
            if ne(ssize, I(live)): out.append(s.vio('C11', f'at rest status().size != {live} objects that exist', st, status=repr(S)))
            if ne(savail, I(idle)): out.append(s.vio('C11', f'at rest status().available != {idle} idle objects', st, status=repr(S)))
            if ne(swait, I(len(queued))): out.append(s.vio('C11', f'at rest status().waiting != {len(queued)} blocked callers', st, status=repr(S)))
            if s.cfg['oracles'][0] == 'C03' and out and any(e[0] == 'act' and e[1] == 'cancel' for e in st.log):
                # C03: an abandoned get() leaves the pool as if it had never been made - at rest the accounting must equal the ground truth again
                out.append(s.vio('C03', f'after an abandoned get() the pool is not left as if the call had never been made: at rest status() reports {S!r} but {live} objects exist, {idle} idle, {len(queued)} callers blocked', st, status=repr(S)))
        else:
            creating = len(pending) + sum(1 for t in s.tasks if st.threads[t].stack)
            if gt(ssize, I(live + creating)): out.append(s.vio('C11', 'status().size exceeds objects that exist or are being created', st, status=repr(S)))
            if gt(savail, ssize): out.append(s.vio('C11', 'status().available exceeds size', st, status=repr(S)))
            ingets = len(pending) + sum(1 for t in s.tasks if st.threads[t].stack and (st.threads[t].local.get('op') or ((None,),))[0][0] in ('get', 'poll', 'cancel'))
            if gt(swait, I(ingets)): out.append(s.vio('C11', f'status().waiting exceeds the {ingets} callers inside get()', st, status=repr(S)))
        for v in (ssize, savail, swait):
            if gt(v, I(1 << 62)): out.append(s.vio('C11', 'a status counter wrapped around', st, status=repr(S)))
        if not st.gget('resizes') and not st.gget('close_started') and gt(ssize, smax):
            out.append(s.vio('C11', 'status().size exceeds max_size without any shrink', st, status=repr(S)))
        return out

    def queued_tasks(s, st):
        """tasks whose Acquire future is queued at the semaphore (environment-model state)"""
        res = []
        queued = set()
        def sems(v):
            if isinstance(v, Agg):
                if v.ty == 'Semaphore': queued.update(v.f[2]); return
                for x in v.f.values(): sems(x)
        for v in st.heap.values(): sems(v)
        for t in s.tasks:
            L = st.threads[t].local
            if 'fut' not in L: continue
            tk = s.find_ticket(st.heap[L['fut']])
            if tk is not None and tk in queued: res.append(t)
        return res

    def ticket_assigned(s, st, tk):
        """the semaphore model has served this waiter (its ticket left the queue holding a permit)"""
        found = []
        def sems(v):
            if isinstance(v, Agg):
                if v.ty == 'Semaphore': found.append(v); return
                for x in v.f.values(): sems(x)
        for v in st.heap.values(): sems(v)
        return any(tk in sem.f[3] for sem in found)

    def find_ticket(s, v):
        if isinstance(v, Agg):
            if v.ty == 'Acquire':
                return v.f[1] if v.f[1].tag.startswith('tk:') else None
            for x in v.f.values():
                r = s.find_ticket(x)
                if r is not None: return r
        return None

    def in_progress_objs(s, st):
        """objects currently inside a pending get() (being recycled / post_create), found in the futures"""
        n = 0
        def walk(v):
            nonlocal n
            if isinstance(v, Agg):
                if v.ty == 'Obj': n += 1; return
                for x in v.f.values(): walk(x)
        for t in s.tasks:
            L = st.threads[t].local
            if 'fut' in L: walk(st.heap[L['fut']])
        return n

    # end-of-history probe: cancel everything, return everything, then exactly max_size non-blocking gets succeed
    def probe(s, st):
        if st.gget('closed_ret'): return []
        if st.gget('resizes'):
            # after resizes the exact capacity is C07's subject (with its known findings, all of which leave capacity ABOVE the
            # last value); what C02 still demands is that no capacity is LOST: the pool can hand out at least the last value again
            O = s.cfg['oracles']
            return [v for v in s.capacity_probe(st, I(st.gget('resizes')[-1]), 'C02' if 'C02' in O else O[0]) if v.get('lost')]
        O = s.cfg['oracles']
        return s.capacity_probe(st, st.gget('max_size'), 'C02' if 'C02' in O else O[0])

    def capacity_probe(s, st, expected, prop):
        s.nprobes += 1
        sc = st.clone(); n0 = len(sc.log)
        M = s.M
        saved = dict(s.W.env.cfg); saved_tv = list(s.cfg['timeout_variants']); saved_tasks = list(s.tasks); saved_mode = M.task_mode
        s.W.env.cfg.update({'create': ('ok',), 'recycle': ('ok',), 'hook': ('ok',), 'timer': False})
        s.cfg['timeout_variants'] = saved_tv + [('zero', None, None)]; zi = len(saved_tv)
        s.tasks = saved_tasks + ['P']; M.task_mode = True
        th = s.W.thread(sc, 'P')
        if not th.local: th.local = {'gets': 0, 'objs': (), 'nctl': 0}
        try:
            cur = [sc]
            def step(states, act_of):
                nxt = []
                for x in states:
                    a = act_of(x)
                    if a is None: nxt.append(x)
                    else: nxt.extend(s.apply(x, a))
                return nxt
            for t in saved_tasks:
                cur = step(cur, lambda x: ('cancel', t) if 'fut' in x.threads[t].local else None)
                for _ in range(8):
                    if not any(x.threads[t].local['objs'] for x in cur): break
                    cur = step(cur, lambda x: ('drop', t, 0) if x.threads[t].local['objs'] else None)
            out = []
            bound = s.cfg['max_size_bound'] + (max(s.cfg['resize_targets']) if s.cfg['ctl'] else 0) + 1
            for rnd in range(int(s.cfg.get('probe_rounds', 1))):
              # (a second round - everything returned once more, then drained again - finds losses that only show when the pool
              #  has been filled up to max_size and emptied again, e.g. after a size counter was left one too high)
              if rnd > 0:
                  for _ in range(bound + 1):
                      if not any(x.threads['P'].local['objs'] for x in cur): break
                      cur = step(cur, lambda x: ('drop', 'P', 0) if x.threads['P'].local['objs'] else None)
              final = []
              for i in range(bound + 1):
                  nxt = []
                  for x in cur:
                      if x.gget('deadpool_panics'):
                          out.append(s.vio(prop, 'panic inside deadpool while draining the pool: ' + x.gget('deadpool_panics')[-1], st)); continue
                      for y in s.apply(x, ('get', 'P', zi)):
                          res = (y.gget('last') or {}).get('res')
                          if res and res[:2] == ('ok', 'object'): nxt.append(y)
                          else: final.append((y, res))
                  cur = nxt
                  if not cur: break
              def steps(y): return [['probe']] + [list(map(str, e)) for e in y.log[n0:] if e[0] in ('act', 'env')]
              from .replay import split_actions
              for y in cur:
                  out.append(dict(s.vio(prop, 'the capacity probe obtained more objects concurrently than the bound allows', st), probe_log=steps(y)))
              for y, res in final:
                  n = len(y.threads['P'].local['objs'])
                  if res is None or res[0] != 'err' or res[1] != 'Timeout:Wait':
                      out.append(dict(s.vio(prop, f'capacity probe ended with {res} instead of Timeout(Wait)', st), probe_log=steps(y))); continue
                  if M.feasible(y, z(binop('Ne', I(n), expected))):
                      d = s.vio(prop, f'after the history the pool hands out {n} objects concurrently, not the configured capacity (capacity lost or gained)', y)
                      d['probe_log'] = steps(y); d['got'] = n
                      # every known C07 role leaves capacity ABOVE the configured value; capacity below it is always a new violation
                      if not M.feasible(y, z(binop('Gt', I(n), expected))):
                          d['lost'] = True; d['what'] = d['what'].replace('(capacity lost or gained)', '(capacity LOST)')
                      if rnd > 0: d['what'] += ' [after filling and emptying the pool once more]'
                      out.append(d)
              if out: return out[:1]
              cur = [y for y, res in final]
            return out[:1]
        finally:
            s.W.env.cfg.clear(); s.W.env.cfg.update(saved); s.cfg['timeout_variants'] = saved_tv; s.tasks = saved_tasks; M.task_mode = saved_mode


# ====================================================================== event digest: C03 C04 C06 C07 C08 C09 C10 C13
def _events_since_act(st):
    log = st.log; i = len(log) - 1
    while i >= 0 and log[i][0] != 'act': i -= 1
    return log[i + 1:] if i >= 0 else log


def _digest(s, st0, a, st):
    """update the ground-truth ghost state from the events of the last action and return oracle violations"""
    V = []
    def vio(prop, what, **kw): V.append(s.vio(prop, what, st, **kw))
    ev = _events_since_act(st)
    last = st.gget('last') or {}
    actor = last.get('task')
    hooks = s.cfg['hooks']
    nh = {k: sum(1 for h in hooks if h[0] == k) for k in ('post_create', 'pre_recycle', 'post_recycle')}
    trail = dict(st.gget('trail', {})); idleq = list(st.gget('idleq', ())); calls = dict(st.gget('calls', {}))
    objs = st.gget('objs', {}); lifo = st.gget('lifo')
    shadow = dict(st.gget('met_shadow', {}))
    thread_mode = s.cfg['thread_mode']
    resizing = a[0] in ('resize', 'close')
    cur = calls.get(actor)
    def touch(oid):
        nonlocal cur
        if cur is not None and oid not in cur['inhand']:
            cur = dict(cur, inhand=cur['inhand'] + (oid,)); calls[actor] = cur
    # thread mode: the ghost queue is only ordered by happens-before.  hb[oid] = (ordinal of the action that began the
    # return, ordinal of the step that completed it); A is definitely older than B iff A's return completed before B's began.
    hb = dict(st.gget('hb', {})); cwi = list(st.gget('cwi', ()))
    nact = sum(1 for e in st.log if e[0] == 'act')
    others_idle = all(not st.threads[t_].stack for t_ in st.threads if t_ != actor)
    def left_queue(oid):
        nonlocal cwi
        if cwi: cwi = [(w, tuple(o for o in ids if o != oid)) for w, ids in cwi]
    def offered(oid):
        # first touch of an idle object by a get(): must be the one the queue mode prescribes
        if oid in idleq:
            exp = idleq[-1] if lifo else idleq[0]
            if oid != exp and not thread_mode:
                vio('C08', f'get() offered {oid} for recycling but the {"newest" if lifo else "oldest"} idle object is {exp}')
            if thread_mode and others_idle and oid in hb:
                # no other operation is in flight, so every object of the ghost queue really is in the queue
                for o2 in idleq:
                    if o2 == oid or o2 not in hb: continue
                    if not lifo and hb[o2][1] < hb[oid][0]:
                        vio('C08', f'get() offered {oid} for recycling although {o2} has been idle longer (its return had completed before that of {oid} began)'); break
                    # Lifo: the newer object must also have been in the queue when this get() popped - its return must have completed
                    # before the get() began (the pop is not an event of its own; a return that completes between the pop and the
                    # recycle call, at the schedule point after the pop, is not something the get() could have seen)
                    if lifo and hb[o2][0] > hb[oid][1] and cur is not None and hb[o2][1] < cur.get('began', 0):
                        vio('C08', f'get() offered {oid} for recycling although {o2} was returned more recently (its return began after that of {oid} had completed)'); break
            idleq.remove(oid); left_queue(oid)
    for e in ev:
        k = e[0]
        if k in ('create_call', 'created', 'hook_call', 'recycle_call', 'detach', 'destroy', 'pred_call'):
            th = e[1] if k == 'create_call' else (e[4] if k == 'hook_call' else e[2])
            if th != actor and actor is not None:
                vio('C08', f'user code ({k}) ran on a thread that is not inside a pool operation')
            if k in ('create_call', 'hook_call', 'recycle_call') and a[0] not in ('get', 'poll'):
                vio('C08', f'{k} invoked outside get(): during {a[0]}')
            if k in ('detach', 'pred_call') and a[0] == 'drop_pool':
                vio('C08', f'the manager was invoked ({k}) while the last pool handle was dropped - not one of get / retain / take / resize / close / the return of an object')
        if k == 'create_call':
            if idleq and not thread_mode:
                vio('C08', 'Manager::create called although an idle object was available')
            if idleq and thread_mode and cur is not None:
                # decided later: objects that were idle before this get() began and are still in the queue, untouched, when
                # every thread is quiescent again were idle the whole time - the get() had an idle object to try
                ids = tuple(o for o in idleq if o in hb and hb[o][1] < cur.get('began', 0))
                if ids: cwi.append((actor, ids))
            # objects alive at the moment of the call (those created later in this action do not count)
            later = set()
            for e2 in ev[ev.index(e):]:
                if e2[0] == 'created': later.add(e2[1])
            died = [e2[1] for e2 in ev[ev.index(e):] if e2[0] == 'destroy']
            live = len([o for o, r in objs.items() if o not in later and ((r['destroyed'] == 0 and r['handed'] == 0) or o in died)])
            if not st.gget('resizes') and not st.gget('close_started') and s.M.feasible(st, z(binop('Ge', I(live), st.gget('max_size')))):
                vio('C01', f'Manager::create called while {live} objects are alive (max_size reached)')
        elif k == 'created':
            trail[e[1]] = (('create', 0, 'ok'),); touch(e[1])
        elif k == 'hook_call':
            kind, idx, oid = e[1], e[2], e[3]
            if kind != 'post_create': offered(oid)
            touch(oid)
            trail[oid] = trail.get(oid, ()) + ((kind, idx, 'started'),)
            cur_oid = oid
            _check_seen(s, st, shadow, objs, 'hook:' + kind, oid, e[5], vio)
        elif k == 'recycle_call':
            oid = e[1]; offered(oid); touch(oid)
            trail[oid] = trail.get(oid, ()) + (('recycle', 0, 'started'),)
            _check_seen(s, st, shadow, objs, 'recycle', oid, e[3], vio)
        elif k == 'pred_call':
            oid = e[1]
            if oid not in idleq and not thread_mode: vio('C09', f'retain() predicate was shown {oid}, which is not idle')
            _check_seen(s, st, shadow, objs, 'retain', oid, e[3], vio)
        elif k == 'env' and e[1] in ('hook', 'recycle') and e[-1] in ('ok', 'err', 'panic'):
            # completes the most recent started step of the object this task is working on
            for oid in (cur['inhand'] if cur else ()):
                tr = trail.get(oid, ())
                if tr and tr[-1][2] == 'started':
                    trail[oid] = tr[:-1] + ((tr[-1][0], tr[-1][1], e[-1]),)
        elif k == 'env' and e[1] == 'timer' and 'expired' in e:
            # C10: the timeouts that govern a call are the ones it was given (timeout_get) or the pool's (get): a deadline of a kind
            # whose effective timeout is None must never fire
            if cur is not None and e[-1] in ('wait', 'create', 'recycle'):
                tv_ = cur['tv'] if cur['tv'] is not None else s.cfg['pool_timeouts']
                if tv_[('wait', 'create', 'recycle').index(e[-1])] is None:
                    vio('C10', f'a {e[-1]} deadline fired in a call whose {e[-1]} timeout is None ({"per-call timeouts " + repr(tuple(cur["tv"])) if cur["tv"] is not None else "get()"}; pool-level {tuple(s.cfg["pool_timeouts"])})')
            # a timeout cut the step the object in hand was in
            for oid in (cur['inhand'] if cur else ()):
                tr = trail.get(oid, ())
                if tr and tr[-1][2] == 'started': trail[oid] = tr[:-1] + ((tr[-1][0], tr[-1][1], 'timeout'),)
        elif k == 'handed':
            if e[1] in idleq: idleq.remove(e[1]); left_queue(e[1])
        elif k == 'destroy':
            if e[1] in idleq:
                idleq.remove(e[1]); left_queue(e[1])
                if not resizing and a[0] != 'retain' and not thread_mode:
                    vio('C05' if False else 'C09', f'idle object {e[1]} destroyed by {a[0]}')
    # ---- end of a get() call on this action?
    res = last.get('res')
    done = last.get('done', True)
    if a[0] in ('get', 'poll', 'cancel') and cur is not None and res and res[0] != 'pending' and done:
        handed = last.get('oid') if res[:2] == ('ok', 'object') else None
        if handed is not None:
            tr = trail.get(handed, ())
            exp_new = (('create', 0, 'ok'),) + tuple(('post_create', i, 'ok') for i in range(nh['post_create']))
            exp_rec = tuple(('pre_recycle', i, 'ok') for i in range(nh['pre_recycle'])) + (('recycle', 0, 'ok'),) + \
                tuple(('post_recycle', i, 'ok') for i in range(nh['post_recycle']))
            if tr != exp_new and tr != exp_rec:
                vio('C04', f'object {handed} handed out after verification steps {tr}, expected creation+post_create hooks or pre_recycle+recycle+post_recycle all ok')
            if objs[handed]['destroyed'] or objs[handed]['detached'] or objs[handed]['handed']:
                vio('C04', f'object {handed} handed out after it was discarded/detached')
            trail[handed] = ()
            if cur['after_close']:
                vio('C06', 'get() issued after close() returned yielded an object')
            rz = st.gget('resizes', ())
            if rz and cur['after_resize'] == len(rz) and not st.gget('closed_ret'):
                live = len([o for o, r in objs.items() if r['destroyed'] == 0 and r['handed'] == 0])
                if live > rz[-1]:
                    V.append(s.c07_known(st, s.vio('C07', f'a get() admitted after resize({rz[-1]}) returned raised the number of live objects to {live}', st)))
            _check_handout_metrics(s, st, shadow, objs, handed, last, vio)
        if (cur['after_close'] or cur.get('waiting_at_close')) and res[0] in ('ok', 'err') and res[:2] not in (('err', 'Closed'), ('err', 'NoRuntimeSpecified')) and handed is None:
            vio('C06', f'a get() {"issued after" if cur["after_close"] else "waiting for a slot when"} close() returned ended with {res[:2]}, not Closed')
        elif cur.get('waiting_at_close') and handed is not None:
            vio('C06', 'a get() waiting for a slot when close() returned yielded an object')
        for oid in cur['inhand']:
            if oid == handed: continue
            r = objs[oid]
            tr = trail.get(oid, ())
            if res[0] in ('ok', 'err') and tr and tr[0][0] != 'create' and not any(x[2] in ('err', 'panic', 'timeout') for x in tr) \
                    and not (res[0] == 'err' and res[1].startswith('Timeout')) and r['destroyed'] > 0:
                vio('C04', f'idle object {oid} was discarded by get() although none of its recycling steps failed, timed out or was cancelled: {tr}')
            if r['destroyed'] != 1 or r['detached'] != 1:
                vio('C04' if res[0] in ('err', 'ok') else 'C03',
                    f'object {oid} was taken in hand by a get() that ended ({res}) without handing it out, but it was destroyed {r["destroyed"]}x and detached {r["detached"]}x (expected exactly once each)')
        if res[0] == 'err':
            _check_error(s, st, ev, cur, res[1], vio)
        if res[:2] == ('err', 'NoRuntimeSpecified'):
            # the misconfiguration is reported INSTEAD of touching the pool: no object may have been discarded or created by this call
            lost = [e[1] for e in ev if e[0] in ('destroy', 'detach')] + [e[1] for e in ev if e[0] == 'created']
            genuine = any(e[0] == 'env' and e[1] in ('recycle', 'hook') and e[-1] in ('err', 'panic') for e in ev)
            if lost and not genuine:
                vio('C10', f'get() reported NoRuntimeSpecified but discarded / created objects on the way: {tuple(sorted(set(lost)))}')
        if not s.cfg['runtime'] and res[0] in ('ok', 'err'):
            tv = cur['tv'] if cur['tv'] is not None else s.cfg['pool_timeouts']
            touched_idle = any(e[0] == 'recycle_call' or (e[0] == 'hook_call' and e[1] != 'post_create') for e in ev)
            if tv[2] == 'pos' and touched_idle and res[:2] != ('err', 'NoRuntimeSpecified'):
                V.append(dict(s.vio('C10', 'a per-call recycle timeout without a runtime does not yield NoRuntimeSpecified: the idle object is silently discarded', st), known='K-C10'))
            if tv[0] == 'pos' and res[:2] != ('err', 'NoRuntimeSpecified') and res[:2] != ('err', 'Closed'):
                vio('C10', f'a non-zero wait timeout without a runtime yields {res} instead of NoRuntimeSpecified')
        if res[0] == 'err' and res[1] == 'Timeout:Wait' and a[0] == 'poll' and st0 is not None and actor in st0.threads and 'fut' in st0.threads[actor].local:
            # "obtains a slot if one becomes free for it before the deadline": a caller whose slot was already assigned to it when it was
            # polled must get it, however late that poll comes (tokio's timeout polls the future before the deadline)
            tk = s.find_ticket(st0.heap[st0.threads[actor].local['fut']])
            if tk is not None and s.ticket_assigned(st0, tk):
                vio('C10', 'get() reported Timeout(Wait) although a slot had been freed for this caller before it was polled')
        if res[0] in ('cancelled', 'panic') or (res[0] == 'err' and res[1].startswith('Timeout')):
            _check_abandon(s, st, cur, res, vio)
        calls.pop(actor, None)
    elif a[0] in ('get', 'poll') and cur is not None and res and res[0] == 'pending' and done:
        tv = cur['tv'] if cur['tv'] is not None else s.cfg['pool_timeouts']
        if tv[0] == 'zero' and s.queued_for(st, actor):
            vio('C10', 'get() with a zero wait timeout is waiting for a slot')
    for o in calls:
        if not (o == actor and a[0] in ('get', 'poll', 'cancel')) and calls[o]['clean']: calls[o] = dict(calls[o], clean=False)
    # ---- object returned
    if a[0] == 'drop' and res and res[0] == 'ok' and done:
        oid = last['oid']; r = objs[oid]
        if r['destroyed'] == 0:
            idleq.append(oid)
            started = [i for i, e in enumerate(x for x in st.log if x[0] == 'act') if e[1] == 'drop' and len(e) > 2 and e[2] == actor]
            hb[oid] = (started[-1] + 1 if started else nact, nact)
            if last.get('after_close'):
                vio('C06', f'object {oid} returned after close() is kept by the closed pool')
    # ---- is_closed(): false until close() is called, true once it has returned (and for ever after)
    if a[0] == 'is_closed' and res and res[0] == 'ok' and done:
        val = res[1]
        if st0.gget('closed_ret') and val is not True: vio('C06', 'is_closed() is false after close() returned')
        if not st.gget('close_started') and val is not False: vio('C06', 'is_closed() is true although close() was never called')
    # ---- retain
    if a[0] == 'retain' and res and res[0] == 'ok' and done:
        pr = tuple(last['pred_removed']); rm = tuple(last['removed'])
        if pr != rm: vio('C09', f'retain() removed {rm} but the predicate rejected {pr}')
        if not thread_mode:
            # at task level retain() is atomic: the predicate must have been consulted exactly once for every idle object
            shown = sorted(e[1] for e in ev if e[0] == 'pred_call'); idle0 = sorted(st.gget('idleq', ()))
            if shown != idle0: vio('C09', f'retain() consulted the predicate for {tuple(shown)} but the idle objects were {tuple(idle0)}')
        kept = sum(1 for e in ev if e[0] == 'env' and e[1] == 'pred' and e[3] == 'keep')
        if s.M.feasible(st, z(binop('Ne', last['retained'], I(kept)))):
            vio('C09', f'retain() reported retained={last["retained"]!r} but the predicate kept {kept}')
        for oid in rm:
            if objs[oid]['detached'] != 1: vio('C09', f'object {oid} removed by retain() was detached {objs[oid]["detached"]} times')
    # ---- detach bookkeeping (every object the pool let go of while alive is detached exactly once, none that stays)
    busy_oids = set()
    for tn, th_ in st.threads.items():
        op_ = th_.local.get('op') if th_.local else None
        if op_ and op_[2].get('oid'): busy_oids.add(op_[2]['oid'])
    for oid, r in objs.items():
        gone = r['destroyed'] > 0 or r['handed'] > 0
        inflight = any(oid in c['inhand'] for c in calls.values()) or oid in busy_oids
        if not gone and r['detached'] > 0 and not inflight:
            vio('C09', f'object {oid} is still in the pool but was detached')
        if gone and r['detached'] != 1 and not inflight:
            rel = [e for e in ev if e[0] == 'destroy' and e[1] == oid]
            if rel and resizing and r['detached'] == 0:
                V.append(dict(s.vio('C09', f'object {oid} released by {a[0]}() without Manager::detach', st), known='K-C09'))
            elif rel or any(e[0] == 'handed' and e[1] == oid for e in ev):
                vio('C09', f'object {oid} left the pool ({a[0]}) but Manager::detach was called {r["detached"]} times')
    # ---- close / resize post-conditions (ground truth)
    if a[0] in ('resize', 'close') and res and res[0] == 'ok' and not thread_mode and done:
        n = 0 if a[0] == 'close' else a[1]
        live = len(s.live_ids(st))
        if not st0.gget('closed_ret') or a[0] == 'close':
            if live > n and idleq:
                d_ = s.vio('C07' if a[0] == 'resize' else 'C06', f'after {a[0]}({n}) {live} objects exist and {len(idleq)} idle objects were kept', st)
                V.append(s.c07_known(st, d_) if a[0] == 'resize' else d_)
        elif a[0] == 'resize':
            if len(s.live_ids(st0)) != live: vio('C06', 'resize() on a closed pool changed the pool')
    if thread_mode and cwi and all(not st.threads[t_].stack for t_ in st.threads):
        for w, ids in cwi:
            still = [o for o in ids if o in idleq]
            if still: vio('C08', f'Manager::create was called by a get() of {w} although {still[0]} was idle from before that get() began until every operation had finished')
        cwi = []
    hb = {k_: v_ for k_, v_ in hb.items() if k_ in idleq}
    pts = sorted({x for v_ in hb.values() for x in v_})
    st.gset('hb', hb); st.gset('cwi', tuple(cwi))
    st.gset('hbk', tuple(sorted((k_, pts.index(v_[0]), pts.index(v_[1])) for k_, v_ in hb.items())) if thread_mode else ())
    st.gset('trail', trail); st.gset('idleq', tuple(idleq)); st.gset('calls', calls); st.gset('met_shadow', shadow)
    return V


def _check_seen(s, st, shadow, objs, who, oid, mt, vio):
    """metrics shown to hooks / recycle / retain: must equal what Object::metrics() last reported (or a fresh object's)"""
    sh = shadow.get(oid)
    if sh is None:
        if mt[1] is not None or mt[2] != '0':
            vio('C13', f'{who} saw metrics {mt} on a brand-new object {oid}')
        shadow[oid] = {'created': mt[0], 'reported': mt}
        return
    if mt[0] != sh['created']: vio('C13', f'creation instant of {oid} changed: {sh["created"]} -> {mt[0]} (seen by {who})')
    if mt != sh['reported']:
        vio('C13', f'{who} saw metrics {mt} for {oid} but the last hand-out reported {sh["reported"]}')


def _find_metrics(v):
    if isinstance(v, Agg):
        if v.ty == 'Metrics': return v
        for x in v.f.values():
            r = _find_metrics(x)
            if r is not None: return r
    return None


def _check_handout_metrics(s, st, shadow, objs, oid, last, vio):
    obj = st.heap[last['oroot']]
    met = _find_metrics(obj)
    if met is None: raise InternalError('no Metrics inside Object')
    mt = s.W.env.metrics_tuple(met)
    h = objs[oid]['handouts']          # including this one
    sh = shadow.get(oid)
    if sh is None:
        sh = {'created': mt[0], 'reported': None}
    if mt[0] != sh['created']: vio('C13', f'creation instant of {oid} changed: {sh["created"]} -> {mt[0]}')
    if mt[2] != str(h - 1): vio('C13', f'recycle_count of {oid} is {mt[2]} at hand-out number {h} (expected {h - 1})')
    if h == 1 and mt[1] is not None: vio('C13', f'last-recycled instant of {oid} is set before its first reuse')
    if h > 1:
        if mt[1] is None: vio('C13', f'last-recycled instant of {oid} is absent after reuse')
        else:
            prev = sh['reported'][1] if sh.get('reported') else None
            if int(mt[1]) < int(mt[0]) or (prev is not None and int(mt[1]) < int(prev)):
                vio('C13', f'last-recycled instant of {oid} moved backwards')
    shadow[oid] = {'created': sh['created'], 'reported': mt}


def _check_error(s, st, ev, cur, desc, vio):
    """the error variant must match the step that failed; recycle failures are never returned"""
    cause = None
    for e in ev:
        if e[0] == 'env' and e[1] == 'create' and e[3] == 'err': cause = 'Backend'
        elif e[0] == 'env' and e[1] == 'hook' and e[2] == 'post_create' and e[4] == 'err': cause = 'PostCreateHook'
        elif e[0] == 'env' and e[1] == 'timer' and e[3] == 'expired':
            cause = {'wait': 'Timeout:Wait', 'create': 'Timeout:Create', 'recycle': None}.get(e[4], cause)
    if cause is not None and desc != cause:
        vio('C04', f'get() returned {desc} but the failing step calls for {cause}')
    if desc == 'Timeout:Recycle':
        vio('C10', 'a recycle timeout surfaced as Timeout(Recycle): it counts as a rejected object, get() moves on to the next idle object or creates one')
    if cause is None and desc in ('Backend', 'PostCreateHook', 'Timeout:Create', 'Timeout:Recycle'):
        vio('C04', f'get() returned {desc} although no creation step failed in this call')
    if desc == 'Timeout:Wait' and cause is None:
        tv = cur['tv'] if cur['tv'] is not None else s.cfg['pool_timeouts']
        if tv[0] != 'zero': vio('C10', 'Timeout(Wait) returned without a zero wait timeout and without the deadline passing')
    if desc == 'NoRuntimeSpecified':
        tv = cur['tv'] if cur['tv'] is not None else s.cfg['pool_timeouts']
        if s.cfg['runtime'] or not any(x == 'pos' for x in tv) and not any(x == 'zero' for x in tv[1:]):
            vio('C10', 'NoRuntimeSpecified returned although a runtime is configured / no timeout is in play')
        failed = any(e[0] == 'env' and e[-1] in ('err', 'panic', 'expired') or (e[0] == 'env' and 'expired' in e) for e in ev)
        if any(e[0] == 'destroy' for e in ev) and not failed:
            vio('C10', 'a get() that fails with NoRuntimeSpecified destroyed an idle object whose recycling had not failed')


def _check_abandon(s, st, cur, res, vio):
    """C03 single-task differential: after an abandoned get() everything is as before, minus the objects discarded"""
    if not cur['clean'] or s.cfg['thread_mode']: return
    s0 = cur['snap']; s1 = s.snapshot(st)
    lost = [o for o in s0['live'] if o not in s1['live']]
    gained = [o for o in s1['live'] if o not in s0['live']]
    if gained: vio('C03', f'abandoned get() ({res}) left new objects {gained} in the pool')
    def ne(x, y): return s.M.feasible(st, z(binop('Ne', x, y)))
    if ne(s0['permits'], s1['permits']) or s0['queue'] != s1['queue'] or s0['assigned'] != s1['assigned']:
        vio('C03', f'abandoned get() ({res}) left a slot reserved or a waiter behind: permits {s0["permits"]!r}->{s1["permits"]!r}, waiters {s0["queue"]}->{s1["queue"]}')
    if any(('fut' in th.local or th.stack) for tn, th in st.threads.items() if tn in s.tasks):
        return      # status() is only plausible, not exact, while other calls are in progress (C11): ground truth compared above
    a0, a1 = s0['status'], s1['status']
    if a0 is None or a1 is None: vio('C03', 'status() unavailable around an abandoned get()'); return
    if ne(a0[0], a1[0]) or ne(a0[3], a1[3]): vio('C03', f'status() max_size/waiting changed by an abandoned get(): {a0} -> {a1}')
    if ne(binop('Sub', a0[1], I(len(lost))), a1[1]):
        vio('C03', f'status().size after an abandoned get() is {a1[1]!r}, expected {a0[1]!r} minus {len(lost)} discarded')
    if ne(binop('Sub', a0[2], I(len(lost))), a1[2]):
        vio('C03', f'status().available after an abandoned get() is {a1[2]!r}, expected {a0[2]!r} minus {len(lost)} discarded')


def _queued_for(s, st, t):
    return t in s.queued_tasks(st)


ManagedBSE.digest = _digest
ManagedBSE.queued_for = _queued_for
