"""Bounded symbolic exploration world for the managed pool + the property oracles C01-C04, C06-C11, C13."""
import z3
from .mir import Unmodelled
from .core import (I, Agg, Ref, Opaque, UNINIT, UNIT, NONE, mk_enum, some, payload, is_sym, simp, z, b_not, b_and, b_or,
                   binop, InternalError, State, Thread)
from .managed import ManagedWorld, FRESH
from . import explore

GHOST_KEYS = ('objs', 'closed_ret', 'idleq', 'trail', 'resizes', 'hand', 'flags', 'retained_ids', 'created_at', 'met_shadow')


def dur(secs, nanos=0):
    return Agg('Duration', [secs if not isinstance(secs, int) else I(secs), I(nanos, 32)])


class ManagedBSE:
    def __init__(s, prog, cfg):
        c = {
            'tasks': 2, 'max_gets': 2, 'max_size_bound': 2, 'depth': 8,
            'env': {}, 'hooks': (), 'lifo': None,             # None = symbolic choice (both explored)
            'timeout_variants': [None],                        # None = pool.get(); or tuples of 3 entries from {None,'zero','pos'}
            'pool_timeouts': (None, None, None), 'runtime': True,
            'ctl': (),                                         # controller actions: 'status','resize','close','retain'
            'resize_targets': (0, 1, 2, 3), 'max_ctl': 2,
            'take': True, 'cancel': True,
            'oracles': ('C01', 'C02', 'C11'),
            'probe': True,
            'thread_mode': False,
        }
        c.update(cfg); s.cfg = c
        s.W = ManagedWorld(prog, c['env'])
        s.M = s.W.M
        s.M.task_mode = not c['thread_mode']
        s.tasks = [f'T{i + 1}' for i in range(c['tasks'])]
        s.probe_cache = {}
        s.nprobes = 0
        s.susp = {}

    # ------------------------------------------------------------- initial states
    def init_states(s):
        out = []
        lifos = [False, True] if s.cfg['lifo'] is None else [s.cfg['lifo']]
        for lifo in lifos:
            st = State()
            ms = z3.BitVec('max_size', 64); st.assume(z3.ULE(ms, s.cfg['max_size_bound']))
            pt = tuple(s.tv_value(st, v, f'pool_{n}') for v, n in zip(s.cfg['pool_timeouts'], ('wait', 'create', 'recycle')))
            for st1, r in s.W.build_pool(st, ms, queue_lifo=lifo, timeouts=pt, runtime=s.cfg['runtime'], hooks=s.cfg['hooks']):
                if st1.log and any(e[0] in ('create_call', 'hook_call', 'recycle_call', 'detach', 'pred_call') for e in st1.log):
                    st1.gset('flags', st1.gget('flags', ()) + ('build_called_user_code',))
                if r[0] != 'ok' or r[1].variant != 'Ok':
                    st1.gset('build_result', r); out.append(st1); continue
                proot = st1.alloc(payload(r[1]))
                st1.gset('pool', proot); st1.gset('max_size', ms); st1.gset('lifo', lifo)
                st1.gset('objs', {}); st1.gset('idleq', ()); st1.gset('trail', {}); st1.gset('resizes', ()); st1.gset('hand', ())
                for t in s.tasks + ['C']:
                    th = s.W.thread(st1, t); th.local = {'gets': 0, 'objs': (), 'nctl': 0}
                st1.threads.pop('main', None)
                st1.log = (('init', 'lifo' if lifo else 'fifo'),)
                out.append(st1)
        return out

    def tv_value(s, st, v, name):
        if v is None: return None
        if v == 'zero': return dur(0)
        if v == 'pos':
            x = z3.BitVec(f'dur_{name}', 64); st.assume(z3.UGT(x, 0)); return dur(x)
        raise ValueError(v)

    # ------------------------------------------------------------- actions
    def actions(s, st):
        if st.gget('pool') is None: return []
        acts = []
        for t in s.tasks:
            th = st.threads[t]; L = th.local
            if th.stack: continue
            if 'fut' in L:
                acts.append(('poll', t))
                if s.cfg['cancel']: acts.append(('cancel', t))
            elif L['gets'] < s.cfg['max_gets']:
                for i, tv in enumerate(s.cfg['timeout_variants']): acts.append(('get', t, i))
            for i in range(len(L['objs'])):
                acts.append(('drop', t, i))
                if s.cfg['take']: acts.append(('take', t, i))
                break      # objects held by one task are interchangeable up to renaming: act on the first only
        C = st.threads['C'].local
        if C['nctl'] < s.cfg['max_ctl']:
            for a in s.cfg['ctl']:
                if a == 'resize':
                    for n in s.cfg['resize_targets']: acts.append(('resize', n))
                else:
                    acts.append((a,))
        return acts

    # ------------------------------------------------------------- apply
    def apply(s, st, a):
        st = st.clone(); st.logev('act',) if False else None
        st.log = st.log + (('act',) + tuple(a),)
        st.gset('last', None); st.gset('seen', ())
        kind = a[0]; proot = st.gget('pool'); outs = []
        if kind == 'get':
            t = a[1]; tvs = s.cfg['timeout_variants'][a[2]]
            tv = None
            if tvs is not None:
                vals = [s.tv_value(st, v, f'{t}_{st.threads[t].local["gets"]}_{n}') for v, n in zip(tvs, ('wait', 'create', 'recycle'))]
                tv = Agg('Timeouts', [NONE if v is None else some(v) for v in vals])
            st.threads[t].local['gets'] += 1
            s.note_get_start(st, t, tvs)
            for st1, r in s.W.start_get(st, t, proot, tv):
                fr = st1.alloc(r[1]); st1.threads[t].local['fut'] = fr
                for st2, r2 in s.W.poll(st1, t, fr): outs.extend(s.after_poll(st2, t, r2, a))
        elif kind == 'poll':
            t = a[1]
            for st2, r2 in s.W.poll(st, t, st.threads[t].local['fut']): outs.extend(s.after_poll(st2, t, r2, a))
        elif kind == 'cancel':
            t = a[1]; fr = st.threads[t].local.pop('fut'); fut = st.heap.pop(fr)
            s.note_susp(fut)
            for st2, r in s.W.drop(st, t, [fut]):
                st2.gset('last', {'act': a, 'task': t, 'res': ('cancelled',) if r[0] == 'ok' else r})
                outs.append(st2)
        elif kind in ('drop', 'take'):
            t = a[1]; L = st.threads[t].local; objs = list(L['objs']); oroot = objs.pop(a[2]); L['objs'] = tuple(objs)
            obj = st.heap.pop(oroot); oid = s.obj_id(st, obj)
            if kind == 'drop':
                s.note_return(st, oid)
                for st2, r in s.W.drop_object(st, t, obj):
                    st2.gset('last', {'act': a, 'task': t, 'res': r, 'oid': oid}); outs.append(st2)
            else:
                for st2, r in s.W.take(st, t, obj):
                    if r[0] == 'ok':
                        s.W.env.g_obj(st2, oid, handed='+1')
                        st2.logev('handed', oid, 'take')
                        for st3, r3 in s.W.drop(st2, t, [r[1]]):
                            st3.gset('last', {'act': a, 'task': t, 'res': ('ok', 'taken'), 'oid': oid}); outs.append(st3)
                    else:
                        st2.gset('last', {'act': a, 'task': t, 'res': r, 'oid': oid}); outs.append(st2)
        elif kind == 'status':
            st.threads['C'].local['nctl'] += 1
            for st2, r in s.W.status(st, 'C', proot):
                st2.gset('last', {'act': a, 'task': 'C', 'res': r}); outs.append(st2)
        elif kind == 'resize':
            st.threads['C'].local['nctl'] += 1
            st.gset('resizes', st.gget('resizes', ()) + (a[1],))
            for st2, r in s.W.resize(st, 'C', proot, I(a[1])):
                st2.gset('last', {'act': a, 'task': 'C', 'res': r}); outs.append(st2)
        elif kind == 'close':
            st.threads['C'].local['nctl'] += 1
            for st2, r in s.W.close(st, 'C', proot):
                st2.gset('closed_ret', True)
                st2.gset('last', {'act': a, 'task': 'C', 'res': r}); outs.append(st2)
        elif kind == 'retain':
            st.threads['C'].local['nctl'] += 1
            st.gset('pred_removed', ())
            for st2, r in s.W.retain(st, 'C', proot):
                if r[0] == 'ok':
                    rr = r[1]; removed = rr.f[1].items(); ids = tuple(s.W.env.oid_of(s.M, st2, o) for o in removed)
                    for oid in ids:
                        s.W.env.g_obj(st2, oid, handed='+1'); st2.logev('handed', oid, 'retain')
                    for st3, r3 in s.W.drop(st2, 'C', removed):
                        st3.gset('last', {'act': a, 'task': 'C', 'res': ('ok', 'retain'), 'retained': rr.f[0], 'removed': ids,
                                          'pred_removed': st3.gget('pred_removed', ())})
                        outs.append(st3)
                else:
                    st2.gset('last', {'act': a, 'task': 'C', 'res': r}); outs.append(st2)
        else:
            raise ValueError(a)
        for o in outs:
            for th in o.threads.values():
                if not th.stack: th.panicking = False; th.result = None
        return outs

    def obj_id(s, st, obj):
        """ground-truth id of the pooled object inside an Object wrapper (harness-owned identity tag)"""
        def walk(v):
            if isinstance(v, Agg):
                if v.ty == 'Obj': return v.f[0].tag
                for x in v.f.values():
                    r = walk(x)
                    if r: return r
            return None
        r = walk(obj)
        if r is None: raise InternalError('Object without pooled value')
        return r

    def after_poll(s, st, t, r, a):
        L = st.threads[t].local
        if r[0] != 'ok':
            # panic escaped get(): the future is dropped by the unwinding caller (state `panicked`: nothing left inside)
            fr = L.pop('fut'); fut = st.heap.pop(fr)
            outs = []
            for st2, r2 in s.W.drop(st, t, [fut]):
                st2.gset('last', {'act': a, 'task': t, 'res': ('panic',)}); outs.append(st2)
            return outs
        p = r[1]
        if p.variant == 'Pending':
            st.gset('last', {'act': a, 'task': t, 'res': ('pending',)}); return [st]
        fr = L.pop('fut'); st.heap.pop(fr)
        res = payload(p)
        if res.variant == 'Ok':
            obj = payload(res); oid = s.obj_id(st, obj)
            oroot = st.alloc(obj); L['objs'] = L['objs'] + (oroot,)
            s.W.env.g_obj(st, oid, handouts='+1')
            st.logev('handout', oid, t)
            st.gset('last', {'act': a, 'task': t, 'res': ('ok', 'object'), 'oid': oid, 'oroot': oroot})
            return [st]
        e = payload(res)
        desc = e.variant + (':' + payload(e).variant if e.variant == 'Timeout' else '')
        st.logev('get_err', t, desc)
        outs = []
        for st2, r2 in s.W.drop(st, t, [e]):
            st2.gset('last', {'act': a, 'task': t, 'res': ('err', desc)}); outs.append(st2)
        return outs

    # ------------------------------------------------------------- ghost notes
    def note_get_start(s, st, t, tvs): pass
    def note_return(s, st, oid): pass

    def note_susp(s, fut):
        def walk(v, acc):
            if isinstance(v, Agg):
                if v.ty.startswith('{coroutine') and v.discr is not None and v.discr >= 3:
                    acc.append((v.variant.split('::', 1)[-1][-60:], v.discr))
                for x in v.f.values(): walk(x, acc)
        acc = []; walk(fut, acc)
        key = tuple(acc)
        s.susp[key] = s.susp.get(key, 0) + 1

    # ------------------------------------------------------------- key / describe
    def key(s, st):
        roots = []
        if st.gget('pool') is not None: roots.append(st.gget('pool'))
        for t in sorted(st.threads):
            L = st.threads[t].local
            if 'fut' in L: roots.append(L['fut'])
            roots.extend(L.get('objs', ()))
        return explore.state_key(st, roots, GHOST_KEYS)

    def describe(s, st):
        return {'trace': [list(map(str, e)) for e in st.log if e[0] in ('init', 'act', 'env')], 'pc': [c.sexpr() for c in st.pc]}

    # ------------------------------------------------------------- oracles
    def live_ids(s, st):
        return [k for k, r in st.gget('objs', {}).items() if r['destroyed'] == 0 and r['handed'] == 0]

    def vio(s, prop, what, st, **kw):
        d = {'property': prop, 'what': what}; d.update(kw); return d

    def check(s, st0, a, st):
        out = []
        if st.gget('pool') is None: return out
        O = s.cfg['oracles']; last = st.gget('last') or {}
        ms = st.gget('max_size')
        objs = st.gget('objs', {})
        # --- generic: deadpool-raised panics, deadlocks, aborts (C02 / C11 "no counter wraps" in dev profile)
        if st.gget('deadpool_panics') and ('C02' in O or 'C11' in O):
            msg = st.gget('deadpool_panics')[-1]
            out.append(s.vio('C11' if 'overflow' in msg and 'C11' in O else ('C02' if 'C02' in O else 'C11'), 'panic raised inside deadpool: ' + msg, st))
            return out
        if st.gget('deadlocks') and 'C02' in O:
            out.append(s.vio('C02', 'self-deadlock on a pool mutex', st)); return out
        for o, r in objs.items():
            if r['destroyed'] > 1: out.append(s.vio(O[0], f'object {o} destroyed twice', st))
        if 'C01' in O and not st.gget('resizes'):
            live = len(s.live_ids(st))
            if s.M.feasible(st, z(binop('Gt', I(live), ms))):
                out.append(s.vio('C01', f'{live} live objects exceed max_size', st))
            if 'create_over_limit' in st.gget('flags', ()):
                out.append(s.vio('C01', 'Manager::create called while max_size objects are alive', st))
        return out

    def check_state(s, st):
        out = []
        if st.gget('pool') is None: return out
        O = s.cfg['oracles']
        if 'C11' in O: out.extend(s.check_status(st))
        if out: return out
        if 'C02' in O and s.cfg['probe']: out.extend(s.probe(st))
        return out

    # status(): exact at rest, plausible otherwise  (run on a scratch copy, the real status() MIR)
    def check_status(s, st):
        out = []
        sc = st.clone()
        res = s.W.status(sc, 'C', sc.gget('pool'))
        if len(res) != 1 or res[0][1][0] != 'ok':
            return [s.vio('C11', 'status() did not return normally', st)]
        sc, r = res[0]; S = r[1]
        smax, ssize, savail, swait = S.f[0], S.f[1], S.f[2], S.f[3]
        live = len(s.live_ids(st))
        pending = [t for t in s.tasks if 'fut' in st.threads[t].local]
        queued = s.queued_tasks(st)
        out_n = sum(len(st.threads[t].local['objs']) for t in s.tasks)
        idle = live - out_n - s.in_progress_objs(st)
        at_rest = all(t in queued for t in pending)
        closed = st.gget('closed_ret')
        exp_max = I(0) if closed else (I(st.gget('resizes')[-1]) if st.gget('resizes') else st.gget('max_size'))
        def ne(x, y): return s.M.feasible(sc, z(binop('Ne', x, y)))
        def gt(x, y): return s.M.feasible(sc, z(binop('Gt', x, y)))
        if ne(smax, exp_max): out.append(s.vio('C11', f'status().max_size differs from the configured / last resized value', st))
        if at_rest:
            if ne(ssize, I(live)): out.append(s.vio('C11', f'at rest status().size != {live} objects that exist', st, status=repr(S)))
            if ne(savail, I(idle)): out.append(s.vio('C11', f'at rest status().available != {idle} idle objects', st, status=repr(S)))
            if ne(swait, I(len(queued))): out.append(s.vio('C11', f'at rest status().waiting != {len(queued)} blocked callers', st, status=repr(S)))
        else:
            creating = len(pending)
            if gt(ssize, I(live + creating)): out.append(s.vio('C11', 'status().size exceeds objects that exist or are being created', st, status=repr(S)))
            if gt(savail, ssize): out.append(s.vio('C11', 'status().available exceeds size', st, status=repr(S)))
            if gt(swait, I(len(pending))): out.append(s.vio('C11', 'status().waiting exceeds callers inside get()', st, status=repr(S)))
        for v in (ssize, savail, swait):
            if gt(v, I(1 << 62)): out.append(s.vio('C11', 'a status counter wrapped around', st, status=repr(S)))
        if not st.gget('resizes') and not closed and gt(ssize, smax):
            out.append(s.vio('C11', 'status().size exceeds max_size without any shrink', st, status=repr(S)))
        return out

    def queued_tasks(s, st):
        """tasks whose Acquire future is queued at the semaphore (environment-model state)"""
        res = []
        queued = set()
        def sems(v):
            if isinstance(v, Agg):
                if v.ty == 'Semaphore': queued.update(v.f[2]); return
                for x in v.f.values(): sems(x)
        for v in st.heap.values(): sems(v)
        for t in s.tasks:
            L = st.threads[t].local
            if 'fut' not in L: continue
            tk = s.find_ticket(st.heap[L['fut']])
            if tk is not None and tk in queued: res.append(t)
        return res

    def find_ticket(s, v):
        if isinstance(v, Agg):
            if v.ty == 'Acquire':
                return v.f[1] if v.f[1].tag.startswith('tk:') else None
            for x in v.f.values():
                r = s.find_ticket(x)
                if r is not None: return r
        return None

    def in_progress_objs(s, st):
        """objects currently inside a pending get() (being recycled / post_create), found in the futures"""
        n = 0
        def walk(v):
            nonlocal n
            if isinstance(v, Agg):
                if v.ty == 'Obj': n += 1; return
                for x in v.f.values(): walk(x)
        for t in s.tasks:
            L = st.threads[t].local
            if 'fut' in L: walk(st.heap[L['fut']])
        return n

    # end-of-history probe: cancel everything, return everything, then exactly max_size non-blocking gets succeed
    def probe(s, st):
        if st.gget('closed_ret') or st.gget('resizes'): return []
        s.nprobes += 1
        sc = st.clone(); sc.log = ()
        M = s.M
        saved = dict(s.W.env.cfg)
        s.W.env.cfg.update({'create': ('ok',), 'recycle': ('ok',), 'hook': ('ok',), 'timer': False})
        try:
            cur = [sc]
            for t in s.tasks:
                nxt = []
                for x in cur:
                    L = x.threads[t].local
                    if 'fut' in L:
                        fut = x.heap.pop(L.pop('fut'))
                        nxt.extend(y for y, r in s.W.drop(x, t, [fut]))
                    else: nxt.append(x)
                cur = nxt
                while True:
                    nxt = []; any_obj = False
                    for x in cur:
                        L = x.threads[t].local
                        if L['objs']:
                            any_obj = True
                            objs = list(L['objs']); o = x.heap.pop(objs.pop(0)); L['objs'] = tuple(objs)
                            nxt.extend(y for y, r in s.W.drop_object(x, t, o))
                        else: nxt.append(x)
                    cur = nxt
                    if not any_obj: break
            out = []
            tv = Agg('Timeouts', [some(dur(0)), NONE, NONE])
            bound = s.cfg['max_size_bound'] + 1
            for x in cur:
                if x.gget('deadpool_panics'):
                    out.append(s.vio('C02', 'panic inside deadpool while draining the pool: ' + x.gget('deadpool_panics')[-1], st)); continue
                got = 0; states = [x]
                final = []
                for i in range(bound + 1):
                    nxt = []
                    for y in states:
                        for y1, r in s.W.start_get(y, 'C', y.gget('pool'), tv):
                            fr = y1.alloc(r[1])
                            for y2, r2 in s.W.poll(y1, 'C', fr):
                                if r2[0] != 'ok': out.append(s.vio('C02', 'probe get panicked', st)); continue
                                p = r2[1]
                                if p.variant == 'Pending':
                                    out.append(s.vio('C02', 'non-blocking get returned Pending', st)); continue
                                y2.heap.pop(fr, None)
                                res = payload(p)
                                if res.variant == 'Ok':
                                    y2.gset('probe_n', y2.gget('probe_n', 0) + 1)
                                    y2.gset('probe_objs', y2.gget('probe_objs', ()) + (payload(res),))
                                    nxt.append(y2)
                                else:
                                    final.append((y2, payload(res)))
                    states = nxt
                    if not states: break
                for y in states:
                    out.append(s.vio('C02', f'pool handed out more than max_size objects concurrently in the capacity probe', st))
                for y, e in final:
                    n = y.gget('probe_n', 0)
                    if e.variant != 'Timeout':
                        out.append(s.vio('C02', f'capacity probe ended with {e.variant} instead of Timeout(Wait)', st)); continue
                    if M.feasible(y, z(binop('Ne', I(n), y.gget('max_size')))):
                        out.append(s.vio('C02', f'capacity after the history is {n}, not max_size (capacity lost or gained)', st, got=n))
            return out[:1]
        finally:
            s.W.env.cfg.clear(); s.W.env.cfg.update(saved)
