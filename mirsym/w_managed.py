"""Bounded symbolic exploration world for the managed pool + the property oracles C01-C04, C06-C11, C13."""
import z3
from .mir import Unmodelled
from .core import (I, Agg, Ref, Opaque, UNINIT, UNIT, NONE, mk_enum, some, payload, is_sym, simp, z, b_not, b_and, b_or,
                   binop, InternalError, State, Thread)
from .managed import ManagedWorld, FRESH
from . import explore

GHOST_KEYS = ('objs', 'closed_ret', 'idleq', 'trail', 'resizes', 'hand', 'flags', 'retained_ids', 'created_at', 'met_shadow')


def dur(secs, nanos=0):
    return Agg('Duration', [secs if not isinstance(secs, int) else I(secs), I(nanos, 32)])


class ManagedBSE:
    def __init__(s, prog, cfg):
        c = {
            'tasks': 2, 'max_gets': 2, 'max_size_bound': 2, 'depth': 8,
            'env': {}, 'hooks': (), 'lifo': None,             # None = symbolic choice (both explored)
            'timeout_variants': [None],                        # None = pool.get(); or tuples of 3 entries from {None,'zero','pos'}
            'pool_timeouts': (None, None, None), 'runtime': True,
            'ctl': (),                                         # controller actions: 'status','resize','close','retain'
            'resize_targets': (0, 1, 2, 3), 'max_ctl': 2,
            'take': True, 'cancel': True,
            'oracles': ('C01', 'C02', 'C11'),
            'probe': True,
            'thread_mode': False,
        }
        c.update(cfg); s.cfg = c
        s.W = ManagedWorld(prog, c['env'])
        s.M = s.W.M
        s.M.task_mode = not c['thread_mode']
        s.tasks = [f'T{i + 1}' for i in range(c['tasks'])]
        s.probe_cache = {}
        s.nprobes = 0
        s.susp = {}

    # ------------------------------------------------------------- initial states
    def init_states(s):
        out = []
        lifos = [False, True] if s.cfg['lifo'] is None else [s.cfg['lifo']]
        for lifo in lifos:
            st = State()
            ms = z3.BitVec('max_size', 64); st.assume(z3.ULE(ms, s.cfg['max_size_bound']))
            pt = tuple(s.tv_value(st, v, f'pool_{n}') for v, n in zip(s.cfg['pool_timeouts'], ('wait', 'create', 'recycle')))
            for st1, r in s.W.build_pool(st, ms, queue_lifo=lifo, timeouts=pt, runtime=s.cfg['runtime'], hooks=s.cfg['hooks']):
                if st1.log and any(e[0] in ('create_call', 'hook_call', 'recycle_call', 'detach', 'pred_call') for e in st1.log):
                    st1.gset('flags', st1.gget('flags', ()) + ('build_called_user_code',))
                if r[0] != 'ok' or r[1].variant != 'Ok':
                    st1.gset('build_result', r); out.append(st1); continue
                proot = st1.alloc(payload(r[1]))
                st1.gset('pool', proot); st1.gset('max_size', ms); st1.gset('lifo', lifo)
                st1.gset('objs', {}); st1.gset('idleq', ()); st1.gset('trail', {}); st1.gset('resizes', ()); st1.gset('hand', ())
                for t in s.tasks + ['C']:
                    th = s.W.thread(st1, t); th.local = {'gets': 0, 'objs': (), 'nctl': 0}
                st1.threads.pop('main', None)
                st1.log = (('init', 'lifo' if lifo else 'fifo'),)
                out.append(st1)
        return out

    def tv_value(s, st, v, name):
        if v is None: return None
        if v == 'zero': return dur(0)
        if v == 'pos':
            x = z3.BitVec(f'dur_{name}', 64); st.assume(z3.UGT(x, 0)); return dur(x)
        raise ValueError(v)

    # ------------------------------------------------------------- actions
    def actions(s, st):
        if st.gget('pool') is None: return []
        acts = []
        for t in s.tasks:
            th = st.threads[t]; L = th.local
            if th.stack: continue
            if 'fut' in L:
                acts.append(('poll', t))
                if s.cfg['cancel']: acts.append(('cancel', t))
            elif L['gets'] < s.cfg['max_gets']:
                for i, tv in enumerate(s.cfg['timeout_variants']): acts.append(('get', t, i))
            for i in range(len(L['objs'])):
                acts.append(('drop', t, i))
                if s.cfg['take']: acts.append(('take', t, i))
                break      # objects held by one task are interchangeable up to renaming: act on the first only
        C = st.threads['C'].local
        if C['nctl'] < s.cfg['max_ctl']:
            for a in s.cfg['ctl']:
                if a == 'resize':
                    for n in s.cfg['resize_targets']: acts.append(('resize', n))
                else:
                    acts.append((a,))
        return acts

    # ------------------------------------------------------------- apply
    def apply(s, st, a):
        st = st.clone(); st.logev('act',) if False else None
        st.log = st.log + (('act',) + tuple(a),)
        st.gset('last', None); st.gset('seen', ())
        kind = a[0]; proot = st.gget('pool'); outs = []
        if kind == 'get':
            t = a[1]; tvs = s.cfg['timeout_variants'][a[2]]
            tv = None
            if tvs is not None:
                vals = [s.tv_value(st, v, f'{t}_{st.threads[t].local["gets"]}_{n}') for v, n in zip(tvs, ('wait', 'create', 'recycle'))]
                tv = Agg('Timeouts', [NONE if v is None else some(v) for v in vals])
            st.threads[t].local['gets'] += 1
            s.note_get_start(st, t, tvs)
            for st1, r in s.W.start_get(st, t, proot, tv):
                fr = st1.alloc(r[1]); st1.threads[t].local['fut'] = fr
                for st2, r2 in s.W.poll(st1, t, fr): outs.extend(s.after_poll(st2, t, r2, a))
        elif kind == 'poll':
            t = a[1]
            for st2, r2 in s.W.poll(st, t, st.threads[t].local['fut']): outs.extend(s.after_poll(st2, t, r2, a))
        elif kind == 'cancel':
            t = a[1]; fr = st.threads[t].local.pop('fut'); fut = st.heap.pop(fr)
            s.note_susp(fut)
            for st2, r in s.W.drop(st, t, [fut]):
                st2.gset('last', {'act': a, 'task': t, 'res': ('cancelled',) if r[0] == 'ok' else r})
                outs.append(st2)
        elif kind in ('drop', 'take'):
            t = a[1]; L = st.threads[t].local; objs = list(L['objs']); oroot = objs.pop(a[2]); L['objs'] = tuple(objs)
            obj = st.heap.pop(oroot); oid = s.obj_id(st, obj)
            if kind == 'drop':
                s.note_return(st, oid)
                for st2, r in s.W.drop_object(st, t, obj):
                    st2.gset('last', {'act': a, 'task': t, 'res': r, 'oid': oid}); outs.append(st2)
            else:
                for st2, r in s.W.take(st, t, obj):
                    if r[0] == 'ok':
                        s.W.env.g_obj(st2, oid, handed='+1')
                        st2.logev('handed', oid, 'take')
                        for st3, r3 in s.W.drop(st2, t, [r[1]]):
                            st3.gset('last', {'act': a, 'task': t, 'res': ('ok', 'taken'), 'oid': oid}); outs.append(st3)
                    else:
                        st2.gset('last', {'act': a, 'task': t, 'res': r, 'oid': oid}); outs.append(st2)
        elif kind == 'status':
            st.threads['C'].local['nctl'] += 1
            for st2, r in s.W.status(st, 'C', proot):
                st2.gset('last', {'act': a, 'task': 'C', 'res': r}); outs.append(st2)
        elif kind == 'resize':
            st.threads['C'].local['nctl'] += 1
            st.gset('resizes', st.gget('resizes', ()) + (a[1],))
            for st2, r in s.W.resize(st, 'C', proot, I(a[1])):
                st2.gset('last', {'act': a, 'task': 'C', 'res': r}); outs.append(st2)
        elif kind == 'close':
            st.threads['C'].local['nctl'] += 1
            for st2, r in s.W.close(st, 'C', proot):
                st2.gset('closed_ret', True)
                st2.gset('last', {'act': a, 'task': 'C', 'res': r}); outs.append(st2)
        elif kind == 'retain':
            st.threads['C'].local['nctl'] += 1
            st.gset('pred_removed', ())
            for st2, r in s.W.retain(st, 'C', proot):
                if r[0] == 'ok':
                    rr = r[1]; removed = rr.f[1].items(); ids = tuple(s.W.env.oid_of(s.M, st2, o) for o in removed)
                    for oid in ids:
                        s.W.env.g_obj(st2, oid, handed='+1'); st2.logev('handed', oid, 'retain')
                    for st3, r3 in s.W.drop(st2, 'C', removed):
                        st3.gset('last', {'act': a, 'task': 'C', 'res': ('ok', 'retain'), 'retained': rr.f[0], 'removed': ids,
                                          'pred_removed': st3.gget('pred_removed', ())})
                        outs.append(st3)
                else:
                    st2.gset('last', {'act': a, 'task': 'C', 'res': r}); outs.append(st2)
        else:
            raise ValueError(a)
        for o in outs:
            for th in o.threads.values():
                if not th.stack: th.panicking = False; th.result = None
            o.gset('pending_vio', tuple(s.digest(st, a, o)))
        return outs

    def obj_id(s, st, obj):
        """ground-truth id of the pooled object inside an Object wrapper (harness-owned identity tag)"""
        def walk(v):
            if isinstance(v, Agg):
                if v.ty == 'Obj': return v.f[0].tag
                for x in v.f.values():
                    r = walk(x)
                    if r: return r
            return None
        r = walk(obj)
        if r is None: raise InternalError('Object without pooled value')
        return r

    def after_poll(s, st, t, r, a):
        L = st.threads[t].local
        if r[0] != 'ok':
            # panic escaped get(): the future is dropped by the unwinding caller (state `panicked`: nothing left inside)
            fr = L.pop('fut'); fut = st.heap.pop(fr)
            outs = []
            for st2, r2 in s.W.drop(st, t, [fut]):
                st2.gset('last', {'act': a, 'task': t, 'res': ('panic',)}); outs.append(st2)
            return outs
        p = r[1]
        if p.variant == 'Pending':
            st.gset('last', {'act': a, 'task': t, 'res': ('pending',)}); return [st]
        fr = L.pop('fut'); st.heap.pop(fr)
        res = payload(p)
        if res.variant == 'Ok':
            obj = payload(res); oid = s.obj_id(st, obj)
            oroot = st.alloc(obj); L['objs'] = L['objs'] + (oroot,)
            s.W.env.g_obj(st, oid, handouts='+1')
            st.logev('handout', oid, t)
            st.gset('last', {'act': a, 'task': t, 'res': ('ok', 'object'), 'oid': oid, 'oroot': oroot})
            return [st]
        e = payload(res)
        desc = e.variant + (':' + payload(e).variant if e.variant == 'Timeout' else '')
        st.logev('get_err', t, desc)
        outs = []
        for st2, r2 in s.W.drop(st, t, [e]):
            st2.gset('last', {'act': a, 'task': t, 'res': ('err', desc)}); outs.append(st2)
        return outs

    # ------------------------------------------------------------- ghost notes
    def note_get_start(s, st, t, tvs):
        calls = dict(st.gget('calls', {}))
        calls[t] = {'after_resize': len(st.gget('resizes', ())), 'after_close': bool(st.gget('closed_ret')), 'tv': tvs,
                    'snap': s.snapshot(st), 'clean': True, 'inhand': (), 'nogets': st.threads[t].local['gets']}
        for o in calls:
            if o != t: calls[o] = dict(calls[o], clean=False)
        st.gset('calls', calls)

    def note_return(s, st, oid): pass

    def snapshot(s, st):
        """ground truth + real status() (on a scratch copy) for the single-task differential of C03"""
        sc = st.clone()
        res = s.W.status(sc, 'C', sc.gget('pool'))
        S = res[0][1][1] if len(res) == 1 and res[0][1][0] == 'ok' else None
        sem = s.semaphore(st)
        return {'status': None if S is None else tuple(S.items()), 'live': tuple(sorted(s.live_ids(st))),
                'permits': sem.f[0], 'queue': len(sem.f[2]), 'assigned': len(sem.f[3])}

    def semaphore(s, st):
        found = []
        def walk(v):
            if isinstance(v, Agg):
                if v.ty == 'Semaphore': found.append(v); return
                if v.ty in ('Obj',): return
                for x in v.f.values(): walk(x)
        pool = st.heap[st.gget('pool')]
        walk(st.heap[pool.f[0].f[0].root])
        if len(found) != 1: raise InternalError('semaphore of the pool not found')
        return found[0]

    def note_susp(s, fut):
        def walk(v, acc):
            if isinstance(v, Agg):
                if v.ty.startswith('{coroutine') and v.discr is not None and v.discr >= 3:
                    acc.append((v.variant.split('::', 1)[-1][-60:], v.discr))
                for x in v.f.values(): walk(x, acc)
        acc = []; walk(fut, acc)
        key = tuple(acc)
        s.susp[key] = s.susp.get(key, 0) + 1

    # ------------------------------------------------------------- key / describe
    def key(s, st):
        roots = []
        if st.gget('pool') is not None: roots.append(st.gget('pool'))
        for t in sorted(st.threads):
            L = st.threads[t].local
            if 'fut' in L: roots.append(L['fut'])
            roots.extend(L.get('objs', ()))
        return explore.state_key(st, roots, GHOST_KEYS)

    def describe(s, st):
        return {'trace': [list(map(str, e)) for e in st.log if e[0] in ('init', 'act', 'env')], 'pc': [c.sexpr() for c in st.pc]}

    # ------------------------------------------------------------- oracles
    def live_ids(s, st):
        return [k for k, r in st.gget('objs', {}).items() if r['destroyed'] == 0 and r['handed'] == 0]

    def vio(s, prop, what, st, **kw):
        d = {'property': prop, 'what': what}; d.update(kw); return d

    def check(s, st0, a, st):
        out = []
        if st.gget('pool') is None: return out
        O = s.cfg['oracles']; last = st.gget('last') or {}
        ms = st.gget('max_size')
        objs = st.gget('objs', {})
        # --- generic: deadpool-raised panics, deadlocks, aborts (C02 / C11 "no counter wraps" in dev profile)
        if st.gget('deadpool_panics') and ('C02' in O or 'C11' in O):
            msg = st.gget('deadpool_panics')[-1]
            out.append(s.vio('C11' if 'overflow' in msg and 'C11' in O else ('C02' if 'C02' in O else 'C11'), 'panic raised inside deadpool: ' + msg, st))
            return out
        if st.gget('deadlocks') and 'C02' in O:
            out.append(s.vio('C02', 'self-deadlock on a pool mutex', st)); return out
        for o, r in objs.items():
            if r['destroyed'] > 1: out.append(s.vio(O[0], f'object {o} destroyed twice', st))
        if 'C01' in O and not st.gget('resizes'):
            live = len(s.live_ids(st))
            if s.M.feasible(st, z(binop('Gt', I(live), ms))):
                out.append(s.vio('C01', f'{live} live objects exceed max_size', st))
            if 'create_over_limit' in st.gget('flags', ()):
                out.append(s.vio('C01', 'Manager::create called while max_size objects are alive', st))
        return out

    def check_state(s, st):
        out = []
        if st.gget('pool') is None: return out
        O = s.cfg['oracles']
        if 'C11' in O: out.extend(s.check_status(st))
        if out: return out
        if 'C02' in O and s.cfg['probe']: out.extend(s.probe(st))
        return out

    # status(): exact at rest, plausible otherwise  (run on a scratch copy, the real status() MIR)
    def check_status(s, st):
        out = []
        sc = st.clone()
        res = s.W.status(sc, 'C', sc.gget('pool'))
        if len(res) != 1 or res[0][1][0] != 'ok':
            return [s.vio('C11', 'status() did not return normally', st)]
        sc, r = res[0]; S = r[1]
        smax, ssize, savail, swait = S.f[0], S.f[1], S.f[2], S.f[3]
        live = len(s.live_ids(st))
        pending = [t for t in s.tasks if 'fut' in st.threads[t].local]
        queued = s.queued_tasks(st)
        out_n = sum(len(st.threads[t].local['objs']) for t in s.tasks)
        idle = live - out_n - s.in_progress_objs(st)
        at_rest = all(t in queued for t in pending)
        closed = st.gget('closed_ret')
        exp_max = I(0) if closed else (I(st.gget('resizes')[-1]) if st.gget('resizes') else st.gget('max_size'))
        def ne(x, y): return s.M.feasible(sc, z(binop('Ne', x, y)))
        def gt(x, y): return s.M.feasible(sc, z(binop('Gt', x, y)))
        if ne(smax, exp_max): out.append(s.vio('C11', f'status().max_size differs from the configured / last resized value', st))
        if at_rest:
            if ne(ssize, I(live)): out.append(s.vio('C11', f'at rest status().size != {live} objects that exist', st, status=repr(S)))
            if ne(savail, I(idle)): out.append(s.vio('C11', f'at rest status().available != {idle} idle objects', st, status=repr(S)))
            if ne(swait, I(len(queued))): out.append(s.vio('C11', f'at rest status().waiting != {len(queued)} blocked callers', st, status=repr(S)))
        else:
            creating = len(pending)
            if gt(ssize, I(live + creating)): out.append(s.vio('C11', 'status().size exceeds objects that exist or are being created', st, status=repr(S)))
            if gt(savail, ssize): out.append(s.vio('C11', 'status().available exceeds size', st, status=repr(S)))
            if gt(swait, I(len(pending))): out.append(s.vio('C11', 'status().waiting exceeds callers inside get()', st, status=repr(S)))
        for v in (ssize, savail, swait):
            if gt(v, I(1 << 62)): out.append(s.vio('C11', 'a status counter wrapped around', st, status=repr(S)))
        if not st.gget('resizes') and not closed and gt(ssize, smax):
            out.append(s.vio('C11', 'status().size exceeds max_size without any shrink', st, status=repr(S)))
        return out

    def queued_tasks(s, st):
        """tasks whose Acquire future is queued at the semaphore (environment-model state)"""
        res = []
        queued = set()
        def sems(v):
            if isinstance(v, Agg):
                if v.ty == 'Semaphore': queued.update(v.f[2]); return
                for x in v.f.values(): sems(x)
        for v in st.heap.values(): sems(v)
        for t in s.tasks:
            L = st.threads[t].local
            if 'fut' not in L: continue
            tk = s.find_ticket(st.heap[L['fut']])
            if tk is not None and tk in queued: res.append(t)
        return res

    def find_ticket(s, v):
        if isinstance(v, Agg):
            if v.ty == 'Acquire':
                return v.f[1] if v.f[1].tag.startswith('tk:') else None
            for x in v.f.values():
                r = s.find_ticket(x)
                if r is not None: return r
        return None

    def in_progress_objs(s, st):
        """objects currently inside a pending get() (being recycled / post_create), found in the futures"""
        n = 0
        def walk(v):
            nonlocal n
            if isinstance(v, Agg):
                if v.ty == 'Obj': n += 1; return
                for x in v.f.values(): walk(x)
        for t in s.tasks:
            L = st.threads[t].local
            if 'fut' in L: walk(st.heap[L['fut']])
        return n

    # end-of-history probe: cancel everything, return everything, then exactly max_size non-blocking gets succeed
    def probe(s, st):
        if st.gget('closed_ret') or st.gget('resizes'): return []
        s.nprobes += 1
        sc = st.clone(); sc.log = ()
        M = s.M
        saved = dict(s.W.env.cfg)
        s.W.env.cfg.update({'create': ('ok',), 'recycle': ('ok',), 'hook': ('ok',), 'timer': False})
        try:
            cur = [sc]
            for t in s.tasks:
                nxt = []
                for x in cur:
                    L = x.threads[t].local
                    if 'fut' in L:
                        fut = x.heap.pop(L.pop('fut'))
                        nxt.extend(y for y, r in s.W.drop(x, t, [fut]))
                    else: nxt.append(x)
                cur = nxt
                while True:
                    nxt = []; any_obj = False
                    for x in cur:
                        L = x.threads[t].local
                        if L['objs']:
                            any_obj = True
                            objs = list(L['objs']); o = x.heap.pop(objs.pop(0)); L['objs'] = tuple(objs)
                            nxt.extend(y for y, r in s.W.drop_object(x, t, o))
                        else: nxt.append(x)
                    cur = nxt
                    if not any_obj: break
            out = []
            tv = Agg('Timeouts', [some(dur(0)), NONE, NONE])
            bound = s.cfg['max_size_bound'] + 1
            for x in cur:
                if x.gget('deadpool_panics'):
                    out.append(s.vio('C02', 'panic inside deadpool while draining the pool: ' + x.gget('deadpool_panics')[-1], st)); continue
                got = 0; states = [x]
                final = []
                for i in range(bound + 1):
                    nxt = []
                    for y in states:
                        for y1, r in s.W.start_get(y, 'C', y.gget('pool'), tv):
                            fr = y1.alloc(r[1])
                            for y2, r2 in s.W.poll(y1, 'C', fr):
                                if r2[0] != 'ok': out.append(s.vio('C02', 'probe get panicked', st)); continue
                                p = r2[1]
                                if p.variant == 'Pending':
                                    out.append(s.vio('C02', 'non-blocking get returned Pending', st)); continue
                                y2.heap.pop(fr, None)
                                res = payload(p)
                                if res.variant == 'Ok':
                                    y2.gset('probe_n', y2.gget('probe_n', 0) + 1)
                                    y2.gset('probe_objs', y2.gget('probe_objs', ()) + (payload(res),))
                                    nxt.append(y2)
                                else:
                                    final.append((y2, payload(res)))
                    states = nxt
                    if not states: break
                for y in states:
                    out.append(s.vio('C02', f'pool handed out more than max_size objects concurrently in the capacity probe', st))
                for y, e in final:
                    n = y.gget('probe_n', 0)
                    if e.variant != 'Timeout':
                        out.append(s.vio('C02', f'capacity probe ended with {e.variant} instead of Timeout(Wait)', st)); continue
                    if M.feasible(y, z(binop('Ne', I(n), y.gget('max_size')))):
                        out.append(s.vio('C02', f'capacity after the history is {n}, not max_size (capacity lost or gained)', st, got=n))
            return out[:1]
        finally:
            s.W.env.cfg.clear(); s.W.env.cfg.update(saved)


# ====================================================================== event digest: C03 C04 C06 C07 C08 C09 C10 C13
def _events_since_act(st):
    log = st.log; i = len(log) - 1
    while i >= 0 and log[i][0] != 'act': i -= 1
    return log[i + 1:] if i >= 0 else log


def _digest(s, st0, a, st):
    """update the ground-truth ghost state from the events of the last action and return oracle violations"""
    V = []
    def vio(prop, what, **kw): V.append(s.vio(prop, what, st, **kw))
    ev = _events_since_act(st)
    last = st.gget('last') or {}
    actor = last.get('task')
    hooks = s.cfg['hooks']
    nh = {k: sum(1 for h in hooks if h[0] == k) for k in ('post_create', 'pre_recycle', 'post_recycle')}
    trail = dict(st.gget('trail', {})); idleq = list(st.gget('idleq', ())); calls = dict(st.gget('calls', {}))
    objs = st.gget('objs', {}); lifo = st.gget('lifo')
    shadow = dict(st.gget('met_shadow', {}))
    thread_mode = s.cfg['thread_mode']
    resizing = a[0] in ('resize', 'close')
    cur = calls.get(actor)
    def touch(oid):
        nonlocal cur
        if cur is not None and oid not in cur['inhand']:
            cur = dict(cur, inhand=cur['inhand'] + (oid,)); calls[actor] = cur
    def offered(oid):
        # first touch of an idle object by a get(): must be the one the queue mode prescribes
        if oid in idleq:
            exp = idleq[-1] if lifo else idleq[0]
            if oid != exp and not thread_mode:
                vio('C08', f'get() offered {oid} for recycling but the {"newest" if lifo else "oldest"} idle object is {exp}')
            idleq.remove(oid)
    for e in ev:
        k = e[0]
        if k in ('create_call', 'created', 'hook_call', 'recycle_call', 'detach', 'destroy', 'pred_call'):
            th = e[1] if k == 'create_call' else (e[4] if k == 'hook_call' else e[2])
            if th != actor and actor is not None:
                vio('C08', f'user code ({k}) ran on a thread that is not inside a pool operation')
            if k in ('create_call', 'hook_call', 'recycle_call') and a[0] not in ('get', 'poll'):
                vio('C08', f'{k} invoked outside get(): during {a[0]}')
        if k == 'create_call':
            if idleq and not thread_mode:
                vio('C08', 'Manager::create called although an idle object was available')
            live = len([o for o, r in objs.items() if r['destroyed'] == 0 and r['handed'] == 0])
        elif k == 'created':
            trail[e[1]] = (('create', 0, 'ok'),); touch(e[1])
        elif k == 'hook_call':
            kind, idx, oid = e[1], e[2], e[3]
            if kind != 'post_create': offered(oid)
            touch(oid)
            trail[oid] = trail.get(oid, ()) + ((kind, idx, 'started'),)
            cur_oid = oid
            _check_seen(s, st, shadow, objs, 'hook:' + kind, oid, e[5], vio)
        elif k == 'recycle_call':
            oid = e[1]; offered(oid); touch(oid)
            trail[oid] = trail.get(oid, ()) + (('recycle', 0, 'started'),)
            _check_seen(s, st, shadow, objs, 'recycle', oid, e[3], vio)
        elif k == 'pred_call':
            oid = e[1]
            if oid not in idleq and not thread_mode: vio('C09', f'retain() predicate was shown {oid}, which is not idle')
            _check_seen(s, st, shadow, objs, 'retain', oid, e[3], vio)
        elif k == 'env' and e[1] in ('hook', 'recycle') and e[-1] in ('ok', 'err', 'panic'):
            # completes the most recent started step of the object this task is working on
            for oid in (cur['inhand'] if cur else ()):
                tr = trail.get(oid, ())
                if tr and tr[-1][2] == 'started':
                    trail[oid] = tr[:-1] + ((tr[-1][0], tr[-1][1], e[-1]),)
        elif k == 'handed':
            if e[1] in idleq: idleq.remove(e[1])
        elif k == 'destroy':
            if e[1] in idleq:
                idleq.remove(e[1])
                if not resizing and a[0] != 'retain' and not thread_mode:
                    vio('C05' if False else 'C09', f'idle object {e[1]} destroyed by {a[0]}')
    # ---- end of a get() call on this action?
    res = last.get('res')
    if a[0] in ('get', 'poll', 'cancel') and cur is not None and res and res[0] != 'pending':
        handed = last.get('oid') if res[:2] == ('ok', 'object') else None
        if handed is not None:
            tr = trail.get(handed, ())
            exp_new = (('create', 0, 'ok'),) + tuple(('post_create', i, 'ok') for i in range(nh['post_create']))
            exp_rec = tuple(('pre_recycle', i, 'ok') for i in range(nh['pre_recycle'])) + (('recycle', 0, 'ok'),) + \
                tuple(('post_recycle', i, 'ok') for i in range(nh['post_recycle']))
            if tr != exp_new and tr != exp_rec:
                vio('C04', f'object {handed} handed out after verification steps {tr}, expected creation+post_create hooks or pre_recycle+recycle+post_recycle all ok')
            if objs[handed]['destroyed'] or objs[handed]['detached'] or objs[handed]['handed']:
                vio('C04', f'object {handed} handed out after it was discarded/detached')
            trail[handed] = ()
            if cur['after_close'] and not thread_mode:
                vio('C06', 'get() issued after close() returned yielded an object')
            _check_handout_metrics(s, st, shadow, objs, handed, last, vio)
        for oid in cur['inhand']:
            if oid == handed: continue
            r = objs[oid]
            if r['destroyed'] != 1 or r['detached'] != 1:
                vio('C04' if res[0] in ('err', 'ok') else 'C03',
                    f'object {oid} was taken in hand by a get() that ended ({res}) without handing it out, but it was destroyed {r["destroyed"]}x and detached {r["detached"]}x (expected exactly once each)')
        if res[0] == 'err':
            _check_error(s, st, ev, cur, res[1], vio)
        if res[0] in ('cancelled', 'panic') or (res[0] == 'err' and res[1].startswith('Timeout')):
            _check_abandon(s, st, cur, res, vio)
        calls.pop(actor, None)
    elif a[0] in ('get', 'poll') and cur is not None and res and res[0] == 'pending':
        tv = cur['tv'] if cur['tv'] is not None else s.cfg['pool_timeouts']
        if tv[0] == 'zero' and s.queued_for(st, actor):
            vio('C10', 'get() with a zero wait timeout is waiting for a slot')
    if a[0] not in ('get', 'poll', 'cancel'):
        for o in calls: calls[o] = dict(calls[o], clean=False)
    # ---- object returned
    if a[0] == 'drop' and res and res[0] == 'ok':
        oid = last['oid']; r = objs[oid]
        if r['destroyed'] == 0:
            idleq.append(oid)
            if st.gget('closed_ret') and not thread_mode:
                vio('C06', f'object {oid} returned after close() is kept by the closed pool')
    # ---- retain
    if a[0] == 'retain' and res and res[0] == 'ok':
        pr = tuple(last['pred_removed']); rm = tuple(last['removed'])
        if pr != rm: vio('C09', f'retain() removed {rm} but the predicate rejected {pr}')
        kept = sum(1 for e in ev if e[0] == 'env' and e[1] == 'pred' and e[3] == 'keep')
        if s.M.feasible(st, z(binop('Ne', last['retained'], I(kept)))):
            vio('C09', f'retain() reported retained={last["retained"]!r} but the predicate kept {kept}')
        for oid in rm:
            if objs[oid]['detached'] != 1: vio('C09', f'object {oid} removed by retain() was detached {objs[oid]["detached"]} times')
    # ---- detach bookkeeping (every object the pool let go of while alive is detached exactly once, none that stays)
    for oid, r in objs.items():
        gone = r['destroyed'] > 0 or r['handed'] > 0
        inflight = any(oid in c['inhand'] for c in calls.values())
        if not gone and r['detached'] > 0 and not inflight:
            vio('C09', f'object {oid} is still in the pool but was detached')
        if gone and r['detached'] != 1 and not inflight:
            rel = [e for e in ev if e[0] == 'destroy' and e[1] == oid]
            if rel and resizing and r['detached'] == 0:
                V.append(dict(s.vio('C09', f'object {oid} released by {a[0]}() without Manager::detach', st), known='K-C09'))
            elif rel or any(e[0] == 'handed' and e[1] == oid for e in ev):
                vio('C09', f'object {oid} left the pool ({a[0]}) but Manager::detach was called {r["detached"]} times')
    # ---- close / resize post-conditions (ground truth)
    if a[0] in ('resize', 'close') and res and res[0] == 'ok' and not thread_mode:
        n = 0 if a[0] == 'close' else a[1]
        live = len(s.live_ids(st))
        if not st0.gget('closed_ret') or a[0] == 'close':
            if live > n and idleq:
                vio('C07' if a[0] == 'resize' else 'C06', f'after {a[0]}({n}) {live} objects exist and {len(idleq)} idle objects were kept')
        elif a[0] == 'resize':
            if len(s.live_ids(st0)) != live: vio('C06', 'resize() on a closed pool changed the pool')
    st.gset('trail', trail); st.gset('idleq', tuple(idleq)); st.gset('calls', calls); st.gset('met_shadow', shadow)
    return V


def _check_seen(s, st, shadow, objs, who, oid, mt, vio):
    """metrics shown to hooks / recycle / retain: must equal what Object::metrics() last reported (or a fresh object's)"""
    sh = shadow.get(oid)
    if sh is None:
        if mt[1] is not None or mt[2] != '0':
            vio('C13', f'{who} saw metrics {mt} on a brand-new object {oid}')
        shadow[oid] = {'created': mt[0], 'reported': mt}
        return
    if mt[0] != sh['created']: vio('C13', f'creation instant of {oid} changed: {sh["created"]} -> {mt[0]} (seen by {who})')
    if mt != sh['reported']:
        vio('C13', f'{who} saw metrics {mt} for {oid} but the last hand-out reported {sh["reported"]}')


def _find_metrics(v):
    if isinstance(v, Agg):
        if v.ty == 'Metrics': return v
        for x in v.f.values():
            r = _find_metrics(x)
            if r is not None: return r
    return None


def _check_handout_metrics(s, st, shadow, objs, oid, last, vio):
    obj = st.heap[last['oroot']]
    met = _find_metrics(obj)
    if met is None: raise InternalError('no Metrics inside Object')
    mt = s.W.env.metrics_tuple(met)
    h = objs[oid]['handouts']          # including this one
    sh = shadow.get(oid)
    if sh is None:
        sh = {'created': mt[0], 'reported': None}
    if mt[0] != sh['created']: vio('C13', f'creation instant of {oid} changed: {sh["created"]} -> {mt[0]}')
    if mt[2] != str(h - 1): vio('C13', f'recycle_count of {oid} is {mt[2]} at hand-out number {h} (expected {h - 1})')
    if h == 1 and mt[1] is not None: vio('C13', f'last-recycled instant of {oid} is set before its first reuse')
    if h > 1:
        if mt[1] is None: vio('C13', f'last-recycled instant of {oid} is absent after reuse')
        else:
            prev = sh['reported'][1] if sh.get('reported') else None
            if int(mt[1]) < int(mt[0]) or (prev is not None and int(mt[1]) < int(prev)):
                vio('C13', f'last-recycled instant of {oid} moved backwards')
    shadow[oid] = {'created': sh['created'], 'reported': mt}


def _check_error(s, st, ev, cur, desc, vio):
    """the error variant must match the step that failed; recycle failures are never returned"""
    cause = None
    for e in ev:
        if e[0] == 'env' and e[1] == 'create' and e[3] == 'err': cause = 'Backend'
        elif e[0] == 'env' and e[1] == 'hook' and e[2] == 'post_create' and e[4] == 'err': cause = 'PostCreateHook'
        elif e[0] == 'env' and e[1] == 'timer' and e[3] == 'expired':
            cause = {'wait': 'Timeout:Wait', 'create': 'Timeout:Create', 'recycle': None}.get(e[4], cause)
    if cause is not None and desc != cause:
        vio('C04', f'get() returned {desc} but the failing step calls for {cause}')
    if cause is None and desc in ('Backend', 'PostCreateHook', 'Timeout:Create', 'Timeout:Recycle'):
        vio('C04', f'get() returned {desc} although no creation step failed in this call')
    if desc == 'Timeout:Wait' and cause is None:
        tv = cur['tv'] if cur['tv'] is not None else s.cfg['pool_timeouts']
        if tv[0] != 'zero': vio('C10', 'Timeout(Wait) returned without a zero wait timeout and without the deadline passing')
    if desc == 'NoRuntimeSpecified':
        tv = cur['tv'] if cur['tv'] is not None else s.cfg['pool_timeouts']
        if s.cfg['runtime'] or not any(x == 'pos' for x in tv) and not any(x == 'zero' for x in tv[1:]):
            vio('C10', 'NoRuntimeSpecified returned although a runtime is configured / no timeout is in play')
        if any(e[0] == 'destroy' for e in ev):
            V = dict(s.vio('C10', 'a get() that fails with NoRuntimeSpecified destroyed an idle object', st)); vio('C10', V['what'])


def _check_abandon(s, st, cur, res, vio):
    """C03 single-task differential: after an abandoned get() everything is as before, minus the objects discarded"""
    if not cur['clean'] or s.cfg['thread_mode']: return
    s0 = cur['snap']; s1 = s.snapshot(st)
    lost = [o for o in s0['live'] if o not in s1['live']]
    gained = [o for o in s1['live'] if o not in s0['live']]
    if gained: vio('C03', f'abandoned get() ({res}) left new objects {gained} in the pool')
    def ne(x, y): return s.M.feasible(st, z(binop('Ne', x, y)))
    if ne(s0['permits'], s1['permits']) or s0['queue'] != s1['queue'] or s0['assigned'] != s1['assigned']:
        vio('C03', f'abandoned get() ({res}) left a slot reserved or a waiter behind: permits {s0["permits"]!r}->{s1["permits"]!r}, waiters {s0["queue"]}->{s1["queue"]}')
    a0, a1 = s0['status'], s1['status']
    if a0 is None or a1 is None: vio('C03', 'status() unavailable around an abandoned get()'); return
    if ne(a0[0], a1[0]) or ne(a0[3], a1[3]): vio('C03', f'status() max_size/waiting changed by an abandoned get(): {a0} -> {a1}')
    if ne(binop('Sub', a0[1], I(len(lost))), a1[1]):
        vio('C03', f'status().size after an abandoned get() is {a1[1]!r}, expected {a0[1]!r} minus {len(lost)} discarded')
    if ne(binop('Sub', a0[2], I(len(lost))), a1[2]):
        vio('C03', f'status().available after an abandoned get() is {a1[2]!r}, expected {a0[2]!r} minus {len(lost)} discarded')


def _queued_for(s, st, t):
    return t in s.queued_tasks(st)


ManagedBSE.digest = _digest
ManagedBSE.queued_for = _queued_for
