"""C16: deadpool-postgres Manager::recycle, StatementCache and the statement_caches registry, from MIR, on a model of
tokio_postgres::Client (is_closed / simple_query / prepare_typed)."""
import re, itertools
import z3
from .mir import Unmodelled
from .core import (I, Agg, Ref, Opaque, UNINIT, UNIT, NONE, PENDING, mk_enum, some, ok, err, ready, payload, is_sym, simp, z, b_not, b_and,
                   b_or, binop, InternalError, State)
from .managed import World
from .w_pgconfig import PgEnv, sterm, S, sref

CLEAN = ['CLOSE ALL', 'SET SESSION AUTHORIZATION DEFAULT', 'RESET ALL', 'UNLISTEN *', 'SELECT pg_advisory_unlock_all()', 'DISCARD TEMP', 'DISCARD SEQUENCES']


class PgMgrEnv(PgEnv):
    home = 'deadpool_postgres'

    def __init__(s, cfg=None):
        super().__init__()
        s.cfg = {'closed': False, 'query': 'ok', 'prepare': 'ok'}; s.cfg.update(cfg or {})

    def copy_types(s): return super().copy_types() + ('Statement', 'Type')

    def clone_value(s, M, st, v, strict=True):
        if isinstance(v, Agg) and v.ty in ('Statement', 'Type', 'TypeList'): return v
        return super().clone_value(M, st, v, strict)

    # tracing: no subscriber, every level check is false
    def call(s, M, st, th, callee, args):
        if callee.startswith('<Level as PartialOrd<LevelFilter>>::'): return s.ret(st, False)
        if callee.startswith(('LevelFilter::', 'DefaultCallsite::', 'tracing::', 'Event::', 'FieldSet::')): return s.ret(st, Opaque('tracing'))
        if callee.startswith(('core::fmt::rt::', 'Arguments::')): return s.ret(st, Opaque('fmt'))
        return super().call(M, st, th, callee, args)

    # ---- tokio_postgres::Client
    def p_Client__is_closed(s, M, st, th, ci, a):
        c = M.deref(st, a[0]); st.logev('client', 'is_closed', c.f[0].tag)
        return s.ret(st, bool(M.deref(st, a[0]).f[1]))

    def p_Client__simple_query(s, M, st, th, ci, a):
        c = M.deref(st, a[0]); q = sterm(M, st, a[1])
        st.gset('queries', st.gget('queries', ()) + ((c.f[0].tag, q),)); st.logev('client', 'simple_query', c.f[0].tag, repr(q)[:120])
        return s.ret(st, Agg('PgFut', [Opaque('simple_query'), Opaque('fresh'), c.f[0]]))

    def p_Client__prepare_typed(s, M, st, th, ci, a):
        c = M.deref(st, a[0]); q = sterm(M, st, a[1]); ty = s.types_of(M, st, a[2])
        n = st.gget('n_prep', 0) + 1; st.gset('n_prep', n)
        st.gset('prepares', st.gget('prepares', ()) + ((c.f[0].tag, q, ty, n),)); st.logev('client', 'prepare_typed', c.f[0].tag, repr(q)[:80], ty, n)
        return s.ret(st, Agg('PgFut', [Opaque('prepare'), Opaque('fresh'), c.f[0], I(n)]))

    def types_of(s, M, st, v):
        if isinstance(v, Ref): v = M.deref(st, v)
        if isinstance(v, Agg) and v.ty in ('TypeList', 'Vec', 'array'): return tuple(x.f[0].tag if isinstance(x, Agg) else x.tag for x in v.items())
        if isinstance(v, Agg) and v.ty == 'Cow': return s.types_of(M, st, payload(v))
        raise InternalError(f'not a type list: {v!r}'[:160])

    def poll_PgFut(s, M, st, th, fut, fref):
        kind = fut.f[0].tag; outs = []
        script = st.gget('reply_script')
        opts = ['ok', 'err'] + (['pending'] if fut.f[1] == Opaque('fresh') else [])
        if script is not None: opts = [o for o in opts if o in script.get(kind, opts)]
        for o in opts:
            st2 = st.clone(); st2.logev('env', kind, o)
            if o == 'pending':
                M.write(st2, fref, fut.with_field(1, Opaque('once'))); outs.append(('ret', st2, PENDING)); continue
            M.write(st2, fref, fut.with_field(1, Opaque('done')))
            if o == 'err': outs.append(('ret', st2, ready(err(Agg('PgError', [])))))
            elif kind == 'prepare': outs.append(('ret', st2, ready(ok(Agg('Statement', [Opaque(f'stmt:{fut.f[3].v}'), fut.f[2]])))))
            else: outs.append(('ret', st2, ready(ok(Agg('Vec', [])))))
        return outs

    def p_Error__as_db_error(s, M, st, th, ci, a):
        # a tokio_postgres::Error either carries the server's ErrorResponse or is a transport-level failure: both are possible
        outs = []
        for db in (True, False):
            st2 = st.clone(); st2.logev('env', 'as_db_error', db)
            outs.append(('ret', st2, some(Ref(st2.alloc(Agg('DbError', [])))) if db else NONE))
        return outs
    def p_Error__code(s, M, st, th, ci, a): return s.ret(st, NONE)
    def p_Error__is_closed(s, M, st, th, ci, a):
        return [('ret', st.clone(), True), ('ret', st.clone(), False)]
    def d_DbError(s, M, st, th, v): return True

    def p_JoinHandle__abort(s, M, st, th, ci, a):
        st.logev('client', 'conn_task_abort'); return s.ret(st, UNIT)

    def d_PgFut(s, M, st, th, v): return True
    def d_PgError(s, M, st, th, v): return True
    def d_Statement(s, M, st, th, v): return True
    def d_PgClient(s, M, st, th, v): return True
    def d_TypeList(s, M, st, th, v): return True
    def d_RecycleError(s, M, st, th, v): return True
    def d_ConnTask(s, M, st, th, v): return True

    def convert_into(s, M, st, th, ci, v):
        if isinstance(v, Agg) and v.ty == 'PgError': return s.ret(st, mk_enum('RecycleError', 'Backend', [v]))
        if isinstance(v, Opaque) and v.tag.startswith('str:'): return s.ret(st, mk_enum('Cow', 'Borrowed', [v]))
        if isinstance(v, Agg) and v.ty in ('String', 'str'): return s.ret(st, mk_enum('Cow', 'Owned', [v]))
        return super().convert_into(M, st, th, ci, v)

    def convert_err(s, M, st, th, ci, e): return [('ret', st, err(e))]

    def t_ToOwned__to_owned(s, M, st, th, ci, a):
        v = s.tgt(M, st, a[0]) if isinstance(a[0], Ref) else a[0]
        if isinstance(v, Agg) and v.ty in ('TypeList', 'Statement'): return s.ret(st, v)
        try: return s.ret(st, S(sterm(M, st, v)))
        except InternalError: return None

    # ---- RwLock<HashMap<StatementCacheKey, Statement>>
    def p_RwLock__new(s, M, st, th, ci, a): return s.ret(st, Agg('RwLock', [a[0], False]))
    def _rw(s, M, st, th, a):
        m = M.deref(st, a[0])
        g = Agg('RwGuard', [a[0]])
        return s.ret(st, err(Agg('PoisonError', [g])) if m.f[1] is True else ok(g))
    def p_RwLock__read(s, M, st, th, ci, a): return s._rw(M, st, th, a)
    def p_RwLock__write(s, M, st, th, ci, a): return s._rw(M, st, th, a)
    def d_RwGuard(s, M, st, th, v):
        if th.panicking:
            m = M.deref(st, v.f[0]); M.write(st, v.f[0], m.with_field(1, True))
        return True
    def d_RwLock(s, M, st, th, v): return None
    def _deref(s, M, st, th, ci, a):
        v = s.tgt(M, st, a[0])
        if isinstance(v, Agg) and v.ty == 'RwGuard': return s.ret(st, v.f[0].field(0))
        if isinstance(v, Agg) and v.ty == 'ClientWrapper': return None
        if isinstance(v, Agg) and v.ty == 'Cow':
            pv = payload(v)
            return s.ret(st, pv if isinstance(pv, Ref) else a[0].field((v.variant, 0)))
        return super()._deref(M, st, th, ci, a)

    def p_HashMap__new(s, M, st, th, ci, a): return s.ret(st, Agg('HashMap', [()]))
    def key_eq(s, M, st, k1, k2):
        """StatementCacheKey equality is whatever the crate's `PartialEq::eq` for the key type computes: its MIR (derived or hand-written)
        is executed on a scratch thread -> list of (state, z3 Bool / bool).  Hashing is not modelled: the map is an association list, so
        a Hash that is coarser than Eq is harmless here as it is in std; a Hash finer than Eq is outside the claim."""
        from .core import Thread
        fn = [n for n in M.fns if n.endswith('::eq') and M.fns[n].params and 'StatementCacheKey' in M.fns[n].params[0][1]]
        if len(fn) != 1: raise Unmodelled(f'PartialEq::eq of StatementCacheKey: {len(fn)} bodies')
        st = st.clone()
        r1 = st.alloc(k1); r2 = st.alloc(k2)
        th = Thread('keyeq', 'async'); st.threads['keyeq'] = th; th.result = None
        M.push_mir(st, th, fn[0], [Ref(r1), Ref(r2)])
        saved = M.task_mode; M.task_mode = True; outs = []
        try:
            for st2 in M.run(st, 'keyeq'):
                r = st2.threads['keyeq'].result
                if not r or r[0] != 'ok': raise Unmodelled('PartialEq::eq of StatementCacheKey panicked')
                del st2.threads['keyeq']; st2.heap.pop(r1, None); st2.heap.pop(r2, None)
                outs.append((st2, r[1]))
        finally:
            M.task_mode = saved
        return outs
    def _lookup(s, M, st, mref, key):
        """-> list of (state, index or None) forking on symbolic key equality"""
        res = []; work = [(st, 0)]
        while work:
            x, i = work.pop()
            ent = M.deref(x, mref).f[0]
            if i >= len(ent): res.append((x, None)); continue
            for x1, e in s.key_eq(M, x, ent[i][0], key):
                for y, eq in M.fork_on(x1, e):
                    if eq: res.append((y, i))
                    else: work.append((y, i + 1))
        return res

    # what the key's eq looks at: Cow<str> compares as text, Cow<[Type]> element-wise, a Type by identity (its OID is an injective
    # function of the identity for the built-in types used here)
    OIDS = {'INT4': 23, 'TEXT': 25}
    def t_PartialEq__eq(s, M, st, th, ci, a):
        def un(v):
            for _ in range(6):
                if isinstance(v, Ref): v = M.deref(st, v); continue
                break
            return v
        x, y = un(a[0]), un(a[1])
        if isinstance(x, Agg) and isinstance(y, Agg) and x.ty == 'Cow' and y.ty == 'Cow': x, y = un(payload(x)), un(payload(y))
        if isinstance(x, Agg) and isinstance(y, Agg) and x.ty in ('TypeList', 'Vec', 'array') and y.ty in ('TypeList', 'Vec', 'array'):
            return s.ret(st, s.types_of(M, st, x) == s.types_of(M, st, y))
        if isinstance(x, Agg) and isinstance(y, Agg) and x.ty == 'Type' and y.ty == 'Type': return s.ret(st, x.f[0].tag == y.f[0].tag)
        try:
            return s.ret(st, simp(sterm(M, st, x) == sterm(M, st, y)))
        except InternalError:
            return super().t_PartialEq__eq(M, st, th, ci, a)
    def p_Type__oid(s, M, st, th, ci, a):
        v = M.deref(st, a[0]) if isinstance(a[0], Ref) else a[0]
        return s.ret(st, I(s.OIDS[v.f[0].tag], 32))
    def p_HashMap__get(s, M, st, th, ci, a):
        key = M.deref(st, a[1]) if isinstance(a[1], Ref) else a[1]
        return [('ret', x, NONE if i is None else some(a[0].field(0)) if False else (NONE if i is None else some(Ref(x.alloc(M.deref(x, a[0]).f[0][i][1]))))) for x, i in s._lookup(M, st, a[0], key)]
    def p_HashMap__insert(s, M, st, th, ci, a):
        outs = []
        for x, i in s._lookup(M, st, a[0], a[1]):
            ent = list(M.deref(x, a[0]).f[0])
            if i is None:
                ent.append((a[1], a[2])); M.write(x, a[0], Agg('HashMap', [tuple(ent)])); outs.append(('ret', x, NONE))
            else:
                old = ent[i][1]; ent[i] = (ent[i][0], a[2]); M.write(x, a[0], Agg('HashMap', [tuple(ent)])); outs.append(('ret', x, some(old)))
        return outs
    def p_HashMap__remove(s, M, st, th, ci, a):
        key = M.deref(st, a[1]) if isinstance(a[1], Ref) else a[1]; outs = []
        for x, i in s._lookup(M, st, a[0], key):
            if i is None: outs.append(('ret', x, NONE)); continue
            ent = list(M.deref(x, a[0]).f[0]); old = ent.pop(i); M.write(x, a[0], Agg('HashMap', [tuple(ent)])); outs.append(('ret', x, some(old[1])))
        return outs
    def p_HashMap__clear(s, M, st, th, ci, a):
        M.write(st, a[0], Agg('HashMap', [()])); return s.ret(st, UNIT)
    def p_HashMap__len(s, M, st, th, ci, a): return s.ret(st, I(len(M.deref(st, a[0]).f[0])))
    def d_HashMap(s, M, st, th, v): return True
    def d_StatementCacheKey(s, M, st, th, v): return True
    def d_Cow(s, M, st, th, v): return True

    # Manager.connect (Box<dyn Connect>)
    def t_Connect__connect(s, M, st, th, ci, a):
        n = st.gget('n_client', 0) + 1; st.gset('n_client', n)
        return s.ret(st, Agg('ConnectFut', [I(n)]))
    def poll_ConnectFut(s, M, st, th, fut, fref):
        n = fut.f[0].v
        return s.ret(st, ready(ok(Agg('tuple', [Agg('PgClient', [Opaque(f'client:{n}'), False]), Agg('ConnTask', [I(n)])]))))
    def d_ConnectFut(s, M, st, th, v): return True
    def d_Manager(s, M, st, th, v): return None


def stmts_of(sql):
    return [x.strip() for x in re.sub(r'\s+', ' ', sql).split(';') if x.strip()]


def run_c16(prog, job):
    nobl = 0; ndis = 0; npaths = 0; vios = []; samples = []
    W = World(prog, PgMgrEnv()); M = W.M; E = W.env
    M.enums.setdefault('Cow', ['Borrowed', 'Owned']); M.enums.setdefault('RecycleError', ['Message', 'Backend'])
    LIB = 'postgres/src/lib.rs'
    structs = prog.structs

    def oblige(txt, st, cond, detail=None):
        nonlocal nobl, ndis
        nobl += 1
        holds = cond if isinstance(cond, bool) else M.must(st, cond)
        if holds: ndis += 1; return
        m = M.model(st, [] if isinstance(cond, bool) else [z3.Not(z(cond))])
        vios.append({'property': 'C16', 'what': txt, 'detail': detail, 'model': {str(d): str(m[d]) for d in m.decls()} if m is not None else {},
                     'kind': 'pgmanager', 'crates': job['crates'], 'trace': [list(map(str, e)) for e in st.log if e[0] in ('act', 'env', 'client')]})

    def mk_struct(path, name, **kw): return Agg(name, [kw[f] for f in structs[(path, name)]])

    def drive(st, fut_val, tid='A', cancel_ok=False):
        """poll a future to completion, taking every scripted outcome; yields (state, result value | 'panic')"""
        nonlocal npaths
        fr = st.alloc(fut_val); work = [st]; res = []
        for _ in range(4):
            nxt = []
            for x in work:
                for y, r in W.dispatch(x, tid, '<F as Future>::poll', [Agg('Pin', [Ref(fr)]), UNIT]):
                    npaths += 1
                    if r[0] != 'ok': res.append((y, 'panic')); continue
                    if r[1].variant == 'Pending': nxt.append(y)
                    else:
                        y.heap.pop(fr, None); res.append((y, payload(r[1])))
            work = nxt
            if not work: break
        return res

    # ---------------------------------------------------------------- (a) recycle: every method x closed? x query outcome
    recycle_fn = W.find('::recycle', LIB)
    custom = z3.String('custom_sql')
    for meth, exp in (('Fast', []), ('Verified', ['']), ('Clean', 'clean'), ('Custom', [custom])):
        for closed in (False, True):
            st = State(); st.log = (('act', 'recycle', meth, 'closed' if closed else 'open'),)
            rm = mk_enum('RecyclingMethod', meth, [S(custom)] if meth == 'Custom' else [])
            cache = st.alloc(Agg('ArcInner', [Agg('StatementCache', []), I(1), I(0)]))
            mgr = mk_struct(LIB, 'Manager', config=mk_struct('postgres/src/config.rs', 'ManagerConfig', recycling_method=rm), pg_config=Agg('PgConfig', {}),
                            connect=Agg('Box', [Ref(st.alloc(Agg('Connector', [])))]), statement_caches=mk_struct(LIB, 'StatementCaches', caches=Agg('Mutex', [Agg('Vec', []), Opaque('unlocked'), False])))
            cw = mk_struct(LIB, 'ClientWrapper', client=Agg('PgClient', [Opaque('client:1'), closed]), conn_task=Agg('ConnTask', [I(1)]), statement_cache=Agg('Arc', [Ref(cache)]))
            mroot = st.alloc(mgr); croot = st.alloc(cw); met = st.alloc(Agg('Metrics', [Agg('Instant', [I(0)]), NONE, I(0)]))
            for st1, r in W.call(st, 'A', recycle_fn, [Ref(mroot), Ref(croot), Ref(met)]):
                for st2, res in drive(st1, r[1]):
                    qs = [q for (c, q) in st2.gget('queries', ())]
                    outcome = [e[2] for e in st2.log if e[0] == 'env' and e[1] == 'simple_query']
                    if res == 'panic': oblige(f'recycle({meth}) panics', st2, False); continue
                    if closed:
                        oblige('a closed client is rejected by recycle()', st2, res.variant == 'Err')
                        oblige('no query is sent on a closed client', st2, len(qs) == 0)
                        continue
                    if exp == 'clean':
                        lit = qs[0].as_string() if len(qs) == 1 and z3.is_string_value(qs[0]) else None
                        oblige('RecyclingMethod::Clean issues exactly the documented clean-up script', st2, lit is not None and stmts_of(lit) == CLEAN, detail=repr(qs)[:300])
                    else:
                        oblige(f'RecyclingMethod::{meth} issues exactly its documented check', st2,
                               len(qs) == len(exp) and b_and(*[simp(q == (z3.StringVal(e) if isinstance(e, str) else e)) for q, e in zip(qs, exp)]) if len(qs) == len(exp) else False, detail=repr(qs)[:200])
                    failed = 'err' in outcome
                    oblige('recycle() fails exactly when its check fails', st2, (res.variant == 'Err') == failed)
            if len(samples) < 3: samples.append({'recycle': meth, 'client': 'closed' if closed else 'open'})

    # ---------------------------------------------------------------- (b) statement cache: <= 4 operations over keys that differ in text or only in types
    T1 = Agg('Type', [Opaque('INT4')]); T2 = Agg('Type', [Opaque('TEXT')])
    qa, qb = z3.String('query_a'), z3.String('query_b')
    KEYS = {'a': (qa, ()), 'a1': (qa, (T1,)), 'a2': (qa, (T2,)), 'b': (qb, ())}
    new_cache = W.find('::new', LIB, '310') if False else [n for n in M.fns if n.endswith('::new') and LIB in n and M.fns[n].ret.endswith('StatementCache')][0]
    F = {k: [n for n in M.fns if n.endswith('::' + k) and LIB in n and M.fns[n].params and 'StatementCache' in M.fns[n].params[0][1] and 'StatementCaches' not in M.fns[n].params[0][1]][0]
         for k in ('prepare_typed', 'remove', 'clear', 'size')}

    def cache_seq(ops, script=None):
        st = State(); st.assume(qa != qb); st.log = (('act', 'cache', repr(ops)),)
        if script: st.gset('reply_script', script)
        client = st.alloc(Agg('PgClient', [Opaque('client:1'), False]))
        states = []
        for st1, r in W.call(st, 'A', new_cache, []):
            croot = st1.alloc(r[1]); st1.gset('ref', {}); states.append((st1, croot))
        for op in ops:
            nxt = []
            for x, croot in states:
                ref = dict(x.gget('ref'))
                if op[0] == 'prepare':
                    q, tys = KEYS[op[1]]; n0 = len(x.gget('prepares', ()))
                    qroot = x.alloc(S(q)); troot = x.alloc(Agg('TypeList', list(tys)))
                    for x1, r in W.call(x, 'A', F['prepare_typed'], [Ref(croot), Ref(client), Ref(qroot), Ref(troot)]):
                        for x2, res in drive(x1, r[1]):
                            if res == 'panic': oblige('prepare_typed panics', x2, False); continue
                            ref2 = dict(x2.gget('ref')); newp = x2.gget('prepares', ())[n0:]
                            if op[1] in ref2:
                                oblige('a cache hit causes no server round trip', x2, len(newp) == 0)
                                oblige('a cache hit returns the statement cached for exactly this query text and parameter types', x2, res.variant == 'Ok' and payload(res).f[0].tag == ref2[op[1]])
                            else:
                                oblige('a cache miss prepares exactly once on this connection with the same text and types', x2,
                                       len(newp) == 1 and newp[0][2] == tuple(t.f[0].tag for t in tys) and simp(newp[0][1] == q), detail=repr(newp)[:200])
                                if res.variant == 'Ok': ref2[op[1]] = payload(res).f[0].tag
                            x2.gset('ref', ref2); nxt.append((x2, croot))
                elif op[0] == 'remove':
                    q, tys = KEYS[op[1]]; qroot = x.alloc(S(q)); troot = x.alloc(Agg('TypeList', list(tys)))
                    for x1, r in W.call(x, 'A', F['remove'], [Ref(croot), Ref(qroot), Ref(troot)]):
                        if r[0] != 'ok': oblige('remove panics', x1, False); continue
                        had = op[1] in ref
                        oblige('remove() returns the cached statement iff the key was cached', x1, (r[1].variant == 'Some') == had and (not had or payload(r[1]).f[0].tag == ref[op[1]]))
                        ref.pop(op[1], None); x1.gset('ref', ref); nxt.append((x1, croot))
                elif op[0] == 'clear':
                    for x1, r in W.call(x, 'A', F['clear'], [Ref(croot)]):
                        x1.gset('ref', {}); nxt.append((x1, croot))
            states = nxt
            for x, croot in states:
                xs = x.clone()
                for x1, r in W.call(xs, 'A', F['size'], [Ref(croot)]):
                    oblige('size() equals the number of cached keys', x1, r[0] == 'ok' and simp(z(r[1]) == z(I(len(x.gget('ref'))))), detail=f'{r[1]!r} vs {len(x.gget("ref"))} after {ops}')
        return states

    opsets = [('prepare', k) for k in KEYS] + [('remove', k) for k in ('a', 'a1')] + [('clear',)]
    depth = 3 if job['tier'] == 'quick' else 4
    seqs = [s_ for n in range(1, depth + 1) for s_ in itertools.product(opsets, repeat=n)]
    shard, nsh = job['cfg'].get('shard', (0, 1))
    for i, ops in enumerate(seqs):
        if i % nsh != shard: continue
        if ops[0][0] != 'prepare': continue
        cache_seq(ops)
    if shard == 0: samples.append({'cache_ops': [list(o) for o in seqs[min(40, len(seqs) - 1)]]})

    # overlapping prepares of the same key (two callers both miss before either reply arrives)
    if shard == 0:
        for key2 in ('a', 'a1'):
            st = State(); st.assume(qa != qb); st.log = (('act', 'overlapping prepares', 'a', key2),)
            client = st.alloc(Agg('PgClient', [Opaque('client:1'), False]))
            for st1, r in W.call(st, 'A', new_cache, []):
                croot = st1.alloc(r[1])
                futs = []
                x = st1
                for k in ('a', key2):
                    q, tys = KEYS[k]; qroot = x.alloc(S(q)); troot = x.alloc(Agg('TypeList', list(tys)))
                    outs = W.call(x, 'A', F['prepare_typed'], [Ref(croot), Ref(client), Ref(qroot), Ref(troot)])
                    x, r2 = outs[0]; fr = x.alloc(r2[1]); futs.append(fr)
                x.gset('reply_script', {'prepare': ['pending', 'ok']})
                cur = [x]
                for rnd in range(2):
                    for fr in futs:
                        nxt = []
                        for y in cur:
                            if fr not in y.heap: nxt.append(y); continue
                            for y2, r3 in W.dispatch(y, 'A', '<F as Future>::poll', [Agg('Pin', [Ref(fr)]), UNIT]):
                                npaths += 1
                                if r3[0] == 'ok' and r3[1].variant == 'Ready': y2.heap.pop(fr, None)
                                nxt.append(y2)
                        cur = nxt
                for y in cur:
                    for y1, r4 in W.call(y.clone(), 'A', F['size'], [Ref(croot)]):
                        nkeys = 1 if key2 == 'a' else 2
                        oblige('size() equals the number of cached keys after overlapping prepares', y1, r4[0] == 'ok' and simp(z(r4[1]) == z(I(nkeys))), detail=f'size {r4[1]!r}, {nkeys} key(s)')

    # ---------------------------------------------------------------- (c) registry: attach on create, detach removes exactly that cache, dropped clients are skipped
    if shard == 0:
        create_fn = W.find('::create', LIB); detach_fn = [n for n in M.fns if n.endswith('::detach') and LIB in n and len(M.fns[n].params) == 2 and 'Manager' in M.fns[n].params[0][1]][0]
        caches_clear = [n for n in M.fns if n.endswith('::clear') and LIB in n and 'StatementCaches' in M.fns[n].params[0][1]][0]
        caches_remove = [n for n in M.fns if n.endswith('::remove') and LIB in n and 'StatementCaches' in M.fns[n].params[0][1]][0]
        for fate, with_shared in [(f_, sh_) for f_ in itertools.product(('pooled', 'detached', 'dropped'), repeat=3 if job['tier'] == 'thorough' else 2) for sh_ in (False, True)]:
            st = State(); st.log = (('act', 'registry', repr(fate)),)
            mgr = mk_struct(LIB, 'Manager', config=mk_struct('postgres/src/config.rs', 'ManagerConfig', recycling_method=mk_enum('RecyclingMethod', 'Fast')), pg_config=Agg('PgConfig', {}),
                            connect=Agg('Box', [Ref(st.alloc(Agg('Connector', [])))]), statement_caches=mk_struct(LIB, 'StatementCaches', caches=Agg('Mutex', [Agg('Vec', []), Opaque('unlocked'), False])))
            mroot = st.alloc(mgr); cur = [(st, [])]
            for _ in fate:
                nxt = []
                for x, ws in cur:
                    for x1, r in W.call(x, 'A', create_fn, [Ref(mroot)]):
                        for x2, res in drive(x1, r[1]):
                            if res == 'panic' or res.variant != 'Ok': oblige('Manager::create failed in the registry scenario', x2, False); continue
                            nxt.append((x2, ws + [x2.alloc(payload(res))]))
                cur = nxt
            for x, ws in cur:
                # give every client a cached statement (directly in the model map) so that clear() is observable
                for i, w in enumerate(ws):
                    cw = x.heap[w]; arc = [v for v in cw.f.values() if isinstance(v, Agg) and v.ty == 'Arc'][0]
                    inner = M.deref(x, arc.f[0]); cache = inner.f[0]
                    mp = [k for k, v in cache.f.items() if isinstance(v, Agg) and v.ty == 'RwLock'][0]
                    key = Agg('StatementCacheKey', [mk_enum('Cow', 'Owned', [S(z3.StringVal(f'q{i}'))]), mk_enum('Cow', 'Owned', [Agg('TypeList', [])])])
                    skey = Agg('StatementCacheKey', [mk_enum('Cow', 'Owned', [S(z3.StringVal('shared'))]), mk_enum('Cow', 'Owned', [Agg('TypeList', [])])])
                    ents = ((key, Agg('Statement', [Opaque(f'stmt:x{i}'), Opaque(f'client:{i + 1}')])),) + \
                           (((skey, Agg('Statement', [Opaque(f'stmt:s{i}'), Opaque(f'client:{i + 1}')])),) if with_shared else ())
                    cache2 = cache.with_field(mp, Agg('RwLock', [Agg('HashMap', [ents]), False]))
                    M.write(x, arc.f[0], inner.with_field(0, cache2))
                arcs = []
                for i, (w, f) in enumerate(zip(ws, fate)):
                    cw = x.heap[w]; arcs.append([v for v in cw.f.values() if isinstance(v, Agg) and v.ty == 'Arc'][0].f[0])
                states = [x]
                for i, (w, f) in enumerate(zip(ws, fate)):
                    nxt = []
                    for y in states:
                        if f == 'detached':
                            for y1, r in W.call(y, 'A', detach_fn, [Ref(mroot), Ref(w)]): nxt.append(y1)
                        elif f == 'dropped':
                            # discarded by the pool: detach (C09) and then the client is dropped
                            for y1, r in W.call(y, 'A', detach_fn, [Ref(mroot), Ref(w)]):
                                v = y1.heap.pop(w)
                                for y2, _ in W.drop(y1, 'A', [v]): nxt.append(y2)
                        else: nxt.append(y)
                    states = nxt
                for y in states:
                    reg = None
                    def walk(v):
                        nonlocal reg
                        if isinstance(v, Agg):
                            if v.ty == 'Mutex' and isinstance(v.f[0], Agg) and v.f[0].ty == 'Vec': reg = v.f[0]
                            for q_ in v.f.values(): walk(q_)
                    walk(y.heap[mroot])
                    live = [a for a, f in zip(arcs, fate) if f == 'pooled']
                    got = [w_.f[0] for w_ in reg.items()]
                    oblige('the registry addresses exactly the caches of the clients the pool still owns', y, sorted(map(repr, got)) == sorted(map(repr, live)), detail=f'{fate}: {got} vs {live}')
                    if with_shared:
                        # statement_caches.remove(query, types): every client the pool owns forgets that statement, and only that one
                        y0 = y.clone(); qroot = y0.alloc(S(z3.StringVal('shared'))); troot = y0.alloc(Agg('TypeList', []))
                        sc_ref = Ref(mroot).field(*[k for k, v in y0.heap[mroot].f.items() if isinstance(v, Agg) and v.ty == 'StatementCaches'])
                        for y1, r in W.call(y0, 'A', caches_remove, [sc_ref, Ref(qroot), Ref(troot)]):
                            npaths += 1
                            for i, (a, f) in enumerate(zip(arcs, fate)):
                                if f == 'dropped': continue
                                inner = M.deref(y1, a)
                                if inner.f[0] is UNINIT: continue
                                cache = inner.f[0]; mp = [v for v in cache.f.values() if isinstance(v, Agg) and v.ty == 'RwLock'][0]
                                keys = [repr(k_) for k_, _ in mp.f[0].f[0]]
                                has_shared = any('shared' in k_ for k_ in keys); has_own = any(f'q{i}' in k_ for k_ in keys)
                                if f == 'pooled':
                                    oblige('statement_caches.remove() removes the statement from every client the pool owns', y1, not has_shared, detail=f'{fate}: client {i} still caches it')
                                    oblige('statement_caches.remove() leaves other statements alone', y1, has_own)
                                else: oblige('statement_caches.remove() does not touch a client that was taken / detached', y1, has_shared and has_own)
                        continue
                    for y1, r in W.call(y.clone(), 'A', caches_clear, [Ref(mroot).field(*[k for k, v in y.heap[mroot].f.items() if isinstance(v, Agg) and v.ty == 'StatementCaches'])]):
                        npaths += 1
                        for a, f in zip(arcs, fate):
                            if f == 'dropped': continue
                            inner = M.deref(y1, a)
                            if inner.f[0] is UNINIT: continue
                            cache = inner.f[0]; mp = [v for v in cache.f.values() if isinstance(v, Agg) and v.ty == 'RwLock'][0]
                            n = len(mp.f[0].f[0])
                            if f == 'pooled': oblige('statement_caches.clear() reaches every client the pool owns', y1, n == 0)
                            else: oblige('statement_caches.clear() does not touch a client that was taken / detached', y1, n == 1)
            if len(samples) < 6: samples.append({'registry': list(fate)})
    S_ = M.stats
    return {'states': npaths, 'transitions': npaths, 'obligations': nobl, 'discharged': ndis, 'violations': vios, 'samples': samples, 'complete': True,
            'queries': S_.queries, 'sat': S_.sat, 'unsat': S_.unsat, 'solver_s': round(S_.solver_s, 3), 'cache_hits': S_.cache_hits, 'blocks': S_.blocks,
            'functions': dict(S_.fns), 'models': dict(S_.models), 'dump_s': prog.dump_s,
            'bounds': {'cache_operation_sequences': f'all sequences of <= {depth} operations over 4 keys (2 texts x types {{[], [INT4], [TEXT]}})', 'registry': 'every fate (pooled / detached / dropped) of 2-3 clients',
                       'recycle': 'every method x open/closed x ok/err/pending reply'},
            'summary': f'{npaths} paths, {ndis}/{nobl} obligations discharged, {len(vios)} violated'}
