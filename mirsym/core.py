"""mirsym core: small-step symbolic machine over parsed MIR.

State = heap (root id -> value) + threads (explicit frame stacks) + path condition + ghost + log.
Values are immutable; stores rebuild the spine.  Scalars are concrete (class I / bool) whenever
possible and z3 terms otherwise.  Branches on symbolic scalars fork the state when z3 finds both
sides feasible under the path condition."""
import re, time, itertools, os
import z3
from .mir import Unmodelled, blocks_of, parse_place, split_top

# ------------------------------------------------------------------ scalars
class I:
    """concrete machine integer (unsigned representation, explicit width)"""
    __slots__ = ('v', 'w')

    def __init__(s, v, w=64):
        s.w = w; s.v = v & ((1 << w) - 1)

    def __repr__(s): return f'{s.v}u{s.w}' if s.w != 64 else str(s.v)
    def __eq__(s, o): return isinstance(o, I) and o.v == s.v and o.w == s.w
    def __hash__(s): return hash((s.v, s.w))

    def signed(s): return s.v - (1 << s.w) if s.v >> (s.w - 1) else s.v


def is_sym(x): return isinstance(x, z3.ExprRef)
def is_int(x): return isinstance(x, I) or (isinstance(x, z3.ExprRef) and z3.is_bv(x))
def is_boolv(x): return isinstance(x, bool) or (isinstance(x, z3.ExprRef) and z3.is_bool(x))
def width(x): return x.w if isinstance(x, I) else x.size()
def z(x):
    if isinstance(x, I): return z3.BitVecVal(x.v, x.w)
    if isinstance(x, bool): return z3.BoolVal(x)
    return x


def simp(e):
    """z3 term -> concrete if it simplifies to a literal"""
    if not is_sym(e): return e
    e = z3.simplify(e)
    if z3.is_bv_value(e): return I(e.as_long(), e.size())
    if z3.is_true(e): return True
    if z3.is_false(e): return False
    return e


def b_not(a): return (not a) if isinstance(a, bool) else simp(z3.Not(a))
def b_and(*xs):
    sy = []
    for x in xs:
        if x is False: return False
        if x is True: continue
        sy.append(x)
    if not sy: return True
    return simp(z3.And(*sy)) if len(sy) > 1 else sy[0]
def b_or(*xs):
    sy = []
    for x in xs:
        if x is True: return True
        if x is False: continue
        sy.append(x)
    if not sy: return False
    return simp(z3.Or(*sy)) if len(sy) > 1 else sy[0]


def is_signed_ty(ty): return ty is not None and re.match(r'^i(8|16|32|64|128|size)$', ty.strip()) is not None


def binop(op, a, b, signed=False):
    if isinstance(a, bool) or isinstance(b, bool) or (is_sym(a) and z3.is_bool(a)) or (is_sym(b) and z3.is_bool(b)):
        if op == 'Eq': return simp(z(a) == z(b)) if (is_sym(a) or is_sym(b)) else a == b
        if op == 'Ne': return simp(z(a) != z(b)) if (is_sym(a) or is_sym(b)) else a != b
        if op == 'BitAnd': return b_and(a, b)
        if op == 'BitOr': return b_or(a, b)
        if op == 'BitXor': return simp(z3.Xor(z(a), z(b))) if (is_sym(a) or is_sym(b)) else (a != b)
        raise Unmodelled(f'bool binop {op}')
    if not (is_int(a) and is_int(b)): raise Unmodelled(f'binop {op} on {a!r}, {b!r}')
    w = width(a)
    if op in ('Shl', 'Shr') and width(b) != w:
        b = I(b.v, w) if isinstance(b, I) else (z3.ZeroExt(w - width(b), b) if width(b) < w else z3.Extract(w - 1, 0, b))
    if width(b) != w: raise Unmodelled(f'binop {op} width mismatch {a!r} {b!r}')
    M = (1 << w)
    if isinstance(a, I) and isinstance(b, I):
        x, y = a.v, b.v; sx, sy = (a.signed(), b.signed()) if signed else (x, y)
        if op in ('Add', 'AddUnchecked'): return I(x + y, w)
        if op in ('Sub', 'SubUnchecked'): return I(x - y, w)
        if op in ('Mul', 'MulUnchecked'): return I(x * y, w)
        if op == 'AddWithOverflow': return ('ovf', I(x + y, w), (not -(M >> 1) <= sx + sy < (M >> 1)) if signed else (x + y >= M))
        if op == 'SubWithOverflow': return ('ovf', I(x - y, w), (not -(M >> 1) <= sx - sy < (M >> 1)) if signed else (x < y))
        if op == 'MulWithOverflow': return ('ovf', I(x * y, w), (not -(M >> 1) <= sx * sy < (M >> 1)) if signed else (x * y >= M))
        if op == 'Lt': return sx < sy
        if op == 'Le': return sx <= sy
        if op == 'Gt': return sx > sy
        if op == 'Ge': return sx >= sy
        if op == 'Eq': return x == y
        if op == 'Ne': return x != y
        if op == 'BitAnd': return I(x & y, w)
        if op == 'BitOr': return I(x | y, w)
        if op == 'BitXor': return I(x ^ y, w)
        if op == 'Shl': return I(x << (y % w), w)
        if op == 'Shr': return I((sx >> (y % w)) if signed else (x >> (y % w)), w)
        if op == 'Div':
            if y == 0: raise Unmodelled('div by zero reached')
            return I(int(sx / sy) if signed else x // y, w)
        if op == 'Rem':
            if y == 0: raise Unmodelled('rem by zero reached')
            return I((abs(sx) % abs(sy)) * (1 if sx >= 0 else -1) if signed else x % y, w)
        raise Unmodelled('binop ' + op)
    za, zb = z(a), z(b)
    if op in ('Add', 'AddUnchecked'): return simp(za + zb)
    if op in ('Sub', 'SubUnchecked'): return simp(za - zb)
    if op in ('Mul', 'MulUnchecked'): return simp(za * zb)
    if op == 'AddWithOverflow':
        ov = z3.Not(z3.BVAddNoOverflow(za, zb, signed)) if not signed else z3.Or(z3.Not(z3.BVAddNoOverflow(za, zb, True)), z3.Not(z3.BVAddNoUnderflow(za, zb)))
        return ('ovf', simp(za + zb), simp(ov))
    if op == 'SubWithOverflow':
        ov = z3.ULT(za, zb) if not signed else z3.Or(z3.Not(z3.BVSubNoOverflow(za, zb)), z3.Not(z3.BVSubNoUnderflow(za, zb, True)))
        return ('ovf', simp(za - zb), simp(ov))
    if op == 'MulWithOverflow':
        ov = z3.Not(z3.BVMulNoOverflow(za, zb, signed)) if not signed else z3.Or(z3.Not(z3.BVMulNoOverflow(za, zb, True)), z3.Not(z3.BVMulNoUnderflow(za, zb)))
        return ('ovf', simp(za * zb), simp(ov))
    if op == 'Lt': return simp(za < zb if signed else z3.ULT(za, zb))
    if op == 'Le': return simp(za <= zb if signed else z3.ULE(za, zb))
    if op == 'Gt': return simp(za > zb if signed else z3.UGT(za, zb))
    if op == 'Ge': return simp(za >= zb if signed else z3.UGE(za, zb))
    if op == 'Eq': return simp(za == zb)
    if op == 'Ne': return simp(za != zb)
    if op == 'BitAnd': return simp(za & zb)
    if op == 'BitOr': return simp(za | zb)
    if op == 'BitXor': return simp(za ^ zb)
    if op == 'Shl': return simp(za << zb)
    if op == 'Shr': return simp(za >> zb if signed else z3.LShR(za, zb))
    if op == 'Div': return simp(za / zb if signed else z3.UDiv(za, zb))
    if op == 'Rem': return simp(z3.SRem(za, zb) if signed else z3.URem(za, zb))
    raise Unmodelled('binop ' + op)


def int_cast(v, ty, src_signed):
    m = re.match(r'^(u|i)(8|16|32|64|128|size)$', ty.strip())
    if not m: raise Unmodelled('int cast to ' + ty)
    w = 64 if m.group(2) == 'size' else int(m.group(2))
    if isinstance(v, bool): return I(int(v), w)
    if is_sym(v) and z3.is_bool(v): return simp(z3.If(v, z3.BitVecVal(1, w), z3.BitVecVal(0, w)))
    if isinstance(v, I): return I(v.signed() if src_signed else v.v, w)
    sw = v.size()
    if sw == w: return v
    if sw > w: return simp(z3.Extract(w - 1, 0, v))
    return simp(z3.SignExt(w - sw, v) if src_signed else z3.ZeroExt(w - sw, v))


# ------------------------------------------------------------------ structured values
class Ref:
    __slots__ = ('root', 'path')

    def __init__(s, root, path=()):
        s.root = root; s.path = tuple(path)

    def __repr__(s): return f'&{s.root}{list(s.path) if s.path else ""}'
    def __eq__(s, o): return isinstance(o, Ref) and o.root == s.root and o.path == s.path
    def __hash__(s): return hash((s.root, s.path))
    def field(s, *p): return Ref(s.root, s.path + tuple(p))


class Agg:
    """struct / tuple / enum variant / closure / coroutine / model object.  Treated as immutable.
    f: dict key -> value, key = int (field index) or (variantname, int).
    variant: enum variant name | body fn name (closures, coroutines);  discr: coroutine state"""
    __slots__ = ('ty', 'f', 'variant', 'discr')

    def __init__(s, ty, fields=(), variant=None, discr=None):
        s.ty = ty
        s.f = dict(fields) if isinstance(fields, dict) else {i: v for i, v in enumerate(fields)}
        s.variant = variant; s.discr = discr

    def __repr__(s):
        v = f'::{s.variant}' if s.variant is not None and not s.ty.startswith('{') else ''
        d = f'@{s.discr}' if s.discr is not None else ''
        return f'{s.ty}{v}{d}{{{", ".join(f"{k}:{x!r}" for k, x in s.f.items())}}}'

    def with_field(s, k, v):
        f = dict(s.f); f[k] = v
        return Agg(s.ty, f, s.variant, s.discr)

    def with_discr(s, d): return Agg(s.ty, s.f, s.variant, d)
    def items(s): return [s.f[i] for i in range(len(s.f))]


class Opaque:
    """value with identity only (strings, constants, zero-sized markers)"""
    __slots__ = ('tag',)

    def __init__(s, tag): s.tag = tag
    def __repr__(s): return f'<{s.tag}>'
    def __eq__(s, o): return isinstance(o, Opaque) and o.tag == s.tag
    def __hash__(s): return hash(s.tag)


class FnItem:
    __slots__ = ('name',)

    def __init__(s, name): s.name = name
    def __repr__(s): return f'fn:{s.name[:60]}'


UNINIT = Opaque('uninit')
UNIT = Agg('()')


def mk_enum(ename, vname, fields=()):
    return Agg(ename, {(vname, i): v for i, v in enumerate(fields)}, variant=vname)


def some(v): return mk_enum('Option', 'Some', [v])
NONE = mk_enum('Option', 'None')
def ok(v): return mk_enum('Result', 'Ok', [v])
def err(v): return mk_enum('Result', 'Err', [v])
def ready(v): return mk_enum('Poll', 'Ready', [v])
PENDING = mk_enum('Poll', 'Pending')
def payload(v, i=0): return v.f[(v.variant, i)]


_th_cache = {}


def type_head(tytext):
    r = _th_cache.get(tytext)
    if r is None:
        r = _type_head(tytext); _th_cache[tytext] = r
    return r


def _type_head(tytext):
    """last path segment of a type with generic arguments removed: std::option::Option<T> -> Option"""
    t = tytext.strip()
    while t.startswith('&'):
        t = t[1:].strip()
        if t.startswith("'"): t = t.split(' ', 1)[1] if ' ' in t else t
        if t.startswith('mut '): t = t[4:]
    out = []; d = 0
    for i, c in enumerate(t):
        if c == '<': d += 1
        elif c == '>' and (i == 0 or t[i - 1] not in '-='): d -= 1
        elif d == 0: out.append(c)
    segs = [x for x in ''.join(out).split('::') if x.strip()]
    return segs[-1].strip() if segs else ''


# ------------------------------------------------------------------ exceptions used for control
class Violation(Exception):
    def __init__(s, kind, msg, st=None):
        super().__init__(f'{kind}: {msg}'); s.kind = kind; s.msg = msg; s.st = st


class InternalError(Exception):
    """interpreter invariant broken (read of uninit etc.): makes the run inconclusive"""


# ------------------------------------------------------------------ frames / threads / state
class Frame:
    __slots__ = ('kind', 'fn', 'loc', 'bb', 'k', 'data', 'skip')
    # kind 'mir': fn (Fn), loc (dict local->root), bb (current block; its terminator is "in progress" when a callee is above)
    # kind 'k'  : k = continuation name (method of Machine: k_<name>), data = tuple

    def __init__(s, kind, fn=None, loc=None, bb=None, k=None, data=None, skip=0):
        s.kind = kind; s.fn = fn; s.loc = loc; s.bb = bb; s.k = k; s.data = data
        s.skip = skip      # 1 = the block's statements were executed already; only its terminator is pending (thread was preempted / blocked before a call)

    def copy(s): return Frame(s.kind, s.fn, s.loc, s.bb, s.k, s.data, s.skip)


class Thread:
    __slots__ = ('name', 'stack', 'panicking', 'result', 'kind', 'at_point', 'local')

    def __init__(s, name, kind='async'):
        s.name = name; s.stack = []; s.panicking = False; s.result = None; s.kind = kind; s.at_point = None
        s.local = {}     # harness-owned per-thread slots (root ids of futures / objects), copied shallowly

    def copy(s):
        t = Thread(s.name, s.kind); t.stack = [f.copy() for f in s.stack]; t.panicking = s.panicking
        t.result = s.result; t.at_point = s.at_point; t.local = dict(s.local); return t


class State:
    __slots__ = ('heap', 'nroot', 'pc', 'threads', 'ghost', 'log', 'nsym', 'depth')

    def __init__(s):
        s.heap = {}; s.nroot = 0; s.pc = (); s.threads = {}; s.ghost = {}; s.log = (); s.nsym = 0; s.depth = 0

    def clone(s):
        t = State(); t.heap = dict(s.heap); t.nroot = s.nroot; t.pc = s.pc
        t.threads = {k: v.copy() for k, v in s.threads.items()}
        t.ghost = dict(s.ghost); t.log = s.log; t.nsym = s.nsym; t.depth = s.depth
        return t

    def alloc(s, v):
        s.nroot += 1; s.heap[s.nroot] = v; return s.nroot

    def assume(s, c):
        if c is True: return
        s.pc = s.pc + (z(c),)

    def fresh(s, name, w=64):
        s.nsym += 1
        return z3.BitVec(f'{name}!{s.nsym}', w)

    def fresh_bool(s, name):
        s.nsym += 1
        return z3.Bool(f'{name}!{s.nsym}')

    def gset(s, k, v): s.ghost[k] = v
    def gget(s, k, d=None): return s.ghost.get(k, d)
    def logev(s, *e): s.log = s.log + (e,)


class Stats:
    def __init__(s):
        s.queries = 0; s.sat = 0; s.unsat = 0; s.solver_s = 0.0; s.stmts = 0; s.blocks = 0; s.forks = 0
        s.cache_hits = 0; s.fns = {}; s.models = {}; s.recorded = []

    def merge(s, o):
        for k in ('queries', 'sat', 'unsat', 'stmts', 'blocks', 'forks', 'cache_hits'):
            setattr(s, k, getattr(s, k) + getattr(o, k))
        s.solver_s += o.solver_s
        s.fns.update(o.fns)
        for k, v in o.models.items(): s.models[k] = s.models.get(k, 0) + v
        s.recorded.extend(o.recorded[:max(0, 400 - len(s.recorded))])


# ------------------------------------------------------------------ the machine
class Machine:
    """Executes threads of a State.  `env` supplies library models:
         env.call(M, st, th, callee, args, ctx) -> None (no model) | list of outcomes
       an outcome is one of
         ('ret', st, value)            return value to the caller
         ('panic', st, msg)            start unwinding in the calling thread
         ('push', st)                  env pushed frames itself; keep running
         ('yield', st, name[, value])  preemption point reached (the value, default (), is delivered first)
         ('block', st, what)           thread cannot proceed (lock held elsewhere) - call is retried later
    """

    def __init__(s, fns, env, drop_shims=None, enum_variants=None):
        s.fns = fns; s.env = env; s.stats = Stats()
        s.drop_shims = drop_shims or {}     # coroutine body fn name -> Fn (coroutine_drop shim)
        s.enums = enum_variants or {}       # enum name -> [variant names]
        s.by_span = {}; s.by_last = {}; s.drop_impls = {}
        for n, f in fns.items():
            if f.span and re.search(r'\{closure#\d+\}$', n): s.by_span.setdefault(f.span, n)
            s.by_last.setdefault(n.split('::')[-1], []).append(n)
            if n.endswith('::drop') and len(f.params) == 1 and f.params[0][1].startswith('&mut '):
                s.drop_impls.setdefault(type_head(f.params[0][1]), []).append(n)
        s._resolve_cache = {}; s._dyn_cache = {}
        s._sat_cache = {}
        s.solver_timeout_ms = 20000        # a query that does not finish is `unknown` = inconclusive, never a pass
        s.overflow_mode = 'panic'          # 'panic' (dev profile) | 'wrap' (release profile)
        s.task_mode = True                 # ignore preemption points
        s.fine_points = False              # thread mode: additionally preempt before every access to shared state (lock, atomic, semaphore)
        s.lock_probe = False               # the crate probes locks without blocking (try_lock ...): callbacks under a lock are schedule points too
        s.allow_block = False              # a thread that finds a lock held elsewhere stops (at_point blocked) and retries when scheduled again
        s.record_queries = False

    # ---------------- solver
    def feasible(s, st, cond):
        """is pc /\\ cond satisfiable?"""
        if cond is True: return True
        if cond is False: return False
        key = (tuple(c.get_id() for c in st.pc), cond.get_id())
        r = s._sat_cache.get(key)
        if r is not None:
            s.stats.cache_hits += 1; return r[0]
        sol = z3.Solver(); sol.set('timeout', s.solver_timeout_ms); sol.add(*st.pc); sol.add(cond)
        t = time.time(); res = sol.check(); dt = time.time() - t
        s.stats.solver_s += dt; s.stats.queries += 1
        if res == z3.unknown:
            # a loaded machine can push a small query past the wall-clock limit: one more attempt, fresh solver, three times the limit;
            # still unknown = inconclusive, never a pass
            sol = z3.Solver(); sol.set('timeout', 3 * s.solver_timeout_ms); sol.add(*st.pc); sol.add(cond)
            t = time.time(); res = sol.check(); s.stats.solver_s += time.time() - t; s.stats.queries += 1
            if res == z3.unknown: raise Unmodelled('solver returned unknown (' + str(sol.reason_unknown()) + ')')
        r = res == z3.sat
        if r: s.stats.sat += 1
        else: s.stats.unsat += 1
        if s.record_queries and len(s.stats.recorded) < 400:
            s.stats.recorded.append((sol.to_smt2(), 'sat' if r else 'unsat'))
        s._sat_cache[key] = (r, st.pc, cond)     # keeps the ASTs alive: z3 ids are only unique among live terms
        return r

    def must(s, st, cond):
        """does pc imply cond?"""
        if cond is True: return True
        if cond is False: return not s.feasible(st, True) if False else False if s.feasible(st, True) else True
        return not s.feasible(st, simp(z3.Not(cond)))

    def model(s, st, extra=()):
        sol = z3.Solver(); sol.add(*st.pc)
        for e in extra: sol.add(z(e))
        if sol.check() != z3.sat: return None
        return sol.model()

    def fork_on(s, st, cond):
        """-> list of (state, bool) for the feasible truth values of cond; st itself is reused for one of them"""
        if cond is True or cond is False: return [(st, cond)]
        t_ok = s.feasible(st, cond); nc = simp(z3.Not(cond)); f_ok = s.feasible(st, nc)
        if t_ok and f_ok:
            s.stats.forks += 1
            st2 = st.clone(); st.assume(cond); st2.assume(nc)
            return [(st, True), (st2, False)]
        if t_ok: return [(st, True)]
        if f_ok: return [(st, False)]
        raise InternalError('infeasible state (path condition unsatisfiable)')

    # ---------------- memory
    def load(s, st, root, path):
        try:
            v = st.heap[root]
        except KeyError:
            raise InternalError(f'dangling root {root}')
        for p in path:
            if isinstance(v, Ref) and p == 0: continue      # Unique<T> / NonNull<T> inside a Box are transparent wrappers of the pointer
            if not isinstance(v, Agg): raise InternalError(f'field {p} of non-aggregate {v!r} (root {root} path {path})')
            try:
                v = v.f[p]
            except KeyError:
                raise InternalError(f'read of absent field {p} in {v.ty} (root {root} path {path}): {v!r}'[:400])
        return v

    def deref(s, st, ref):
        if not isinstance(ref, Ref): raise InternalError(f'deref of non-reference {ref!r}')
        return s.load(st, ref.root, ref.path)

    def store(s, st, root, path, val):
        if not path:
            st.heap[root] = val; return
        st.heap[root] = s._store(st.heap[root], path, 0, val, root)

    def _store(s, v, path, i, val, root):
        if not isinstance(v, Agg):
            if v is UNINIT:
                # first write into an uninitialised aggregate (MIR builds some values field by field)
                v = Agg('?')
            else:
                raise InternalError(f'store into field {path[i]} of non-aggregate {v!r} (root {root})')
        k = path[i]
        if i == len(path) - 1: return v.with_field(k, val)
        if k not in v.f:
            sub = UNINIT
        else:
            sub = v.f[k]
        return v.with_field(k, s._store(sub, path, i + 1, val, root))

    def write(s, st, ref, val): s.store(st, ref.root, ref.path, val)

    def resolve(s, st, fr, place):
        base, proj, _ = place
        root = fr.loc[base]; path = []; pend = None
        for pr in proj:
            if pr == '*':
                v = s.load(st, root, path)
                if isinstance(v, Agg) and v.ty in ('Box',): v = v.f[0]
                if not isinstance(v, Ref): raise InternalError(f'deref of non-reference {v!r} at {place} in {fr.fn.name}')
                root, path = v.root, list(v.path); pend = None
            elif isinstance(pr, tuple):
                if pr[0] == 'v': pend = pr[1]
                elif pr[0] == 'idx':
                    iv = st.heap[fr.loc[pr[1]]]
                    if not isinstance(iv, I): raise Unmodelled('symbolic index')
                    path.append(iv.v); pend = None
                elif pr[0] == 'cidx':
                    path.append(pr[1]); pend = None
                elif pr[0] == 'cidx_end':
                    seq = s.load(st, root, path)
                    if not isinstance(seq, Agg): raise InternalError('index from the end into a non-sequence')
                    path.append(len(seq.f) - pr[1]); pend = None
                elif pr[0] == 'sub':
                    raise Unmodelled('subslice used as a place to write through (only `&place[a:b]` is supported)')
            else:
                if pend is not None:
                    if pend.startswith('variant#'): path.append((pend, pr))
                    else: path.append((pend, pr))
                else:
                    path.append(pr)
                pend = None
        return root, path

    # ---------------- operands / rvalues
    _int_re = re.compile(r'^(-?\d+)_(u8|u16|u32|u64|u128|usize|i8|i16|i32|i64|i128|isize)$')

    def const(s, c):
        m = s._int_re.match(c)
        if m:
            t = m.group(2); w = 64 if t.endswith('size') else int(t[1:])
            return I(int(m.group(1)), w)
        if c == 'true': return True
        if c == 'false': return False
        m = re.match(r'^(u|i)(8|16|32|64|128|size)::(MIN|MAX)$', c)
        if m:
            w = 64 if m.group(2) == 'size' else int(m.group(2))
            if m.group(1) == 'u': return I(0 if m.group(3) == 'MIN' else (1 << w) - 1, w)
            return I((1 << (w - 1)) if m.group(3) == 'MIN' else (1 << (w - 1)) - 1, w)
        if c == '()': return UNIT
        if c.startswith('"'): return Opaque('str:' + c)
        if c.startswith('ZeroSized'):
            m = re.match(r'^ZeroSized: \{(closure)@([^}]*?)\}$', c)
            if m:
                body = s.by_span.get(m.group(2))
                if body is None: raise Unmodelled('closure body for span ' + m.group(2))
                return Agg('{closure@' + m.group(2) + '}', [], variant=body)
            return UNIT
        m = re.match(r'^(.+)::(\w+)$', c)
        if m:
            en = type_head(m.group(1))
            if en in s.enums and m.group(2) in s.enums[en]: return mk_enum(en, m.group(2))
        if re.match(r'^[A-Z]\w*$', c):
            # a unit variant printed without its enum (rustc trims unambiguous paths): `const Tokio1`
            ens = [en for en, vs in s.enums.items() if c in vs]
            if len(ens) == 1: return mk_enum(ens[0], c)
        r = s.env.const(s, c)
        if r is not None: return r
        f = s.fns.get('const ' + c) or next((s.fns[n] for n in s.fns if n.startswith('const ') and (n == 'const ' + c.split('::')[-1] or n.endswith('::' + c.split('::')[-1]))), None)
        if f is not None:
            # a named constant: its body must be a single `_0 = const X; return`
            bl = blocks_of(f)
            if len(bl) == 1:
                stmts, term = bl['bb0']
                if term[0] == 'return' and len(stmts) >= 1 and stmts[-1][0] == 'assign' and stmts[-1][2][0] == 'use' and stmts[-1][2][1][0] == 'const':
                    return s.const(stmts[-1][2][1][1])
            return Opaque('const:' + c)        # opaque: any use other than passing it along is unmodelled and raises there
        return Opaque('const:' + c)

    def eval_promoted(s, st, fr, c):
        """`const path::f::promoted[i]`: a 'static temporary hoisted out of f.  Its body (one block of assignments, no calls) is
        evaluated once per use; the locals it refers to stay allocated, as 'static data does"""
        tail = '::' + '::'.join(c.split('::')[-2:])
        cands = [n for n in s.fns if n.startswith('const ') and (n.endswith(tail) or n == 'const ' + tail[2:])]
        if len(cands) > 1:
            own = [n for n in cands if s.fns[n].crate == fr.fn.crate]
            if own: cands = own
        if len(cands) > 1:
            # same function name in several impls: the one whose impl location is the current function's
            loc = re.search(r'<impl at [^>]*>', fr.fn.name)
            if loc: cands = [n for n in cands if loc.group(0) in n] or cands
        if len(cands) != 1: return None
        return s.eval_const_body(st, s.fns[cands[0]])

    def eval_const_body(s, st, f):
        bl = blocks_of(f)
        loc = {l: st.alloc(UNINIT) for l in itertools.chain(['_0'], f.locals)}
        pf = Frame('mir', fn=f, loc=loc, bb='bb0')
        bb = 'bb0'
        for _ in range(16):
            stmts, term = bl[bb]
            if any(sm[0] not in ('assign', 'nop') for sm in stmts): return None
            for sm in stmts:
                if sm[0] != 'assign': continue
                val = s.rvalue(st, pf, sm[2]); root, path = s.resolve(st, pf, sm[1]); s.store(st, root, path, val)
            if term[0] == 'return': return st.heap[loc['_0']]
            if term[0] != 'call': return None
            # a const fn of the standard library with a model that returns at once (Duration::from_millis(500), ...)
            _, dest, callee, argops, ret, unw = term
            args = [s.operand(st, pf, a) for a in argops]
            outs = s.env.call(s, st, None, callee, args)
            if not outs or len(outs) != 1 or outs[0][0] != 'ret' or ret is None: return None
            root, path = s.resolve(st, pf, dest); s.store(st, root, path, outs[0][2])
            pf.bb = bb = ret
        return None

    def operand(s, st, fr, op):
        k = op[0]
        if k == 'const':
            v = s.const(op[1])
            if isinstance(v, Opaque) and v.tag.startswith('const:'):
                if '::promoted[' in v.tag: r = s.eval_promoted(st, fr, op[1])
                else:
                    # a named const item whose body is more than `_0 = const X` (e.g. `&[&str]` tables): evaluate its block
                    c = op[1]; last = c.split('::')[-1]
                    f = s.fns.get('const ' + c) or next((s.fns[n] for n in s.fns if n.startswith('const ') and (n == 'const ' + last or n.endswith('::' + last))), None)
                    r = s.eval_const_body(st, f) if f is not None else None
                if r is not None: return r
            return v
        if k == 'fn': return FnItem(op[1])
        root, path = s.resolve(st, fr, op[1]); v = s.load(st, root, path)
        if v is UNINIT: raise InternalError(f'read of uninitialised {op[1]} in {fr.fn.name} {fr.bb}')
        if k == 'move' and isinstance(v, Agg): s.store(st, root, path, UNINIT)
        return v

    def op_type(s, fr, op):
        if op[0] == 'const':
            m = s._int_re.match(op[1]); return m.group(2) if m else None
        if op[0] in ('copy', 'move'):
            base, proj, ty = op[1]
            if ty is not None: return ty
            if not proj: return fr.fn.locals.get(base) or dict(fr.fn.params).get(base)
        return None

    def rvalue(s, st, fr, rv):
        k = rv[0]
        if k == 'use': return s.operand(st, fr, rv[1])
        if k == 'ref':
            base, proj, ty = rv[1]
            if proj and isinstance(proj[-1], tuple) and proj[-1][0] == 'sub':
                # &seq[a:b] (slice patterns): a read-only view, materialised as a copy of the elements
                if 'mut' in (rv[2] if len(rv) > 2 else ''): raise Unmodelled('mutable subslice borrow')
                root, path = s.resolve(st, fr, (base, proj[:-1], None)); seq = s.load(st, root, path)
                if not isinstance(seq, Agg): raise InternalError('subslice of a non-sequence')
                items = seq.items(); _, a, b, from_end = proj[-1]
                part = items[a:len(items) - b] if from_end else items[a:b]
                return Ref(st.alloc(Agg(seq.ty if seq.ty in ('Vec', 'VecDeque', 'array') else 'Vec', part)), [])
            root, path = s.resolve(st, fr, rv[1]); return Ref(root, path)
        if k == 'binop':
            a = s.operand(st, fr, rv[2]); b = s.operand(st, fr, rv[3])
            r = binop(rv[1], a, b, is_signed_ty(s.op_type(fr, rv[2])))
            if isinstance(r, tuple) and r[0] == 'ovf': return Agg('tuple', [r[1], r[2]])
            return r
        if k == 'unop':
            a = s.operand(st, fr, rv[2])
            if rv[1] == 'Not':
                if is_boolv(a): return b_not(a)
                return I(~a.v, a.w) if isinstance(a, I) else simp(~a)
            if rv[1] == 'Neg': return I(-a.v, a.w) if isinstance(a, I) else simp(-a)
            if rv[1] == 'PtrMetadata':
                # metadata of a slice reference = its length
                v = a
                for _ in range(3):
                    if isinstance(v, Ref): v = s.deref(st, v)
                if isinstance(v, Agg) and v.ty in ('Vec', 'VecDeque', 'array'): return I(len(v.f), 64)
                raise Unmodelled('PtrMetadata of ' + repr(v)[:60])
            raise Unmodelled('unop ' + rv[1])
        if k == 'discr':
            root, path = s.resolve(st, fr, rv[1]); v = s.load(st, root, path)
            return s.discriminant(v)
        if k == 'cast':
            v = s.operand(st, fr, rv[1]); kind = rv[3]
            if kind.startswith('IntToInt'):
                return int_cast(v, rv[2], is_signed_ty(s.op_type(fr, rv[1])))
            if kind.startswith(('PointerCoercion', 'PtrToPtr', 'Transmute')): return v
            raise Unmodelled('cast kind ' + kind)
        if k == 'closure':
            body = s.by_span.get(rv[2])
            if body is None and (fr.fn.name + '::{closure#0}') in s.fns: body = fr.fn.name + '::{closure#0}'
            if body is None: raise Unmodelled('closure body for span ' + rv[2])
            a = Agg('{' + rv[1] + '@' + rv[2] + '}', [s.operand(st, fr, x) for x in rv[3]], variant=body)
            if rv[1] == 'coroutine': a.discr = 0
            return a
        if k == 'tuple': return Agg('tuple', [s.operand(st, fr, x) for x in rv[1]]) if rv[1] else UNIT
        if k == 'array': return Agg('array', [s.operand(st, fr, x) for x in rv[1]])
        if k == 'struct':
            m = re.match(r'^(.+)::(\w+)$', rv[1])
            if m:
                en = type_head(m.group(1))
                if en in s.enums and m.group(2) in s.enums[en]:
                    return mk_enum(en, m.group(2), [s.operand(st, fr, x) for x in rv[3]])
            en = s._enum_by_hint(type_head(rv[1]))
            if en: return mk_enum(en, type_head(rv[1]), [s.operand(st, fr, x) for x in rv[3]])
            return Agg(type_head(rv[1]), [s.operand(st, fr, x) for x in rv[3]])
        if k == 'ctor':
            path, args = rv[1], rv[2]
            m = re.match(r'^(.+)::(\w+)$', path)
            if m:
                en = type_head(m.group(1))
                if en in s.enums and m.group(2) in s.enums[en]:
                    return mk_enum(en, m.group(2), [s.operand(st, fr, x) for x in (args or [])])
            en = s._enum_by_hint(path) if '::' not in path else None
            if en: return mk_enum(en, path, [s.operand(st, fr, x) for x in (args or [])])
            if args is None:
                r = s.env.const(s, path)
                if r is not None: return r
                if path.startswith('std::sync::atomic::Ordering::'): return Opaque(path)
                raise Unmodelled('unit rvalue ' + path)
            return Agg(type_head(path), [s.operand(st, fr, x) for x in args])
        if k == 'len':
            root, path = s.resolve(st, fr, rv[1]); v = s.load(st, root, path); return I(len(v.f))
        raise Unmodelled('rvalue ' + repr(rv))

    hint = None

    def _enum_by_hint(s, variant):
        """an unqualified variant name (re-exported enum): the enum is the head of the destination's declared type"""
        if s.hint:
            en = type_head(s.hint)
            if en in s.enums and variant in s.enums[en]: return en
        return None

    def discriminant(s, v):
        if not isinstance(v, Agg): raise InternalError(f'discriminant of {v!r}')
        if v.ty.startswith('{coroutine'): return I(v.discr, 32)
        if v.ty == 'Ordering' and v.variant in ('Less', 'Equal', 'Greater'): return I({'Less': -1, 'Equal': 0, 'Greater': 1}[v.variant], 8)   # core::cmp::Ordering is repr(i8)
        vs = s.enums.get(v.ty)
        if vs is None or v.variant not in vs: raise Unmodelled(f'discriminant of {v.ty}::{v.variant}')
        return I(vs.index(v.variant), 64)

    # ---------------- frames
    def push_mir(s, st, th, fname, args):
        f = s.fns.get(fname) if isinstance(fname, str) else fname
        if f is None: raise Unmodelled('no MIR body for ' + str(fname))
        s.stats.fns[f.name] = f.hash
        loc = {}
        for l in itertools.chain(['_0'], (p for p, _ in f.params), f.locals):
            if l not in loc: loc[l] = st.alloc(UNINIT)
        if len(args) != len(f.params): raise InternalError(f'arity mismatch calling {f.name}: {len(args)} args')
        for (p, _), a in zip(f.params, args): st.heap[loc[p]] = a
        th.stack.append(Frame('mir', fn=f, loc=loc, bb='bb0'))

    def push_k(s, th, k, *data): th.stack.append(Frame('k', k=k, data=data))

    def pop_mir(s, st, th):
        fr = th.stack.pop()
        for r in fr.loc.values(): st.heap.pop(r, None)
        return fr

    # ---------------- stepping
    def run(s, st, tid, stop_at_points=False, max_blocks=200000):
        """run thread tid until its stack is empty (operation finished: th.result set), or it yields at a
        preemption point (th.at_point set), or blocks.  Returns list of resulting states."""
        done = []; work = [st]; n = 0
        while work:
            cur = work.pop()
            th = cur.threads[tid]
            while True:
                n += 1
                if n > max_blocks: raise Unmodelled('block budget exhausted (possible unbounded loop)')
                if not th.stack:
                    done.append(cur); break
                outs = s.step(cur, th)
                if outs is None: continue           # same state continues
                # outs: list of (state, flag) ; flag None = keep running, 'stop' = hand back to scheduler
                first = True; cont = None
                for st2, flag in outs:
                    if flag == 'stop': done.append(st2)
                    elif first and flag is None: cont = st2; first = False
                    else: work.append(st2)
                if cont is None: break
                cur = cont; th = cur.threads[tid]
        return done

    def step(s, st, th):
        fr = th.stack[-1]
        if fr.kind == 'k':
            # a continuation frame on top with nothing above it: it was just created to start work
            return getattr(s, 'k_' + fr.k)(st, th, fr, 'start', None)
        f = fr.fn; stmts, term = blocks_of(f)[fr.bb]
        s.stats.blocks += 1; s.stats.stmts += len(stmts) + 1
        if fr.skip: stmts = ()
        pending_skip = fr.skip
        for sm in stmts:
            k = sm[0]
            if k == 'assign':
                if sm[2][0] in ('ctor', 'struct'):
                    d = sm[1]; s.hint = d[2] if d[2] is not None else (f.locals.get(d[0]) or (f.ret if d[0] == '_0' else None)) if not d[1] else d[2]
                try:
                    val = s.rvalue(st, fr, sm[2])
                except InternalError as e:
                    raise InternalError(f'{e} [in {f.name} bb{fr.bb}: {sm!r}]'[:900])
                root, path = s.resolve(st, fr, sm[1]); s.store(st, root, path, val)
            elif k == 'nop':
                pass
            elif k == 'setdiscr':
                root, path = s.resolve(st, fr, sm[1]); v = s.load(st, root, path)
                if isinstance(v, Agg) and v.ty.startswith('{coroutine'):
                    s.store(st, root, path, v.with_discr(sm[2]))
                else:
                    # enum built in place: keep payload fields written so far under the variant's name
                    ty = v.ty if isinstance(v, Agg) else '?'
                    raise Unmodelled(f'SetDiscriminant on {ty} in {f.name}')
            elif k == 'assume':
                pass
            else:
                raise Unmodelled('stmt kind ' + k)
        k = term[0]
        if k == 'goto':
            fr.bb = term[1]; return None
        if k == 'return':
            rv = st.heap[fr.loc['_0']]
            s.pop_mir(st, th)
            return s.deliver(st, th, rv)
        if k == 'switch':
            v = s.operand(st, fr, term[1])
            return s.do_switch(st, th, v, term[2], term[3])
        if k == 'call':
            return s.do_call(st, th, fr, term)
        if k == 'drop':
            root, path = s.resolve(st, fr, term[1]); v = s.load(st, root, path)
            s.store(st, root, path, UNINIT)
            return s.start_drop(st, th, [v])
        if k == 'assert':
            v = s.operand(st, fr, term[2]); okc = b_not(v) if term[1] else v
            is_ovf = 'overflow' in term[3]
            outs = []
            for st2, val in s.fork_on(st, okc):
                th2 = st2.threads[th.name]; fr2 = th2.stack[-1]
                if val or (is_ovf and s.overflow_mode == 'wrap'):
                    if not val: st2.logev('wrapped', f.name, term[3])
                    fr2.bb = term[4]; outs.append((st2, None))
                else:
                    outs.extend(s.start_panic(st2, th2, f'assert failed: {term[3]} in {short(f.name)}', origin='deadpool'))
            return outs
        if k == 'resume':
            s.pop_mir(st, th)
            return s.unwind(st, th)
        if k == 'unreachable':
            raise InternalError(f'reached `unreachable` in {f.name} {fr.bb}')
        if k == 'terminate':
            st.logev('abort', f.name); th.stack.clear(); th.result = ('abort',)
            return [(st, 'stop')]
        raise Unmodelled('terminator ' + k)

    def do_switch(s, st, th, v, arms, other):
        if isinstance(v, bool): v = I(int(v), 1)
        if isinstance(v, I):
            tgt = other
            for kk, t in arms:
                if (kk & ((1 << v.w) - 1)) == v.v: tgt = t; break
            if tgt is None: raise InternalError('switch without matching arm')
            th.stack[-1].bb = tgt; return None
        outs = []; negs = []
        zv = v
        for kk, t in arms:
            c = simp(zv == z3.BoolVal(bool(kk))) if z3.is_bool(zv) else simp(zv == z3.BitVecVal(kk, zv.size()))
            negs.append(b_not(c))
            if s.feasible(st, c): outs.append((c, t))
        if other is not None:
            c = b_and(*negs)
            if s.feasible(st, c): outs.append((c, other))
        if not outs: raise InternalError('no feasible switch target')
        res = []
        for i, (c, t) in enumerate(outs):
            st2 = st if i == len(outs) - 1 else st.clone()
            if len(outs) > 1: st2.assume(c); s.stats.forks += 1
            st2.threads[th.name].stack[-1].bb = t
            res.append((st2, None))
        return res

    # ---------------- calls
    def do_call(s, st, th, fr, term):
        _, dest, callee, argops, ret, unw = term
        if fr.skip:
            fr.skip = 0          # the call is being retried after a preemption / after blocking
        elif s.fine_points and not s.task_mode and s.env.is_shared_access(callee):
            fr.skip = 1; th.at_point = 'sync:' + model_key(callee)[-40:]
            return [(st, 'stop')]
        args = [s.operand(st, fr, a) for a in argops]
        if callee.startswith(('move ', 'copy ')):
            # indirect call through a fn pointer / closure value held in a local
            fv = s.operand(st, fr, (callee.split(' ')[0], parse_place(callee.split(' ', 1)[1])))
            return s.call_value(st, th, fv, args)
        return s.dispatch(st, th, callee, args)

    def dispatch(s, st, th, callee, args):
        outs = s.env.call(s, st, th, callee, args)
        if outs is not None:
            s.stats.models[model_key(callee)] = s.stats.models.get(model_key(callee), 0) + 1
            return s.apply_outcomes(outs, th.name)
        # an enum variant (tuple-like) used as a function value: `.map_err(Error::Backend)`, `.map_or(Ok(()), Err)`
        flat = strip_generics(callee); segs = [x for x in flat.split('::') if x]
        if len(segs) >= 2 and segs[-2] in s.enums and segs[-1] in s.enums[segs[-2]]:
            return s.apply_outcomes([('ret', st, mk_enum(segs[-2], segs[-1], list(args)))], th.name)
        cc = next((f.fn.crate for f in reversed(th.stack) if f.kind == 'mir'), None)
        fn = s.local_fn(callee, cc)
        if fn is None: fn = s.dyn_fn(st, callee, args)
        if fn is None: fn = s.shim_fn(callee)
        if fn is None: raise Unmodelled('call ' + callee)
        s.push_mir(st, th, fn, args)
        return None

    def dyn_fn(s, st, callee, args):
        """value-directed dispatch of a trait method called on a generic parameter (<I as Iterator>::next inside generic code):
        the impl whose self type is the type of the receiver value"""
        m = re.match(r'^<(.+) as (.+?)>::(\w+)(::<.*>)?$', callee)
        if not m or not args: return None
        v = args[0]
        for _ in range(4):
            if isinstance(v, Ref):
                try: v = s.deref(st, v)
                except Exception: return None
            else: break
        if not isinstance(v, Agg) or v.ty.startswith('{'): return None
        key = (m.group(3), v.ty)
        if key in s._dyn_cache: return s._dyn_cache[key]
        c = [n for n in s.by_last.get(m.group(3), []) if '<impl at' in n and s.fns[n].params
             and type_head(s.fns[n].params[0][1]) == v.ty]
        r = c[0] if len(c) == 1 else None
        s._dyn_cache[key] = r
        return r

    _SHIM_PREFIX = {'Iterator': 'vsi_', 'DoubleEndedIterator': 'vsi_', 'Extend': 'vsi_extend_', 'Option': 'vso_', 'Result': 'vsr_', 'bool': 'vsb_'}

    def shim_fn(s, callee):
        """std combinators without a hand-written model run the plain-Rust body of the same name from the shim crate (/verif/shim)"""
        m = re.match(r'^<(.+) as (.+?)>::(\w+)(::<(.*)>)?$', callee)
        if m:
            tr = type_head(m.group(2)); meth = m.group(3); gen = m.group(5) or ''
            pre = s._SHIM_PREFIX.get(tr)
            if pre is None: return None
            if tr == 'Extend': meth = {'Vec': 'vec', 'VecDeque': 'vecdeque'}.get(type_head(m.group(1)), '?')
            elif meth == 'collect':
                h = type_head(split_top(gen, ',')[0]) if gen else '?'
                inner = re.match(r'^(?:std::\w+::)*(Result|Option)<\s*(?:std::\w+::)*Vec<', gen.strip())
                meth = 'collect_' + ({'Vec': 'vec', 'VecDeque': 'vecdeque'}.get(h) or ({'Result': 'result_vec', 'Option': 'option_vec'}[inner.group(1)] if inner else '?'))
            elif meth in ('sum', 'max', 'min'):
                meth = meth + '_usize' if re.search(r'usize', callee) else '?'
        else:
            flat = callee
            flat = strip_generics(flat)
            segs = [x for x in flat.split('::') if x]
            if len(segs) < 2: return None
            pre = s._SHIM_PREFIX.get(segs[-2]); meth = segs[-1]
            if pre is None or segs[-2] in ('Iterator', 'DoubleEndedIterator', 'Extend'): return None
        c = [n for n in s.by_last.get(pre + meth, []) if s.fns[n].crate == 'vstd']
        return c[0] if len(c) == 1 else None

    def apply_outcomes(s, outs, tid):
        res = []
        for o in outs:
            kind = o[0]
            if kind == 'raw':
                res.extend(o[1]); continue
            st2 = o[1]; th2 = st2.threads[tid]
            if kind == 'ret':
                r = s.deliver(st2, th2, o[2])
                res.extend(r if r is not None else [(st2, None)])
            elif kind == 'panic':
                res.extend(s.start_panic(st2, th2, o[2], origin=o[3] if len(o) > 3 else 'env'))
            elif kind == 'push':
                res.append((st2, None))
            elif kind == 'raw':
                res.extend(o[1]); continue
            elif kind == 'yield':
                r = s.deliver(st2, th2, o[3] if len(o) > 3 else UNIT)
                if s.task_mode:
                    res.extend(r if r is not None else [(st2, None)])
                else:
                    th2.at_point = o[2]
                    for st3, flag in (r if r is not None else [(st2, None)]):
                        res.append((st3, 'stop' if flag is None else flag))
            elif kind == 'block':
                if o[2] == 'self-deadlock':
                    th2.stack.clear(); th2.result = ('deadlock',); res.append((st2, 'stop')); continue
                if not (s.fine_points or s.allow_block):
                    raise InternalError('thread blocks on a lock held by another thread: schedule points must lie outside lock regions')
                # retry the lock call when the thread is scheduled again (its operands are references: re-evaluation is harmless)
                th2.stack[-1].skip = 1; th2.at_point = ('blocked', o[3] if len(o) > 3 else None); res.append((st2, 'stop'))
            else:
                raise InternalError('outcome ' + kind)
        return res

    def call_value(s, st, th, fv, args):
        """call a closure / fn item value"""
        if isinstance(fv, Ref): fv2 = s.deref(st, fv)
        else: fv2 = fv
        if isinstance(fv2, Agg) and fv2.ty.startswith('{closure'):
            s.push_mir(st, th, fv2.variant, [fv] + list(args)); return None
        if isinstance(fv2, FnItem): return s.dispatch(st, th, fv2.name, list(args))
        outs = s.env.call_value(s, st, th, fv, fv2, args)
        if outs is None: raise Unmodelled(f'call of value {fv2!r}'[:200])
        return s.apply_outcomes(outs, th.name)

    def deliver(s, st, th, rv):
        """a callee finished with value rv: hand it to the frame below"""
        if not th.stack:
            th.result = ('ok', rv); return [(st, 'stop')]
        fr = th.stack[-1]
        if fr.kind == 'k':
            return getattr(s, 'k_' + fr.k)(st, th, fr, 'ret', rv)
        term = blocks_of(fr.fn)[fr.bb][1]
        if term[0] == 'call':
            if term[4] is None: raise InternalError('return into diverging call ' + term[2])
            root, path = s.resolve(st, fr, term[1]); s.store(st, root, path, rv); fr.bb = term[4]
            return None
        if term[0] == 'drop':
            fr.bb = term[2]; return None
        raise InternalError('return into non-call terminator ' + term[0])

    def start_panic(s, st, th, msg, origin='env'):
        st.logev('panic', th.name, origin, msg)
        th.panicking = True
        if origin == 'deadpool':
            st.gset('deadpool_panics', st.gget('deadpool_panics', ()) + (msg,))
        return s.unwind(st, th)

    def unwind(s, st, th):
        """propagate a panic: take the unwind action of the top frame's in-progress terminator"""
        while True:
            if not th.stack:
                th.result = ('panic',); return [(st, 'stop')]
            fr = th.stack[-1]
            if fr.kind == 'k':
                r = getattr(s, 'k_' + fr.k)(st, th, fr, 'unwind', None)
                if r == 'continue': continue
                return r
            term = blocks_of(fr.fn)[fr.bb][1]
            if term[0] in ('call', 'drop', 'assert'):
                act = term[5] if term[0] in ('call', 'assert') else term[3]
            else:
                raise InternalError('unwinding through terminator ' + term[0])
            if act[0] == 'goto':
                fr.bb = act[1]; return [(st, None)]
            if act[0] == 'continue':
                s.pop_mir(st, th); continue
            if act[0] == 'terminate':
                st.logev('abort', fr.fn.name); th.stack.clear(); th.result = ('abort',); return [(st, 'stop')]
            raise InternalError('unwind action ' + act[0])

    # ---------------- drops
    def start_drop(s, st, th, values):
        """drop the given values (in order) on thread th, then deliver () to the frame below"""
        s.push_k(th, 'drop', tuple(values), None)
        return None

    def k_drop(s, st, th, fr, why, rv):
        """data = (pending values tuple, tmp root of value whose Drop impl / shim is running or None)"""
        pending, tmp = fr.data
        pending = list(pending)
        if why == 'unwind':
            # a destructor panicked: remaining fields are still dropped by real drop glue; we continue
            # dropping and then keep unwinding (double panics abort - reported by the env if it matters)
            if tmp is not None:
                st.heap.pop(tmp, None)
            th.stack.pop()
            if pending:
                s.push_k(th, 'dropunw', tuple(pending))
                return [(st, None)]
            return 'continue'
        if why == 'ret' and tmp is not None:
            v = st.heap.pop(tmp)
            # after the Drop impl ran, drop the fields (coroutine shims drop their own fields)
            if isinstance(v, Agg) and not v.ty.startswith('{coroutine'):
                pending = s.fields_in_order(v) + pending
            tmp = None
        while pending:
            v = pending.pop(0)
            if not isinstance(v, Agg) or v is UNIT: continue
            fr.data = (tuple(pending), None)      # before the model destructor runs: it may fork (clone) the state
            r = s.env.drop(s, st, th, v)
            if r is True: continue
            if r is not None:
                # env returned outcomes (e.g. forked or panicking destructor)
                return s.apply_outcomes(r, th.name)
            if v.ty.startswith('{coroutine'):
                shim = s.drop_shims.get(v.variant)
                if v.discr in (1, 2): continue
                if shim is None:
                    if v.discr == 0:
                        pending = [v.f[i] for i in sorted(k for k in v.f if isinstance(k, int))] + pending; continue
                    raise Unmodelled(f'no coroutine_drop shim for {v.variant}')
                tmp = st.alloc(v); fr.data = (tuple(pending), tmp)
                s.push_mir(st, th, shim, [Ref(tmp)]); return [(st, None)]
            impls = s.drop_impls.get(v.ty)
            if impls:
                if len(impls) > 1:
                    impls = s.env.pick_drop_impl(s, v, impls)
                tmp = st.alloc(v); fr.data = (tuple(pending), tmp)
                s.push_mir(st, th, impls[0], [Ref(tmp)]); return [(st, None)]
            pending = s.fields_in_order(v) + pending
        th.stack.pop()
        return s.deliver(st, th, UNIT)

    def k_dropunw(s, st, th, fr, why, rv):
        """continue dropping remaining values while unwinding"""
        if why == 'start':
            pending = fr.data[0]; th.stack.pop()
            s.push_k(th, 'resume_unwind'); s.push_k(th, 'drop', pending, None)
            return [(st, None)]
        raise InternalError('k_dropunw ' + why)

    def k_resume_unwind(s, st, th, fr, why, rv):
        th.stack.pop()
        if why == 'unwind':
            st.logev('abort', 'panic in destructor during unwinding'); th.stack.clear(); th.result = ('abort',)
            return [(st, 'stop')]
        return s.unwind(st, th)

    def k_after(s, st, th, fr, why, rv):
        k, data = fr.data
        if why == 'unwind':
            th.stack.pop(); return 'continue'
        if why != 'ret': raise InternalError('k_after ' + why)
        th.stack.pop()
        if k == 'ident': return s.deliver(st, th, rv)
        if k == 'wrap': return s.deliver(st, th, mk_enum(data[0], data[1], [rv]))
        if k == 'const': return s.deliver(st, th, data[0])
        if k == 'not': return s.deliver(st, th, b_not(rv))
        if k == 'panic': return s.start_panic(st, th, data[0], origin=data[1])
        if k == 'filter':
            outs = []
            for st2, keep in s.fork_on(st, rv):
                th2 = st2.threads[th.name]; v = st2.heap.pop(data[0])
                if keep:
                    r = s.deliver(st2, th2, some(v))
                else:
                    s.push_k(th2, 'after', 'const', (NONE,)); s.push_k(th2, 'drop', (v,), None); r = None
                outs.extend(r if r is not None else [(st2, None)])
            return outs
        r = s.env.after(s, st, th, k, data, rv)
        if r is None: raise InternalError('k_after kind ' + k)
        return s.apply_outcomes(r, th.name)

    def k_retain(s, st, th, fr, why, rv):
        """Vec/VecDeque::retain(pred): data = (seq ref, closure (ref), index, phase) ; phase 0 = idle / 1 = predicate running / 2 = dropping a rejected element"""
        seqref, clo, i, phase = fr.data
        if why == 'unwind':
            th.stack.pop(); return 'continue'
        if why == 'ret' and phase == 1:
            outs = []
            for st2, keep in s.fork_on(st, rv):
                th2 = st2.threads[th.name]; fr2 = th2.stack[-1]
                if keep:
                    fr2.data = (seqref, clo, i + 1, 0)
                else:
                    seq = s.deref(st2, seqref); items = seq.items()
                    x = items.pop(i); s.write(st2, seqref, Agg(seq.ty, items))
                    if isinstance(x, Agg) and x is not UNIT:
                        fr2.data = (seqref, clo, i, 2); s.push_k(th2, 'drop', (x,), None)
                    else:
                        fr2.data = (seqref, clo, i, 0)
                outs.append((st2, None))
            return outs
        if why == 'ret' and phase == 2:
            fr.data = (seqref, clo, i, 0); phase = 0
        # phase 0: call the predicate on the next element, or finish
        seq = s.deref(st, seqref)
        if i >= len(seq.f):
            th.stack.pop()
            if isinstance(clo, Ref) and not clo.path: st.heap.pop(clo.root, None)
            return s.deliver(st, th, UNIT)
        if isinstance(clo, Agg) and clo.ty.startswith('{closure'):
            clo = Ref(st.alloc(clo))
        fr.data = (seqref, clo, i, 1)
        r = s.call_value(st, th, clo, [seqref.field(i)])
        return r if r is not None else [(st, None)]

    def k_env(s, st, th, fr, why, rv):
        """generic continuation owned by the environment: data = (name, payload)"""
        name, data = fr.data
        r = getattr(s.env, 'k_' + name)(s, st, th, fr, why, rv, data)
        if r == 'continue' or r is None: return r
        return s.apply_outcomes(r, th.name)

    def fields_in_order(s, v):
        ks = list(v.f.keys())
        out = []
        for k in ks:
            x = v.f[k]
            if x is UNINIT or not isinstance(x, Agg): continue
            out.append(x)
        return out

    # ---------------- call resolution
    def local_fn(s, callee, caller_crate=None):
        key = (callee, caller_crate)
        if key in s._resolve_cache: return s._resolve_cache[key]
        r = s._local_fn(callee, caller_crate); s._resolve_cache[key] = r; return r

    _STD_HEADS = frozenset(('Option', 'Result', 'bool', 'Vec', 'VecDeque', 'String', 'str', 'Duration', 'Instant', 'Arc', 'Weak', 'Mutex', 'RwLock', 'HashMap',
                            'Box', 'Cow', 'Pin', 'Poll', 'Ordering', 'AtomicUsize', 'AtomicIsize', 'AtomicBool', 'Semaphore', 'usize', 'u64', 'u32', 'isize', 'u128', 'u8', 'u16', 'i64', 'i32'))

    def _local_fn(s, callee, caller_crate=None):
        if callee in s.fns: return callee
        mq = re.match(r'^<(.+) as (.+?)>::(\w+)(::<.*>)?$', callee)
        trait = None
        if mq:
            tyname = type_head(mq.group(1)); last = mq.group(3); trait = type_head(mq.group(2))
        else:
            flat = callee
            flat = strip_generics(flat)
            segs = [x for x in flat.split('::') if x]
            last = segs[-1]; tyname = segs[-2] if len(segs) >= 2 else None
        cands = list(s.by_last.get(last, []))
        if not cands: return None
        all_cands = list(cands)
        # a path that starts with a crate name resolves inside that crate
        crates = {s.fns[c].crate for c in cands}
        if len(crates) > 1:
            first = (mq.group(1) if mq else callee).lstrip('&<').split('::')[0].strip()
            if first in crates:
                cands = [c for c in cands if s.fns[c].crate == first]
            else:
                own = [c for c in cands if s.fns[c].crate == (caller_crate or s.env.home_crate())]
                if own: cands = own
            if len(cands) == 1: return cands[0]
        hint = s.env.resolve_hint(callee)
        if hint: cands = [c for c in cands if hint in c] or cands      # rustc prints unique item names without their module path
        if not mq:
            exact = [c for c in cands if c == callee or c.endswith('::' + '::'.join(x for x in [tyname, last] if x))]
            free = [c for c in cands if '<impl at' not in c]
            if len(cands) == 1:
                # `Option::<T>::or` is not the crate's own `Timeouts::or` just because that is the only body called `or`
                f1 = s.fns[cands[0]]
                if tyname in s._STD_HEADS and '<impl at' in cands[0] and not re.search(r'(?<![\w])' + re.escape(tyname) + r'(?![\w])', (f1.params[0][1] if f1.params else '') + ' -> ' + f1.ret):
                    return None
                return cands[0]
            if tyname is None and len(free) == 1: return free[0]

        def mentions(f):
            txt = (f.params[0][1] if f.params else '') + ' -> ' + f.ret
            return tyname is not None and re.search(r'(?<![\w])' + re.escape(tyname) + r'(?![\w])', txt) is not None
        c2 = [c for c in cands if mentions(s.fns[c])]
        if not c2 and len(all_cands) > len(cands):
            # the caller's own crate has no impl for this self type: an impl of another crate (deadpool core's blanket impls) applies
            c2 = [c for c in all_cands if mentions(s.fns[c])]
        if len(c2) > 1:
            # the self type's module path (managed::config::PoolConfig) selects the impl's module
            if mq: mod = re.sub(r'<.*$', '', mq.group(1).strip().lstrip('&')).rsplit('::', 1)[0] if '::' in mq.group(1) else None
            else: mod = '::'.join(segs[:-2]) if len(segs) > 2 else None
            if mod:
                mods = [mod] + ([mod.split('::', 1)[1]] if '::' in mod and mod.split('::', 1)[0] in {s.fns[c].crate for c in c2} else [])
                for md in mods:
                    # deadpool::managed::PoolConfig seen from another crate: the items of crate `deadpool` are named managed::config::...
                    c4 = [c for c in c2 if c.startswith(md + '::') or ('::' + md + '::') in c or '/' + md.replace('::', '/') + '/' in c]
                    if c4: c2 = c4; break
        if trait in ('Default', 'Clone', 'From', 'Into', 'Drop', 'Deref', 'DerefMut') and len(c2) > 1:
            # prefer bodies whose *return type / self* head is exactly tyname
            c3 = [c for c in c2 if type_head(s.fns[c].ret) == tyname or (s.fns[c].params and type_head(s.fns[c].params[0][1]) == tyname)]
            if c3: c2 = c3
        if len(c2) > 1:
            c3 = [c for c in c2 if s.fns[c].params and type_head(s.fns[c].params[0][1]) == tyname]
            if len(c3) >= 1: c2 = c3
        if len(c2) > 1:
            c2 = s.env.disambiguate(callee, c2)
        if len(c2) != 1 and mq:
            # decide by the impl headers in the source: `impl<S: AsRef<str>> Trait for S` (a blanket impl names no concrete type)
            hs = []
            for c in all_cands:
                h = s.impl_header(c)
                if h is None or h['trait'] != trait: continue
                if h['self'] == tyname or h['self'] in h['generics']: hs.append((h['self'] == tyname, c))
            exact = [c for e, c in hs if e]
            pick = exact if exact else [c for e, c in hs]
            if len(pick) == 1: return pick[0]
        return c2[0] if len(c2) == 1 else None

    _impl_cache = {}

    def impl_header(s, name):
        """{'trait': head or None, 'self': head, 'generics': [type parameter names]} of the impl block a function named
        `...<impl at path:l1:c1: l2:c2>::f` sits in, read from the source the span points to"""
        m = re.search(r'<impl at ([^:>]+):(\d+):(\d+): (\d+):(\d+)>', name)
        if not m: return None
        f = s.fns.get(name); crate = f.crate if f is not None else None
        key = (crate, m.group(0))
        if key in s._impl_cache: return s._impl_cache[key]
        r = None
        try:
            from . import dump
            base = dump.SHIM_DIR if crate == dump.SHIM else dump.REPO
            lines = open(os.path.join(base, m.group(1))).read().split('\n')
            l1, c1, l2, c2 = (int(m.group(i)) for i in (2, 3, 4, 5))
            if l1 == l2: txt = lines[l1 - 1][c1 - 1:c2 - 1]
            else: txt = '\n'.join([lines[l1 - 1][c1 - 1:]] + lines[l1:l2 - 1] + [lines[l2 - 1][:c2 - 1]])
            txt = ' '.join(txt.split())
            mm = re.match(r'^(?:unsafe\s+)?impl\b\s*(.*)$', txt)
            if mm:
                rest = mm.group(1); gens = []
                if rest.startswith('<'):
                    d = 0; end = None
                    for i, ch in enumerate(rest):
                        if ch == '<': d += 1
                        elif ch == '>' and rest[i - 1] not in '-=':
                            d -= 1
                            if d == 0: end = i; break
                    if end is not None:
                        for part in split_top(rest[1:end], ','):
                            part = part.strip()
                            if part and not part.startswith("'") and not part.startswith('const '):
                                gens.append(re.match(r'^(\w+)', part).group(1))
                        rest = rest[end + 1:].strip()
                rest = re.split(r'\swhere\s', rest)[0].strip()
                # ' for ' at nesting depth 0
                d = 0; cut = None
                for i, ch in enumerate(rest):
                    if ch in '<(': d += 1
                    elif ch in '>)' and rest[i - 1] not in '-=': d -= 1
                    elif d == 0 and rest.startswith(' for ', i): cut = i; break
                if cut is None: r = {'trait': None, 'self': type_head(rest), 'generics': gens}
                else: r = {'trait': type_head(rest[:cut].strip().lstrip('!')), 'self': type_head(rest[cut + 5:].strip()), 'generics': gens}
        except Exception:
            r = None
        s._impl_cache[key] = r
        return r


def strip_generics(t):
    """drop every <...> group (nesting aware; the '>' of -> and => does not close)"""
    out = []; d = 0
    for i, c in enumerate(t):
        if c == '<': d += 1
        elif c == '>' and (i == 0 or t[i - 1] not in '-='): d = max(0, d - 1)
        elif d == 0: out.append(c)
    return ''.join(out)


def short(n):
    n = re.sub(r'<impl at [^>]*?([\w]+\.rs):(\d+):[^>]*>', r'<\1:\2>', n)
    return n


_mk_cache = {}


def model_key(callee):
    r = _mk_cache.get(callee)
    if r is None:
        c = callee
        c = strip_generics(c)
        r = c[:80]; _mk_cache[callee] = r
    return r
