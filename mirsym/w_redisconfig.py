"""C19 (claimed part): deadpool-redis Config::builder() of the three flavours and the From conversions, from MIR, payloads symbolic."""
import re, json, os, glob
import z3
from .mir import Unmodelled
from .core import (I, Agg, Ref, Opaque, UNINIT, UNIT, NONE, mk_enum, some, ok, err, payload, is_sym, simp, z, b_not, b_and, b_or,
                   binop, InternalError, State)
from .managed import World
from .w_pgconfig import PgEnv, sterm, S, sref


class RedisEnv(PgEnv):
    home = 'deadpool_redis'
    def copy_types(s): return ('PoolConfig', 'Timeouts', 'QueueMode', 'Runtime', 'Duration', 'ProtocolVersion', 'SentinelServerType', 'TlsMode')

    def clone_value(s, M, st, v, strict=True):
        if isinstance(v, Agg) and v.ty in ('String', 'str', 'PathBuf', 'ConnectionInfo', 'ConnectionAddr', 'RedisConnectionInfo', 'SentinelNodeConnectionInfo', 'Vec', 'Option'):
            f = {k: s.clone_value(M, st, x, strict) for k, x in v.f.items()}
            return Agg(v.ty, f, v.variant, v.discr)
        return super().clone_value(M, st, v, strict)

    def disambiguate(s, callee, cands):
        for pre in ('cluster', 'sentinel'):
            if callee.startswith(pre + '::') or f'<{pre}::' in callee: return [c for c in cands if c.startswith(pre + '::')] or cands
        return [c for c in cands if not c.startswith(('cluster::', 'sentinel::'))] or cands

    def t_ToString__to_string(s, M, st, th, ci, a): return s.ret(st, S(sterm(M, st, a[0])))
    def d_PathBuf(s, M, st, th, v): return True

    # the redis crate's client constructors: log exactly what they are given
    def describe(s, M, st, v):
        if isinstance(v, Ref): v = M.deref(st, v)
        if isinstance(v, Agg):
            if v.ty in ('String', 'str', 'PathBuf'): return ('str', v.f[0])
            return (v.ty, v.variant, tuple((k, s.describe(M, st, x)) for k, x in v.f.items()))
        if isinstance(v, Opaque) and v.tag.startswith('str:'): return ('str', sterm(M, st, v))
        return v

    def _client(s, M, st, kind, args):
        outs = []
        for o in ('ok', 'err'):
            st2 = st.clone(); st2.logev('client', kind, tuple(s.describe(M, st2, x) for x in args), o)
            outs.append(('ret', st2, ok(Agg('RedisClient', [Opaque(kind)])) if o == 'ok' else err(Agg('RedisError', [Opaque(kind)]))))
        return outs

    def p_Client__open(s, M, st, th, ci, a): return s._client(M, st, 'Client::open', a)
    def p_ClusterClientBuilder__new(s, M, st, th, ci, a): return s.ret(st, Agg('ClusterClientBuilder', [a[0], False]))
    def p_ClusterClientBuilder__read_from_replicas(s, M, st, th, ci, a): return s.ret(st, a[0].with_field(1, True))
    def p_ClusterClientBuilder__build(s, M, st, th, ci, a): return s._client(M, st, 'ClusterClientBuilder::build', [a[0].f[0], a[0].f[1]])
    def p_SentinelClient__build(s, M, st, th, ci, a): return s._client(M, st, 'SentinelClient::build', a)
    def p_AsyncConnectionConfig__default(s, M, st, th, ci, a): return s.ret(st, Agg('AsyncConnectionConfig', []))
    def p_AsyncConnectionConfig__new(s, M, st, th, ci, a): return s.ret(st, Agg('AsyncConnectionConfig', []))
    def t_Default__default(s, M, st, th, ci, a):
        if ci['self_head'] == 'AsyncConnectionConfig': return s.ret(st, Agg('AsyncConnectionConfig', []))
        if ci['self_head'] == 'i64': return s.ret(st, I(0, 64))
        if ci['self_head'] == 'Option': return s.ret(st, NONE)
        return super().t_Default__default(M, st, th, ci, a)
    def d_RedisClient(s, M, st, th, v): return True
    def d_RedisError(s, M, st, th, v): return True
    def d_AsyncConnectionConfig(s, M, st, th, v): return True
    def d_ClusterClientBuilder(s, M, st, th, v): return None

    def convert_into(s, M, st, th, ci, v):
        """Into::into / From::from between the crate's types and the redis crate's: the crate's own From bodies (MIR)"""
        src = ci['selfty'] if ci['trait_head'] == 'Into' else None
        tgt = None
        if ci['trait'] is not None:
            m = re.match(r'^(?:Into|From)<(.*)>$', ci['trait'].strip())
            if m: tgt = m.group(1).strip()
        if ci['trait_head'] == 'From': src, tgt = tgt, ci['selfty']
        if src is None or tgt is None: return None
        def norm(t): return re.sub(r'\s+', '', t.replace('crate::', '').replace('std::string::', '').replace('std::path::', ''))
        cands = [n for n, f in M.fns.items() if n.endswith('::from') and len(f.params) == 1 and norm(f.params[0][1]) == norm(src) and norm(f.ret) == norm(tgt)]
        if len(cands) == 1:
            M.push_mir(st, th, cands[0], [v]); return [('push', st)]
        if norm(src) == norm(tgt): return s.ret(st, v)
        if isinstance(v, Agg) and v.ty == 'RedisError' and 'ConfigError' in tgt:
            c2 = [n for n, f in M.fns.items() if n.endswith('::from') and len(f.params) == 1 and f.params[0][1].endswith('RedisError')]
            if len(c2) == 1:
                M.push_mir(st, th, c2[0], [v]); return [('push', st)]
        return None

    def convert_err(s, M, st, th, ci, e):
        if isinstance(e, Agg) and e.ty == 'RedisError':
            if 'ConfigError' in ci['selfty']:
                c2 = [n for n, f in M.fns.items() if n.endswith('::from') and len(f.params) == 1 and f.params[0][1].endswith('RedisError')]
                return [('ret', st, err(mk_enum('ConfigError', 'Redis', [e])))] if len(c2) != 1 else [('ret', st, err(mk_enum('ConfigError', 'Redis', [e])))]
            return [('ret', st, err(e))]
        return super().convert_err(M, st, th, ci, e)



def deep_eq(a, b):
    """structural equality of two values as a z3 condition (False on shape mismatch)"""
    if isinstance(a, Agg) and isinstance(b, Agg):
        if a.ty != b.ty or a.variant != b.variant or set(a.f) != set(b.f): return False
        return b_and(*[deep_eq(a.f[k], b.f[k]) for k in a.f])
    if isinstance(a, Agg) or isinstance(b, Agg): return False
    if isinstance(a, Opaque) or isinstance(b, Opaque): return a == b
    if isinstance(a, bool) and isinstance(b, bool): return a == b
    return simp(z(a) == z(b))


class RedisConfigWorld(World):
    def __init__(s, prog):
        super().__init__(prog, RedisEnv())
        s.structs = prog.structs
        E = s.M.enums
        E.setdefault('ConnectionAddr', ['Tcp', 'TcpTls', 'Unix']); E.setdefault('ProtocolVersion', ['RESP2', 'RESP3'])
        E.setdefault('TlsMode', ['Secure', 'Insecure']); E.setdefault('SentinelServerType', ['Master', 'Replica'])
        E.setdefault('ConfigError', ['UrlAndConnectionSpecified', 'Redis'])
        s.n = 0

    def fresh_str(s, name): s.n += 1; return z3.String(f'{name}_{s.n}')

    # ---- symbolic values of the crate's types (variant choices enumerated by the caller)
    def conn_addr(s, variant, tag=''):
        if variant == 'Tcp': return mk_enum('ConnectionAddr', 'Tcp', [S(s.fresh_str('host' + tag)), z3.BitVec(f'port{tag}_{s.n}', 16)])
        if variant == 'TcpTls': return mk_enum('ConnectionAddr', 'TcpTls', [S(s.fresh_str('host' + tag)), z3.BitVec(f'port{tag}_{s.n}', 16), z3.Bool(f'insecure{tag}_{s.n}')])
        return mk_enum('ConnectionAddr', 'Unix', [Agg('PathBuf', [s.fresh_str('path' + tag)])])

    def redis_info(s, user, pw, proto, tag=''):
        s.n += 1
        return Agg('RedisConnectionInfo', [z3.BitVec(f'db{tag}_{s.n}', 64), some(S(s.fresh_str('user' + tag))) if user else NONE,
                                           some(S(s.fresh_str('pw' + tag))) if pw else NONE, mk_enum('ProtocolVersion', proto)])

    def conn_info(s, variant, user, pw, proto, tag=''):
        return Agg('ConnectionInfo', [s.conn_addr(variant, tag), s.redis_info(user, pw, proto, tag)])

    def default_info(s, port):
        return Agg('ConnectionInfo', [mk_enum('ConnectionAddr', 'Tcp', [S(z3.StringVal('127.0.0.1')), I(port, 16)]),
                                      Agg('RedisConnectionInfo', [I(0, 64), NONE, NONE, mk_enum('ProtocolVersion', 'RESP2')])])

    def find_from(s, src, tgt):
        def norm(t): return re.sub(r'\s+', '', t)
        c = [n for n, f in s.M.fns.items() if n.endswith('::from') and len(f.params) == 1 and norm(f.params[0][1]) == src and norm(f.ret) == tgt]
        if len(c) != 1: raise Unmodelled(f'From<{src}> for {tgt}: {len(c)} bodies')
        return c[0]


PAIRS = [('config::ConnectionAddr', 'redis::ConnectionAddr'), ('config::RedisConnectionInfo', 'redis::RedisConnectionInfo'),
         ('config::ConnectionInfo', 'redis::ConnectionInfo'), ('sentinel::config::SentinelNodeConnectionInfo', 'redis::sentinel::SentinelNodeConnectionInfo'),
         ('sentinel::config::TlsMode', 'redis::TlsMode'), ('sentinel::config::SentinelServerType', 'redis::sentinel::SentinelServerType')]


def values_of(W, ty):
    """all variant shapes of a crate-side type, payloads symbolic"""
    out = []
    if ty.endswith('ConnectionAddr'):
        for v in ('Tcp', 'TcpTls', 'Unix'): out.append((v, W.conn_addr(v)))
    elif ty.endswith('RedisConnectionInfo'):
        for u in (False, True):
            for p in (False, True):
                for pr in ('RESP2', 'RESP3'): out.append((f'user={u} pw={p} {pr}', W.redis_info(u, p, pr)))
    elif ty.endswith('SentinelNodeConnectionInfo'):
        for tm in (None, 'Secure', 'Insecure'):
            for ri in (None, (False, False, 'RESP2'), (True, True, 'RESP3'), (True, False, 'RESP2')):
                out.append((f'tls={tm} info={ri}', Agg('SentinelNodeConnectionInfo', [NONE if tm is None else some(mk_enum('TlsMode', tm)),
                                                                                     NONE if ri is None else some(W.redis_info(*ri))])))
    elif ty.endswith('ConnectionInfo'):
        for v in ('Tcp', 'TcpTls', 'Unix'):
            for (u, p, pr) in ((False, False, 'RESP2'), (True, True, 'RESP3'), (True, False, 'RESP2'), (False, True, 'RESP3')):
                out.append((f'{v} user={u} pw={p} {pr}', W.conn_info(v, u, p, pr)))
    elif ty.endswith('TlsMode'):
        out = [(v, mk_enum('TlsMode', v)) for v in ('Secure', 'Insecure')]
    elif ty.endswith('SentinelServerType'):
        out = [(v, mk_enum('SentinelServerType', v)) for v in ('Master', 'Replica')]
    return out


def run_c19(prog, job):
    W = RedisConfigWorld(prog); M = W.M
    nobl = 0; ndis = 0; npaths = 0; vios = []; samples = []

    def oblige(txt, st, cond, detail=None):
        nonlocal nobl, ndis
        nobl += 1
        holds = cond if isinstance(cond, bool) else M.must(st, cond)
        if holds: ndis += 1; return
        m = M.model(st, [] if isinstance(cond, bool) else [z3.Not(z(cond))])
        vios.append({'property': 'C19', 'what': txt, 'detail': detail, 'model': {str(d): str(m[d]) for d in m.decls()} if m is not None else {},
                     'kind': 'redisconfig', 'crates': job['crates'], 'native_case': None})

    # ---------------- conversions: forth and back is the identity (field-wise, all payloads symbolic)
    for a, b in PAIRS:
        forth = W.find_from(a, b); back = W.find_from(b, a)
        for name, x in values_of(W, a):
            st = State()
            for st1, r1 in W.call(st, 'main', forth, [x]):
                npaths += 1
                if r1[0] != 'ok': oblige(f'{a} -> {b} panics for {name}', st1, False); continue
                for st2, r2 in W.call(st1, 'main', back, [r1[1]]):
                    if r2[0] != 'ok': oblige(f'{b} -> {a} panics for {name}', st2, False); continue
                    oblige(f'{a.split("::")[-1]} -> redis -> back preserves every field ({name})', st2, deep_eq(x, r2[1]), detail=f'{x!r} became {r2[1]!r}'[:600])
            if len(samples) < 4: samples.append({'conversion': f'{a} -> {b} -> {a}', 'value': name})

    # ---------------- builder() of the three flavours
    def run_builder(flavour, cfgv, expect):
        nonlocal npaths
        st = State(); root = st.alloc(cfgv)
        fn = W.find('::builder', {'single': 'redis/src/config.rs', 'cluster': 'cluster/config.rs', 'sentinel': 'sentinel/config.rs'}[flavour])
        for st1, r in W.call(st, 'main', fn, [Ref(root)]):
            npaths += 1
            clients = [e for e in st1.log if e[0] == 'client']
            if r[0] != 'ok': oblige(f'{flavour} builder() panics ({expect[0]})', st1, False); continue
            res = r[1]
            if expect[0] == 'both':
                oblige(f'{flavour}: url and connection both given -> UrlAndConnectionSpecified', st1, res.variant == 'Err' and payload(res).variant == 'UrlAndConnectionSpecified')
                oblige(f'{flavour}: no client is constructed when both are given', st1, len(clients) == 0)
                continue
            oblige(f'{flavour}: exactly one client is constructed ({expect[0]})', st1, len(clients) == 1)
            if len(clients) != 1: continue
            c = clients[0]
            oblige(f'{flavour}: a client error becomes ConfigError::Redis, success builds a pool builder ({expect[0]})', st1,
                   (res.variant == 'Ok') if c[3] == 'ok' else (res.variant == 'Err' and payload(res).variant == 'Redis'))
            oblige(f'{flavour}: the client is given exactly the named servers ({expect[0]})', st1, servers_eq(W, st1, c[2], expect[1]), detail=f'got {c[2]!r}'[:500])

    PC = some(Agg('PoolConfig', [z3.BitVec('pool_max_size', 64), Agg('Timeouts', [NONE, NONE, NONE]), mk_enum('QueueMode', 'Fifo')]))
    def servers_eq(W, st, got, exp):
        # got: tuple of described args; exp: list of expected leading args (described)
        e = tuple(W.env.describe(M, st, x) for x in exp)
        if len(got) < len(e): return False
        return b_and(*[desc_eq(g, x) for g, x in zip(got, e)])

    def desc_eq(g, x):
        if isinstance(g, tuple) and isinstance(x, tuple):
            if len(g) != len(x): return False
            if g and g[0] == 'str' and x[0] == 'str': return simp(z(g[1]) == z(x[1]))
            return b_and(*[desc_eq(a, b) for a, b in zip(g, x)])
        if isinstance(g, tuple) or isinstance(x, tuple): return False
        if isinstance(g, (str, type(None))) or isinstance(x, (str, type(None))): return g == x
        if isinstance(g, bool) and isinstance(x, bool): return g == x
        if isinstance(g, Opaque) or isinstance(x, Opaque): return g == x
        return simp(z(g) == z(x))

    # single
    url = S(W.fresh_str('url')); ci = W.conn_info('TcpTls', True, True, 'RESP3')
    fields = W.structs[('redis/src/config.rs', 'Config')]
    def mk(fields, **kw): return Agg('Config', [kw[f] for f in fields])
    run_builder('single', mk(fields, url=some(url), connection=NONE, pool=PC), ('url only', [sref(url.f[0])]))
    run_builder('single', mk(fields, url=NONE, connection=some(ci), pool=PC), ('connection only', [ci]))
    run_builder('single', mk(fields, url=NONE, connection=NONE, pool=PC), ('neither: default local server', [W.default_info(6379)]))
    run_builder('single', mk(fields, url=some(url), connection=some(ci), pool=PC), ('both',))
    # every shape of the connection description (payloads symbolic): naming both is an error whatever the connection looks like
    for variant in ('Tcp', 'TcpTls', 'Unix'):
        for user in (False, True):
            for pw in (False, True):
                for proto in ('RESP2', 'RESP3'):
                    if (variant, user, pw, proto) == ('TcpTls', True, True, 'RESP3'): continue
                    ci2 = W.conn_info(variant, user, pw, proto)
                    run_builder('single', mk(fields, url=some(url), connection=some(ci2), pool=PC), ('both',))
                    run_builder('single', mk(fields, url=NONE, connection=some(ci2), pool=PC), ('connection only', [ci2]))
    # cluster
    cf = W.structs[('redis/src/cluster/config.rs', 'Config')]
    for n in ((0, 1, 2) if job.get('tier') != 'thorough' else (0, 1, 2, 3)):
        urls = [S(W.fresh_str('url')) for _ in range(n)]; cis = [W.conn_info(v, True, False, 'RESP2') for v in ('Tcp', 'Unix', 'TcpTls')[:n]]
        for rfr in (False, True):
            run_builder('cluster', mk(cf, urls=some(Agg('Vec', urls)), connections=NONE, pool=PC, read_from_replicas=rfr), (f'{n} urls', [Agg('Vec', [sref(u.f[0]) for u in urls]), rfr]))
            run_builder('cluster', mk(cf, urls=NONE, connections=some(Agg('Vec', cis)), pool=PC, read_from_replicas=rfr), (f'{n} connections', [Agg('Vec', cis), rfr]))
        run_builder('cluster', mk(cf, urls=some(Agg('Vec', urls)), connections=some(Agg('Vec', cis)), pool=PC, read_from_replicas=False), ('both',))
    run_builder('cluster', mk(cf, urls=NONE, connections=NONE, pool=PC, read_from_replicas=False), ('neither: default local server', [Agg('Vec', [W.default_info(6379)]), False]))
    # sentinel
    sf = W.structs[('redis/src/sentinel/config.rs', 'Config')]
    for n in (1, 2):
        urls = [S(W.fresh_str('url')) for _ in range(n)]; cis = [W.conn_info(v, False, True, 'RESP3') for v in ('TcpTls', 'Tcp')[:n]]
        name = S(W.fresh_str('master'))
        for st_ in ('Master', 'Replica'):
            base = dict(server_type=mk_enum('SentinelServerType', st_), master_name=name, node_connection_info=NONE, pool=PC)
            run_builder('sentinel', mk(sf, urls=some(Agg('Vec', urls)), connections=NONE, **base), (f'{n} urls', [Agg('Vec', [sref(u.f[0]) for u in urls]), name]))
            run_builder('sentinel', mk(sf, urls=NONE, connections=some(Agg('Vec', cis)), **base), (f'{n} connections', [Agg('Vec', cis), name]))
        run_builder('sentinel', mk(sf, urls=some(Agg('Vec', urls)), connections=some(Agg('Vec', cis)), **base), ('both',))
    base = dict(server_type=mk_enum('SentinelServerType', 'Master'), master_name=S(W.fresh_str('master')), node_connection_info=NONE, pool=PC)
    run_builder('sentinel', mk(sf, urls=NONE, connections=NONE, **base), ('neither: default local server', [Agg('Vec', [W.default_info(6379)]), base['master_name']]))

    # ---------------- Default impls (documented defaults)
    for flavour, path, port in (('single', 'redis/src/config.rs', 6379), ('cluster', 'cluster/config.rs', 6379), ('sentinel', 'sentinel/config.rs', 26379)):
        fn = [n for n, f in M.fns.items() if n.endswith('::default') and path in n and f.ret.endswith('config::Config')]
        if len(fn) != 1: raise Unmodelled(f'Default for {flavour} Config')
        for st1, r in W.call(State(), 'main', fn[0], []):
            npaths += 1
            if r[0] != 'ok': oblige(f'{flavour} Config::default() panics', st1, False); continue
            c = r[1]; flds = W.structs[(path if path.startswith('redis') else 'redis/src/' + path, 'Config')]
            d = dict(zip(flds, c.items()))
            conn = d.get('connection') or d.get('connections')
            exp = W.default_info(port)
            got = payload(conn) if conn.variant == 'Some' else None
            if got is not None and got.ty == 'Vec': got = got.f[0] if len(got.f) == 1 else None
            oblige(f'{flavour} Config::default() names the local server 127.0.0.1:{port}', st1, False if got is None else deep_eq(got, exp), detail=repr(got)[:300])
            oblige(f'{flavour} Config::default() has no url', st1, (d.get('url') or d.get('urls')).variant == 'None')
            if flavour == 'sentinel':
                oblige('sentinel Config::default() uses master name "mymaster"', st1, simp(d['master_name'].f[0] == z3.StringVal('mymaster')))
    S_ = M.stats
    return {'states': npaths, 'transitions': npaths, 'obligations': nobl, 'discharged': ndis, 'violations': vios, 'samples': samples, 'complete': True,
            'queries': S_.queries, 'sat': S_.sat, 'unsat': S_.unsat, 'solver_s': round(S_.solver_s, 3), 'cache_hits': S_.cache_hits, 'blocks': S_.blocks,
            'functions': dict(S_.fns), 'models': dict(S_.models), 'dump_s': prog.dump_s,
            'bounds': {'lists': 'urls / connections of length 0..2', 'variants': 'every variant of ConnectionAddr / ProtocolVersion / TlsMode / SentinelServerType, every Option tag of the credentials',
                       'payloads': 'symbolic (z3 String / BitVec / Bool)'},
            'summary': f'{npaths} paths, {ndis}/{nobl} obligations discharged, {len(vios)} violated'}
