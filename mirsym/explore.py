"""Bounded symbolic exploration: breadth-first over harness actions with state merging.
The world object supplies  actions(st) -> list of action tuples,  apply(st, action) -> list of successor states,
check(st_before, action, st_after) -> list of violation records."""
import os, time, random
import z3
from .core import I, Agg, Ref, Opaque, FnItem, UNINIT, is_sym


def canon_value(v, ctx):
    if isinstance(v, I): return ('i', v.v, v.w)
    if isinstance(v, bool) or v is None or isinstance(v, (int, str)): return v
    if is_sym(v): return ('z', v.sexpr())
    if isinstance(v, Ref):
        return ('r', ctx.rid(v.root), tuple(v.path))
    if isinstance(v, Agg):
        if v.ty == 'Instant': return ('inst', ctx.inst(v.f[0]))
        return ('a', v.ty, v.variant if not isinstance(v.variant, str) or not v.ty.startswith('{') else None, v.discr,
                tuple((k, canon_value(x, ctx)) for k, x in v.f.items()))
    if isinstance(v, Opaque):
        return ('o', ctx.name(v.tag))
    if isinstance(v, tuple): return tuple(canon_value(x, ctx) for x in v)
    if isinstance(v, FnItem): return ('fn', v.name)
    if isinstance(v, dict): return tuple(sorted((canon_value(k, ctx), canon_value(x, ctx)) for k, x in v.items()))
    if isinstance(v, frozenset): return tuple(sorted(canon_value(x, ctx) for x in v))
    raise TypeError('canon of ' + repr(type(v)))


class Canon:
    def __init__(s, st, instants):
        s.st = st; s.ren = {}; s.queue = []; s.names = {}
        s.ranks = {t: i for i, t in enumerate(sorted(instants))}

    def rid(s, root):
        r = s.ren.get(root)
        if r is None:
            r = len(s.ren); s.ren[root] = r; s.queue.append(root)
        return r

    def inst(s, t):
        if isinstance(t, I): return s.ranks.get(t.v, t.v)
        return t.sexpr()

    def name(s, tag):
        if tag.startswith(('obj:', 'tk:')):
            n = s.names.get(tag)
            if n is None:
                n = f'{tag.split(":")[0]}#{len(s.names)}'; s.names[tag] = n
            return n
        return tag


def collect_instants(st, acc):
    def walk(v):
        if isinstance(v, Agg):
            if v.ty == 'Instant':
                if isinstance(v.f[0], I): acc.add(v.f[0].v)
                return
            for x in v.f.values(): walk(x)
        elif isinstance(v, tuple):
            for x in v: walk(x)
    for v in st.heap.values(): walk(v)


def state_key(st, roots, ghost_keys):
    inst = set(); collect_instants(st, inst)
    ctx = Canon(st, inst)
    out = []
    for r in roots: ctx.rid(r)
    i = 0
    while i < len(ctx.queue):
        root = ctx.queue[i]; i += 1
        out.append(canon_value(st.heap.get(root, UNINIT), ctx))
    th = []
    for name in sorted(st.threads):
        t = st.threads[name]
        fr = []
        for f in t.stack:
            if f.kind == 'mir':
                fr.append(('m', f.fn.name, f.bb, tuple((l, ctx.rid(r)) for l, r in f.loc.items())))
            else:
                fr.append(('k', f.k, canon_value(tuple(x for x in f.data if not callable(x)), ctx)))
        th.append((name, tuple(fr), t.panicking, t.at_point if not isinstance(t.at_point, tuple) else t.at_point,
                   canon_value(tuple(sorted(t.local.items())), ctx) if t.local else ()))
    while i < len(ctx.queue):
        root = ctx.queue[i]; i += 1
        out.append(canon_value(st.heap.get(root, UNINIT), ctx))
    g = tuple((k, canon_value(st.ghost.get(k), ctx)) for k in ghost_keys)
    pc = tuple(sorted(c.sexpr() for c in st.pc))
    return (tuple(out), tuple(th), g, pc)


class Result:
    def __init__(s):
        s.states = 0; s.transitions = 0; s.merged = 0; s.max_depth = 0; s.violations = []; s.truncated = 0
        s.samples = []; s.actions = {}; s.wall = 0.0; s.complete = True; s.per_depth = []; s.inconclusive = []; s.mem_bound = False


_MEM_MB = int(os.environ.get('VERIF_MEM_MB', '7000'))
def _rss_mb():
    try:
        with open('/proc/self/statm') as f: return int(f.read().split()[1]) * 4096 // (1 << 20)
    except Exception:
        return 0


def bfs(world, init_states, depth, time_budget=None, max_states=None, seed=0, stop_on_violation=True, sample_every=997, focus=None):
    """-> Result.  Frontier states are explored level by level; states with equal canonical form are merged."""
    rng = random.Random(seed)
    R = Result(); t0 = time.time(); c0 = time.process_time()
    seen = {}
    frontier = []
    for st in init_states:
        k = world.key(st)
        if k in seen: continue
        seen[k] = 0; frontier.append(st)
    R.states = len(frontier)
    for d in range(depth):
        nxt = []
        rng.shuffle(frontier)
        for st in frontier:
            acts = world.actions(st)
            rng.shuffle(acts)
            for a in acts:
                # the budget is CPU time of this worker (so that a loaded machine explores the same states, only slower);
                # wall time is capped at 4x as a safety net
                if time_budget is not None and (time.process_time() - c0 > time_budget or time.time() - t0 > 4 * time_budget):
                    R.complete = False; break
                # memory bound (VERIF_MEM_MB per worker, default 7000): the frontier of a thorough-tier family can outgrow the machine when
                # several families run side by side; reaching the bound ends the exploration like the time budget does (reported as truncated)
                if R.transitions % 512 == 0 and _rss_mb() > _MEM_MB:
                    R.complete = False; R.mem_bound = True; break
                succ = world.apply(st, a)
                R.actions[a[0]] = R.actions.get(a[0], 0) + 1
                for st2 in succ:
                    R.transitions += 1
                    st2.depth = d + 1
                    # a violation ends the exploration of that branch - unless it is a known finding, or belongs to another
                    # property than the one this check decides (cross-check oracles must not hide the states behind them)
                    def passes(v): return v.get('known') or (focus is not None and v.get('property') != focus)
                    vio = world.check(st, a, st2)
                    k = None
                    if not vio or all(passes(v) for v in vio):
                        k = world.key(st2)
                        if k in seen:
                            R.merged += 1
                            for v in vio: R.violations.append((v, st2))
                            continue
                        vio = list(vio) + list(world.check_state(st2))
                    if vio:
                        for v in vio: R.violations.append((v, st2))
                        if stop_on_violation and any(not passes(v) for v in vio):
                            R.wall = time.time() - t0; R.max_depth = d + 1; return R
                        if any(not passes(v) for v in vio): continue
                        if k is None:
                            k = world.key(st2)
                            if k in seen:
                                R.merged += 1; continue
                    seen[k] = d + 1; nxt.append(st2); R.states += 1
                    if R.states % sample_every == 1 and len(R.samples) < 12:
                        R.samples.append(world.describe(st2))
                    if max_states is not None and R.states >= max_states:
                        R.complete = False; break
                if not R.complete: break
            if not R.complete: break
        R.per_depth.append(len(nxt))
        R.max_depth = d + 1
        if not R.complete or not nxt:
            if not nxt: R.max_depth = d + 1
            frontier = nxt
            break
        frontier = nxt
    R.truncated = len(frontier) if R.complete else len(frontier)
    if not R.samples and frontier: R.samples.append(world.describe(frontier[0]))
    R.wall = time.time() - t0
    return R
