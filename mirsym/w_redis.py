"""C17: Manager::recycle of deadpool-redis (standalone, sentinel, cluster) from MIR on a model of redis::Pipeline / Cmd.
The ping counter is a symbolic 64-bit value, the server's reply an arbitrary string: freshness and echo checking are decided by z3."""
import re, os
import z3
from .mir import Unmodelled
from .core import (I, Agg, Ref, Opaque, UNINIT, UNIT, NONE, PENDING, mk_enum, some, ok, err, ready, payload, is_sym, simp, z, b_not, b_and,
                   b_or, binop, InternalError, State)
from .managed import World
from .models import Env

TOK = z3.DeclareSort('Tok')     # strings are opaque tokens here: only equality matters (z3's String theory stalls on these queries)
_lits = {}


def lit(text):
    if text not in _lits: _lits[text] = z3.Const('lit_' + re.sub(r'\W', '_', text), TOK)
    return _lits[text]


def S(t): return Agg('String', [t])
def sref(t): return Agg('str', [t])


def sterm(M, st, v):
    if isinstance(v, Ref): v = M.deref(st, v)
    if isinstance(v, Opaque) and v.tag.startswith('str:'):
        t = lit(v.tag[4:].strip('"'))
        known = st.gget('lits', ())
        if not any(t.eq(k) for k in known):
            for k in known: st.assume(t != k)
            st.gset('lits', known + (t,))
        return t
    if isinstance(v, Agg) and v.ty in ('String', 'str'): return v.f[0]
    if is_sym(v): return v
    raise InternalError(f'not a string value: {v!r}'[:200])


class RedisRecycleEnv(Env):
    home = 'deadpool_redis'

    def __init__(s, cfg=None):
        super().__init__()
        s.cfg = {'reply': 'any'}; s.cfg.update(cfg or {})

    def copy_types(s): return ('Metrics',)
    def d_String(s, M, st, th, v): return True
    def d_str(s, M, st, th, v): return True
    def d_Conn(s, M, st, th, v): return True

    def t_PartialEq__eq(s, M, st, th, ci, a):
        r0 = super().t_PartialEq__eq(M, st, th, ci, a)
        if r0 is not None: return r0
        x, y = a
        def un(v):
            while isinstance(v, Ref):
                w = M.deref(st, v)
                if isinstance(w, Ref): v = w
                else: return w
            return v
        tx, ty = sterm(M, st, un(x)), sterm(M, st, un(y))
        if tx.sort() != ty.sort(): raise InternalError(f'string comparison between {tx} : {tx.sort()} and {ty} : {ty.sort()}')
        return s.ret(st, simp(tx == ty))

    def disambiguate(s, callee, cands):
        for pre in ('cluster', 'sentinel'):
            if callee.startswith(pre + '::') or f'<{pre}::' in callee: return [c for c in cands if c.startswith(pre + '::')] or cands
        return [c for c in cands if not c.startswith(('cluster::', 'sentinel::'))] or cands

    # usize -> String: the decimal rendering, injective (z3's int.to.str on the unsigned value)
    def t_ToString__to_string(s, M, st, th, ci, a):
        v = s.tgt(M, st, a[0]) if isinstance(a[0], Ref) else a[0]
        if isinstance(v, I): return s.ret(st, S(s.tostr(st, z(v))))
        if is_sym(v) and z3.is_bv(v): return s.ret(st, S(s.tostr(st, v)))
        return s.ret(st, S(sterm(M, st, v)))

    _TOSTR = z3.Function('usize_to_string', z3.BitVecSort(64), TOK)

    def tostr(s, st, v):
        """decimal rendering as an uninterpreted injective function (injectivity instantiated for the arguments in play)"""
        prev = st.gget('tostr_args', ())
        t = s._TOSTR(v)
        for b in prev:
            st.assume(z3.Implies(v != b, t != s._TOSTR(b)))
        st.gset('tostr_args', prev + (v,))
        return t

    # redis::Pipeline / Cmd as command-list builders
    def p_Pipeline__with_capacity(s, M, st, th, ci, a): return s.ret(st, Agg('Pipeline', [()]))
    def p_Pipeline__new(s, M, st, th, ci, a): return s.ret(st, Agg('Pipeline', [()]))
    def _lit(s, M, st, v):
        try: return sterm(M, st, v)
        except InternalError: return v
    def p_Pipeline__cmd(s, M, st, th, ci, a):
        p = M.deref(st, a[0]); M.write(st, a[0], Agg('Pipeline', [p.f[0] + ((s._lit(M, st, a[1]), (), False),)])); return s.ret(st, a[0])
    def p_Pipeline__ignore(s, M, st, th, ci, a):
        p = M.deref(st, a[0]); cmds = p.f[0]; last = cmds[-1]
        M.write(st, a[0], Agg('Pipeline', [cmds[:-1] + ((last[0], last[1], True),)])); return s.ret(st, a[0])
    def p_Pipeline__arg(s, M, st, th, ci, a):
        p = M.deref(st, a[0]); cmds = p.f[0]; last = cmds[-1]
        M.write(st, a[0], Agg('Pipeline', [cmds[:-1] + ((last[0], last[1] + (s._lit(M, st, a[1]),), last[2]),)])); return s.ret(st, a[0])
    def p___cmd(s, M, st, th, ci, a): return s.ret(st, Agg('Cmd', [((s._lit(M, st, a[0]), (), False),)]))
    p_redis__cmd = p___cmd
    def p_Cmd__arg(s, M, st, th, ci, a):
        p = M.deref(st, a[0]); last = p.f[0][-1]
        M.write(st, a[0], Agg('Cmd', [((last[0], last[1] + (s._lit(M, st, a[1]),), last[2]),)])); return s.ret(st, a[0])
    def _query(s, M, st, th, a, tuple_reply, want='String'):
        p = M.deref(st, a[0]) if isinstance(a[0], Ref) else a[0]
        n = st.gget('n_query', 0); st.gset('n_query', n + 1)
        st.gset('sent', st.gget('sent', ()) + (p.f[0],))
        st.logev('query', n, repr(p.f[0])[:200])
        return s.ret(st, Agg('QueryFut', [I(n), Opaque('fresh'), tuple_reply, Opaque(want)]))
    @staticmethod
    def _want(ci):
        # the type the reply is decoded into (generic argument of query_async): String, or the raw redis::Value
        g = ci['text'].split('query_async', 1)[1] if 'query_async' in ci['text'] else ''
        return 'Value' if re.search(r'\bValue\b', g) else 'String'
    def p_Pipeline__query_async(s, M, st, th, ci, a): return s._query(M, st, th, a, True, s._want(ci))
    def p_Cmd__query_async(s, M, st, th, ci, a): return s._query(M, st, th, a, False, s._want(ci))
    def p_String__as_bytes(s, M, st, th, ci, a): return s.ret(st, a[0])
    p_str__as_bytes = p_String__as_bytes

    def poll_QueryFut(s, M, st, th, fut, fref):
        outs = []; n = fut.f[0].v
        opts = ['reply', 'err'] + (['pending'] if fut.f[1] == Opaque('fresh') else [])
        for o in opts:
            st2 = st.clone(); st2.logev('env', 'reply', n, o)
            if o == 'pending':
                M.write(st2, fref, fut.with_field(1, Opaque('once'))); outs.append(('ret', st2, PENDING)); continue
            M.write(st2, fref, fut.with_field(1, Opaque('done')))
            if o == 'err':
                st2.gset('replies', {**st2.gget('replies', {}), n: ('err', None)}); outs.append(('ret', st2, ready(err(Agg('RedisError', [I(n)]))))); continue
            r = z3.Const(f'reply_{n}', TOK); st2.gset('replies', {**st2.gget('replies', {}), n: ('reply', r)})
            raw = len(fut.f) > 3 and fut.f[3] == Opaque('Value')
            val = mk_enum('Value', 'BulkString', [S(r)]) if raw else S(r)
            outs.append(('ret', st2, ready(ok(Agg('tuple', [val]) if fut.f[2] else val))))
            if raw:
                # decoded as a raw redis::Value the reply may also be something that is not a bulk string at all (decoded as String these are errors)
                for kind in ('Nil', 'Okay', 'SimpleString', 'Int'):
                    st3 = st.clone(); st3.logev('env', 'reply', n, 'other:' + kind)
                    M.write(st3, fref, fut.with_field(1, Opaque('done')))
                    st3.gset('replies', {**st3.gget('replies', {}), n: ('other', kind)})
                    pl = [] if kind in ('Nil', 'Okay') else ([S(z3.Const(f'reply_{n}_s', TOK))] if kind == 'SimpleString' else [z3.BitVec(f'reply_{n}_i', 64)])
                    v3 = mk_enum('Value', kind, pl)
                    outs.append(('ret', st3, ready(ok(Agg('tuple', [v3]) if fut.f[2] else v3))))
        return outs
    def d_Value(s, M, st, th, v): return True
    def d_QueryFut(s, M, st, th, v): return True
    def d_Pipeline(s, M, st, th, v): return True
    def d_Cmd(s, M, st, th, v): return True

    # deadpool core's Object::take is the reference: the wrapper's take must be exactly one call of it on the wrapped object
    def p_Object__take(s, M, st, th, ci, a):
        st.logev('object_take', repr(a[0]))
        st.gset('object_takes', st.gget('object_takes', ()) + (a[0],))
        return s.ret(st, Agg('Taken', [a[0]]))
    def d_Taken(s, M, st, th, v): return True
    def d_PooledObject(s, M, st, th, v):
        st.gset('pooled_dropped', st.gget('pooled_dropped', 0) + 1); return True
    def d_RedisError(s, M, st, th, v): return True
    # classification helpers of the redis crate's error type: the reply that failed may be of either class
    def _either(s, M, st, what):
        outs = []
        for b in (True, False):
            st2 = st.clone(); st2.logev('env', what, b); outs.append(('ret', st2, b))
        return outs
    def p_RedisError__is_unrecoverable_error(s, M, st, th, ci, a): return s._either(M, st, 'is_unrecoverable_error')
    def p_RedisError__is_connection_dropped(s, M, st, th, ci, a): return s._either(M, st, 'is_connection_dropped')
    def p_RedisError__is_io_error(s, M, st, th, ci, a): return s._either(M, st, 'is_io_error')
    def p_RedisError__is_timeout(s, M, st, th, ci, a): return s._either(M, st, 'is_timeout')
    def p_RedisError__is_connection_refusal(s, M, st, th, ci, a): return s._either(M, st, 'is_connection_refusal')
    def p_RedisError__is_cluster_error(s, M, st, th, ci, a): return s._either(M, st, 'is_cluster_error')
    def d_RecycleError(s, M, st, th, v): return True

    def convert_err(s, M, st, th, ci, e):
        if isinstance(e, Agg) and e.ty == 'RedisError': return [('ret', st, err(mk_enum('RecycleError', 'Backend', [e])))]
        return [('ret', st, err(e))]

    def convert_into(s, M, st, th, ci, v):
        if isinstance(v, Opaque) and v.tag.startswith('str:'): return s.ret(st, mk_enum('Cow', 'Borrowed', [v]))
        return None


def redis_value_variants():
    """variant order of redis::Value, read from the crate source in the cargo registry (the discriminants follow it)"""
    import glob, os
    dflt = ['Nil', 'Int', 'BulkString', 'Array', 'SimpleString', 'Okay', 'Map', 'Attribute', 'Set', 'Double', 'Boolean', 'VerbatimString', 'BigNumber', 'Push', 'ServerError']
    try:
        lock = open(os.path.join(os.environ.get('VERIF_REPO', '/repo'), 'Cargo.lock')).read()
        # the version deadpool-redis depends on (the lock file may hold several)
        dep = re.search(r'name = "deadpool-redis"\n(?:.*\n)*?dependencies = \[\n((?:.*\n)*?)\]', lock)
        m = re.search(r'"redis(?: ([0-9][^" ]*))?"', dep.group(1)) if dep else None
        if m and not m.group(1): m = re.search(r'name = "redis"\nversion = "([^"]+)"', lock)
        c = glob.glob(os.path.expanduser(f'~/.cargo/registry/src/*/redis-{m.group(1)}/src/types.rs')) if m else []
        if not c: return dflt
        txt = open(c[0]).read(); i = txt.index('pub enum Value'); body = txt[txt.index('{', i) + 1:]
        body = re.sub(r'//[^\n]*', '', body); body = re.sub(r'#\[[^\]]*\]', '', body)
        out = []; d = 0; cur = ''
        for ch in body:
            if ch in '({[': d += 1
            elif ch in ')}]':
                if d == 0: break
                d -= 1
            if ch == ',' and d == 0: out.append(cur); cur = ''
            else: cur += ch
        if cur.strip(): out.append(cur)
        names = []
        for v in out:
            v = re.sub(r'///[^\n]*|//[^\n]*|#\[[^\]]*\]', '', v).strip()
            mm = re.match(r'^(\w+)', v)
            if mm: names.append(mm.group(1))
        return names or dflt
    except Exception:
        return dflt


def run_c17(prog, job):
    """obligations over recycle() of the three flavours"""
    nobl = 0; ndis = 0; npaths = 0; vios = []; samples = []
    for flavour, path in (('standalone', 'redis/src/lib.rs'), ('sentinel', 'redis/src/sentinel/mod.rs'), ('cluster', 'redis/src/cluster/mod.rs')):
        W = World(prog, RedisRecycleEnv()); M = W.M
        M.enums.setdefault('Cow', ['Borrowed', 'Owned'])
        M.enums.setdefault('Value', redis_value_variants())
        fn = [n for n in M.fns if n.endswith('::recycle') and (path.split('redis/src/')[1] in n if flavour != 'standalone' else ('redis/src/lib.rs' in n))]
        if len(fn) != 1: raise Unmodelled(f'recycle body of the {flavour} manager: {fn}')
        fields = prog.structs[(path, 'Manager')]
        c0 = z3.BitVec('ping_counter', 64)

        def oblige(txt, st, cond, detail=None):
            nonlocal nobl, ndis
            nobl += 1
            holds = cond if isinstance(cond, bool) else M.must(st, cond)
            if holds: ndis += 1; return
            m = M.model(st, [] if isinstance(cond, bool) else [z3.Not(z(cond))])
            vios.append({'property': 'C17', 'what': f'{flavour}: {txt}', 'detail': detail, 'model': {str(d): str(m[d]) for d in m.decls()} if m is not None else {},
                         'kind': 'redisrecycle', 'crates': job['crates'], 'trace': [list(map(str, e)) for e in st.log if e[0] in ('act', 'env', 'query')]})

        def recycle_runs(st, mroot, label):
            """run one recycle to completion (or cancel it at its await); yields (state, outcome) with outcome in Ok / Err / cancelled / panic"""
            nonlocal npaths
            # the pooled value is whatever type recycle() takes: the client library's connection itself, or a struct of the crate that
            # wraps it - then every other field is arbitrary (bookkeeping left behind by the previous user; the raw connection is
            # reachable through Deref / AsMut, so no relation between such a field and the connection's real state can be assumed)
            pty = re.sub(r"^&(?:'\w+ )?(?:mut )?", '', M.fns[fn[0]].params[1][1]).strip()
            sk = [k for k in prog.structs if k[1] == pty.split('::')[-1].split('<')[0] and 'redis/src' in k[0]]
            if sk:
                vals = []
                src = open(os.path.join(os.environ.get('VERIF_REPO', '/repo'), sk[0][0])).read()
                body = re.search(r'struct\s+' + re.escape(sk[0][1]) + r'\b[^{]*\{(.*?)\n\}', src, re.S).group(1)
                for f_ in prog.structs[sk[0]]:
                    ft = re.search(r'\b' + re.escape(f_) + r'\s*:\s*([^,\n]+)', body).group(1).strip()
                    if 'Connection' in ft: vals.append(Agg('Conn', [Opaque('conn')]))
                    elif ft == 'bool': vals.append(z3.Bool(f'pooled_{f_}_{label}'))
                    elif ft in ('usize', 'u64'): vals.append(st.fresh(f'pooled_{f_}'))
                    else: raise Unmodelled(f'field {f_}: {ft} of the pooled type {pty}')
                conn = st.alloc(Agg(sk[0][1], vals))
            else:
                conn = st.alloc(Agg('Conn', [Opaque('conn')]))
            st.log = st.log + (('act', 'recycle', label),)
            res = []
            # the metrics of the object are arbitrary: first reuse (never recycled) or any later one (symbolic count, symbolic idle time)
            starts = []
            for shape in ('first', 'later'):
                s0 = st.clone()
                if shape == 'first': met = s0.alloc(Agg('Metrics', [Agg('Instant', [I(0)]), NONE, I(0)]))
                else:
                    rc = s0.fresh('met_recycle_count'); s0.assume(z3.UGT(rc, 0))
                    met = s0.alloc(Agg('Metrics', [Agg('Instant', [I(0)]), some(Agg('Instant', [I(1)])), rc]))
                s0.log = s0.log + (('env', 'metrics', shape),)
                starts.append((s0, met))
            for st0, met in starts:
              for st1, r in W.call(st0, 'A', fn[0], [Ref(mroot), Ref(conn), Ref(met)]):
                  fr = st1.alloc(r[1])
                  work = [st1]
                  for _ in range(3):
                      nxt = []
                      for x in work:
                          for y, r2 in W.dispatch(x, 'A', '<F as Future>::poll', [Agg('Pin', [Ref(fr)]), UNIT]):
                              npaths += 1
                              if r2[0] != 'ok': res.append((y, 'panic')); continue
                              p = r2[1]
                              if p.variant == 'Pending':
                                  # abandoned at the await (timeout / dropped get)
                                  yc = y.clone(); fut = yc.heap.pop(fr); yc.log = yc.log + (('act', 'cancel', label),)
                                  for w_, _r in W.drop(yc, 'A', [fut]): res.append((w_, 'cancelled'))
                                  nxt.append(y)
                              else:
                                  y.heap.pop(fr, None); res.append((y, payload(p).variant))
                      work = nxt
                      if not work: break
            return res

        def check_one(st, out, idx, c_expected):
            """obligations for the idx-th recycle of this history"""
            sent = st.gget('sent', ()); replies = st.gget('replies', {})
            if len(sent) <= idx: oblige('recycle() sent no command', st, False); return None
            cmds = sent[idx]
            names = [c[0] for c in cmds]
            if flavour == 'standalone':
                okshape = len(cmds) == 2 and not is_sym(names[0]) is False
                oblige('the server receives exactly UNWATCH (reply ignored) followed by PING <n>', st,
                       len(cmds) == 2 and b_and(simp(names[0] == lit('UNWATCH')), cmds[0][2] is True, len(cmds[0][1]) == 0,
                                                simp(names[1] == lit('PING')), cmds[1][2] is False, len(cmds[1][1]) == 1) if len(cmds) == 2 else False,
                       detail=repr(cmds)[:300])
            else:
                oblige('the server receives PING <n>', st, len(cmds) == 1 and b_and(simp(names[0] == lit('PING')), len(cmds[0][1]) == 1) if len(cmds) == 1 else False, detail=repr(cmds)[:300])
            ping = cmds[-1]
            if len(ping[1]) != 1: return None
            n_sent = ping[1][0]
            if out == 'Ok':
                rep = replies.get(idx)
                oblige('recycle() accepts only a reply that echoes the PING value', st, rep is not None and rep[0] == 'reply' and simp(rep[1] == n_sent))
            if out == 'Err' and idx in replies and replies[idx][0] == 'reply':
                oblige('recycle() rejects only a reply that does not echo the PING value', st, simp(z3.Not(replies[idx][1] == n_sent)))
            if out == 'panic': oblige('recycle() panicked', st, False)
            return n_sent

        # ---- Connection::take(this) == managed::Object::take(this.conn)
        tk = [n for n in M.fns if n.endswith('::take') and (path.split('redis/src/')[1] in n if flavour != 'standalone' else ('redis/src/lib.rs' in n)) and M.fns[n].crate == 'deadpool_redis']
        if len(tk) != 1: raise Unmodelled(f'Connection::take of the {flavour} flavour: {tk}')
        stt = State(); stt.log = (('init', flavour), ('act', 'take'))
        pooled = Agg('PooledObject', [Opaque('the-pooled-connection')])
        try:
            outs_t = W.call(stt, 'A', tk[0], [Agg('Connection', [pooled])])
        except Exception as e:
            # the pooled object is an opaque stand-in: anything but handing it to Object::take cannot be followed - and is not "exactly as taking the underlying object does"
            outs_t = []
            oblige(f'Connection::take only hands the wrapped object to Object::take (it does something else: {str(e)[:120]})', stt, False)
        npaths += len(outs_t)
        if outs_t: oblige('Connection::take runs to completion on exactly one path', stt, len(outs_t) == 1 and outs_t[0][1][0] == 'ok')
        for st_t, r_t in outs_t:
            takes = st_t.gget('object_takes', ())
            oblige('Connection::take takes the underlying object exactly once (Object::take on the wrapped object)', st_t, len(takes) == 1 and takes[0] is pooled)
            oblige('Connection::take returns what Object::take returned', st_t, r_t[0] == 'ok' and ((isinstance(r_t[1], Agg) and r_t[1].ty == 'Taken' and r_t[1].f[0] is pooled) or r_t[1] is pooled))     # the taken value, or (a pooled wrapper struct) the connection inside it
            oblige('Connection::take talks to nobody else (no command is sent, the pooled object is not dropped behind the pool\'s back)', st_t,
                   not st_t.gget('sent', ()) and not st_t.gget('pooled_dropped'))

        base = State()
        mvals = {'client': Agg('RedisClient', []), 'ping_number': Agg('Atomic', [c0]), 'connection_config': Agg('AsyncConnectionConfig', [])}
        mroot = base.alloc(Agg('Manager', [mvals[f] for f in fields]))
        base.log = (('init', flavour),)
        for st1, out1 in recycle_runs(base, mroot, 'first'):
            n1 = check_one(st1, out1, 0, c0)
            if len(samples) < 4: samples.append({'flavour': flavour, 'first': out1})
            if n1 is None: continue
            # a second recycle on the same pool (whatever happened to the first) must use a value not used before
            for st2, out2 in recycle_runs(st1.clone(), mroot, 'second'):
                n2 = check_one(st2, out2, 1, binop('Add', c0, I(1)))
                if n2 is None: continue
                oblige(f'the PING value of a recycle after one that ended {out1} has not been used before on this pool', st2, simp(z3.Not(n1 == n2)))
                for st3, out3 in (recycle_runs(st2.clone(), mroot, 'third') if job['tier'] == 'thorough' else []):
                    n3 = check_one(st3, out3, 2, binop('Add', c0, I(2)))
                    if n3 is not None: oblige('the third PING value is fresh', st3, b_and(simp(z3.Not(n3 == n1)), simp(z3.Not(n3 == n2))))
        S_ = M.stats
    return {'states': npaths, 'transitions': npaths, 'obligations': nobl, 'discharged': ndis, 'violations': vios, 'samples': samples, 'complete': True,
            'queries': S_.queries, 'sat': S_.sat, 'unsat': S_.unsat, 'solver_s': round(S_.solver_s, 3), 'cache_hits': S_.cache_hits, 'blocks': S_.blocks,
            'functions': dict(S_.fns), 'models': dict(S_.models), 'dump_s': prog.dump_s,
            'bounds': {'recycles_per_history': 3 if job['tier'] == 'thorough' else 2, 'ping_counter': 'symbolic 64-bit', 'reply': 'arbitrary string / error / never (cancelled at the await)'},
            'summary': f'{npaths} paths, {ndis}/{nobl} obligations discharged, {len(vios)} violated'}
