"""Bounded symbolic exploration world for the unmanaged pool: properties C05, C12 and the unmanaged part of C10."""
import z3
from .mir import Unmodelled
from .core import (I, Agg, Ref, Opaque, UNINIT, UNIT, NONE, mk_enum, some, payload, is_sym, simp, z, b_not, b_and, b_or,
                   binop, InternalError, State, Thread)
from .managed import ManagedEnv, World
from .w_managed import ManagedBSE, dur, _events_since_act
from . import explore

GHOST_KEYS_U = ('objs', 'closed_ret', 'where', 'flags')


class UnmanagedBSE(ManagedBSE):
    """world: one unmanaged Pool<Obj>; tasks T1..Tn; controller C.  Objects are harness-owned identity tags."""

    def __init__(s, prog, cfg):
        c = {
            'tasks': 2, 'max_gets': 9, 'max_size_bound': 2, 'depth': 6, 'env': {}, 'ctor': 'new',    # new | from_config | from_vec
            'initial': 0,                                   # objects passed to From<Vec> (ctor from_vec)
            'get_variants': ['get'],                        # get | try_get | ('timeout_get', None|'zero'|'pos') | remove | try_remove
            'add_variants': ['try_add'],                    # add | try_add
            'max_adds': 3, 'runtime': True, 'config_timeout': None,
            'ctl': (), 'max_ctl': 1, 'take': True, 'cancel': True, 'oracles': ('C05',), 'thread_mode': False, 'probe': False,
            'hooks': (), 'lifo': False, 'timeout_variants': [None], 'pool_timeouts': (None, None, None), 'resize_targets': (),
        }
        c.update(cfg); s.cfg = c
        env = dict(c['env']); env['unmanaged'] = True
        s.W = World(prog, ManagedEnv(env))
        s.M = s.W.M
        s.M.task_mode = not c['thread_mode']
        s.M.fine_points = bool(c.get('fine')); s.M.allow_block = True
        s.tasks = list(c.get('task_names') or [f'T{i + 1}' for i in range(c['tasks'])])
        s.nprobes = 0; s.susp = {}
        s.U = lambda suf: s.W.find(suf, 'src/unmanaged/mod.rs')

    # ------------------------------------------------------------- construction
    def new_obj(s, st):
        k = st.gget('n_obj', 0) + 1; st.gset('n_obj', k); oid = f'obj:{k}'
        s.W.env.g_obj(st, oid)
        return Agg('Obj', [Opaque(oid)]), oid

    def init_states(s):
        st = State()
        if s.cfg.get('max_size_concrete') is not None: ms = I(s.cfg['max_size_concrete'])
        else:
            ms = z3.BitVec('max_size', 64); st.assume(z3.ULE(ms, s.cfg['max_size_bound']))
        ctor = s.cfg['ctor']; where = {}
        W = s.W
        if ctor == 'new':
            outs = W.call(st, 'main', s.U('::new'), [ms])
        elif ctor == 'from_config':
            cfgs = W.call(st, 'main', s.W.find('::new', 'unmanaged/config.rs'), [ms])
            outs = []
            for st1, r in cfgs:
                pc = r[1]
                tmo = s.cfg['config_timeout']
                # PoolConfig { max_size, timeout, runtime }: set through the public fields (declaration order read from the value built by new())
                pc = Agg(pc.ty, [pc.f[0], NONE if tmo is None else some(s.tv(st1, tmo, 'cfg')), some(mk_enum('Runtime', 'Tokio1')) if s.cfg['runtime'] else NONE])
                root = st1.alloc(pc)
                outs.extend(W.call(st1, 'main', s.U('::from_config'), [Ref(root)]))
        else:
            n = s.cfg['initial']; items = []
            for i in range(n):
                o, oid = s.new_obj(st); items.append(o); where[oid] = 'pool'
            ms = I(n)
            outs = W.call(st, 'main', s.U('::from'), [Agg('Vec', items)])
        res = []
        for st1, r in outs:
            if r[0] != 'ok':
                st1.gset('build_result', r); res.append(st1); continue
            proot = st1.alloc(r[1])
            st1.gset('pool', proot); st1.gset('max_size', ms); st1.gset('where', dict(where)); st1.gset('flags', ())
            if 'objs' not in st1.ghost: st1.gset('objs', {})
            for t in s.tasks + ['C', 'S']:
                th = W.thread(st1, t); th.local = {'gets': 0, 'objs': (), 'nctl': 0, 'adds': 0}
            st1.threads.pop('main', None)
            st1.gset('build_log', st1.log)
            st1.log = (('init', ctor),)
            res.append(st1)
        if s.cfg.get('prefix'):
            saved = s.M.task_mode; s.M.task_mode = True
            try:
                for a in s.cfg['prefix']:
                    res = [y for x in res if x.gget('pool') is not None for y in s.apply(x, tuple(a))]
            finally:
                s.M.task_mode = saved
        return res

    def tv(s, st, v, name):
        if v == 'zero': return dur(0)
        if v == 'sub' and f'ns_{name}' in (s.cfg.get('sub_values') or {}):
            return Agg('Duration', [I(0), I(int(s.cfg['sub_values'][f'ns_{name}']), 32)])        # concrete re-execution of a replayed trace
        if v == 'sub':
            # a positive duration below one second (symbolic nanoseconds): truncating accessors (as_millis, as_secs, ...) differ from as_nanos here
            n = z3.BitVec(f'ns_{name}', 32); st.assume(z3.And(z3.UGT(n, 0), z3.ULT(n, 1000000000)))
            st.gset('sub_durs', st.gget('sub_durs', ()) + (f'ns_{name}',))
            return Agg('Duration', [I(0), n])
        x = z3.BitVec(f'dur_{name}', 64); st.assume(z3.UGT(x, 0)); return dur(x)

    # ------------------------------------------------------------- actions
    def actions(s, st):
        if st.gget('pool') is None: return []
        acts = []
        for t in s.tasks + ['C']:
            if st.threads[t].stack and not s.blocked(st, t): acts.append(('step', t))
        nadds = sum(st.threads[t].local['adds'] for t in s.tasks)
        for t in s.tasks:
            th = st.threads[t]; L = th.local
            if th.stack: continue
            if 'fut' in L:
                acts.append(('poll', t))
                if s.cfg['cancel']: acts.append(('cancel', t))
                continue
            roles = (s.cfg.get('task_roles') or {}).get(t) or ('get', 'add', 'drop', 'take')
            if 'get' in roles and L['gets'] < s.cfg.get('max_gets', 99):
                for i, v in enumerate(s.cfg['get_variants']): acts.append(('uget', t, i))
            if 'add' in roles and nadds < s.cfg['max_adds'] and L['adds'] < s.cfg.get('max_adds_task', 99):
                for i, v in enumerate(s.cfg['add_variants']): acts.append(('uadd', t, i))
            if 'close' in roles and L.get('closes', 0) < 1: acts.append(('tclose', t))      # a second closer: close() called by a task thread
            if L['objs']:
                if 'drop' in roles: acts.append(('drop', t, 0))
                if 'drop' in roles and s.cfg.get('unwinding_drop'): acts.append(('drop', t, 0, 'unwinding'))     # the holder panics: the Object is returned while its thread unwinds
                if s.cfg['take'] and 'take' in roles: acts.append(('take', t, 0))
        C = st.threads['C'].local
        if C['nctl'] < s.cfg['max_ctl'] and not st.threads['C'].stack:
            for a in s.cfg['ctl']: acts.append((a,))
        return acts

    def thread_of(s, a):
        if a[0] in ('uget', 'uadd', 'poll', 'cancel', 'drop', 'take', 'step', 'tclose'): return a[1]
        return 'C'

    # ------------------------------------------------------------- operations
    def begin(s, st, t, a):
        kind = a[0]; proot = st.gget('pool'); th = st.threads[t]; th.result = None; M = s.M; L = th.local
        ac = bool(st.gget('closed_ret')); cs = bool(st.gget('close_started'))
        if kind == 'uget':
            v = s.cfg['get_variants'][a[2]]
            name = v if isinstance(v, str) else v[0]
            L['gets'] += 1; L['cur_after_close'] = ac; L['cur_close_started'] = cs
            # the timeout that governs this call: 'try' (never waits), None, 'zero' or 'pos'
            L['cur_tv'] = 'try' if name in ('try_get', 'try_remove') else (s.cfg['config_timeout'] if name in ('get', 'remove') else v[1])
            if L['cur_tv'] == 'sub': L['cur_tv'] = 'pos'       # the oracles only distinguish no / zero / positive timeout
            if name in ('try_get', 'try_remove'):
                s.set_op(st, t, a, 'sync_get', variant=name)
                M.push_mir(st, th, s.U('::' + name), [Ref(proot)]); return [st]
            s.set_op(st, t, a, 'started', variant=name)
            if name in ('get', 'remove'):
                M.push_mir(st, th, s.U('::' + name), [Ref(proot)])
            else:
                tv = v[1]
                arg = NONE if tv is None else some(s.tv(st, tv, f'{t}_{L["gets"]}'))
                M.push_mir(st, th, s.U('::' + name), [Ref(proot), arg])
            return [st]
        if kind == 'uadd':
            v = s.cfg['add_variants'][a[2]]
            o, oid = s.new_obj(st); L['adds'] += 1; L['cur_after_close'] = ac; L['cur_close_started'] = cs
            w = dict(st.gget('where')); w[oid] = 'adding'; st.gset('where', w)
            st.logev('add_call', oid, t, v)
            if v == 'try_add':
                s.set_op(st, t, a, 'sync_add', oid=oid)
                M.push_mir(st, th, s.U('::try_add'), [Ref(proot), o]); return [st]
            s.set_op(st, t, a, 'started', variant='add', oid=oid)
            M.push_mir(st, th, s.U('::add'), [Ref(proot), o]); return [st]
        if kind == 'poll':
            op0 = L.get('pending_variant')
            s.set_op(st, t, a, 'polling', variant=op0[0], oid=op0[1])
            return s.push_poll(st, t)
        if kind == 'cancel':
            fut = st.heap.pop(L.pop('fut')); s.note_susp(fut)
            op0 = L.pop('pending_variant')
            if op0[1] is not None:
                # the object moved into a cancelled add() future is dropped with the future: the caller gave it up
                w = dict(st.gget('where')); w[op0[1]] = 'dropped_by_caller'; st.gset('where', w)
            s.set_op(st, t, a, 'dropping', res=('cancelled',))
            M.start_drop(st, th, [fut]); return [st]
        if kind in ('drop', 'take'):
            objs = list(L['objs']); oroot = objs.pop(a[2]); L['objs'] = tuple(objs)
            obj = st.heap.pop(oroot); oid = s.obj_id(st, obj)
            w = dict(st.gget('where'))
            if kind == 'drop':
                w[oid] = 'returning'; st.gset('where', w)
                unw = len(a) > 3 and a[3] == 'unwinding'
                if unw: th.panicking = True          # std::thread::panicking() is true while the Object's Drop runs
                s.set_op(st, t, a, 'dropping', res=('ok',), oid=oid, ret=True, after_close=bool(st.gget('closed_ret')), unwinding=unw)
                M.start_drop(st, th, [obj])
            else:
                s.set_op(st, t, a, 'taking', oid=oid)
                M.push_mir(st, th, s.U('::take'), [obj])
            return [st]
        if kind == 'tclose':
            L['closes'] = L.get('closes', 0) + 1; st.gset('close_started', True)
            s.set_op(st, t, a, 'simple'); M.push_mir(st, th, s.U('::close'), [Ref(proot)]); return [st]
        st.threads['C'].local['nctl'] += 1
        if kind == 'status':
            s.set_op(st, t, a, 'simple'); M.push_mir(st, th, s.U('::status'), [Ref(proot)])
        elif kind == 'close':
            st.gset('close_started', True)
            s.set_op(st, t, a, 'simple'); M.push_mir(st, th, s.U('::close'), [Ref(proot)])
        elif kind == 'is_closed':
            s.set_op(st, t, a, 'simple'); M.push_mir(st, th, s.W.find('::is_closed', 'src/unmanaged/mod.rs', ':151:'), [Ref(proot)])
        else:
            raise ValueError(a)
        return [st]

    def got_object(s, st, t, a, val, removed):
        """a get-like call returned Ok: `val` is an Object (get) or the raw value (remove)"""
        L = st.threads[t].local
        oid = s.obj_id(st, val)
        w = dict(st.gget('where'))
        dup = w.get(oid) not in ('pool', 'returning', 'adding')
        if removed:
            w[oid] = 'handed_back'; st.gset('where', w)
            s.W.env.g_obj(st, oid, handed='+1'); st.logev('handed', oid, 'remove')
            if dup: st.gset('flags', st.gget('flags', ()) + (('dup', oid),))
            s.set_op(st, t, a, 'dropping', res=('ok', 'removed'), oid=oid)
            s.M.start_drop(st, st.threads[t], [val]); return [st]
        w[oid] = 'held:' + t; st.gset('where', w)
        if dup: st.gset('flags', st.gget('flags', ()) + (('dup', oid),))
        oroot = st.alloc(val); L['objs'] = L['objs'] + (oroot,)
        st.logev('handout', oid, t)
        return s.end_op(st, t, a, ('ok', 'object'), oid=oid)

    def err_desc(s, e): return e.variant

    def op_next(s, st, t, op, result):
        a, phase, data = op; th = st.threads[t]; L = th.local; th.result = None
        if phase == 'sync_get':
            if result[0] != 'ok': return s.end_op(st, t, a, ('panic',))
            r = result[1]
            if r.variant == 'Ok': return s.got_object(st, t, a, payload(r), data['variant'] == 'try_remove')
            return s.end_op(st, t, a, ('err', s.err_desc(payload(r))))
        if phase == 'sync_add':
            if result[0] != 'ok': return s.end_op(st, t, a, ('panic',), oid=data['oid'])
            return s.add_result(st, t, a, result[1], data['oid'])
        if phase == 'started':
            if result[0] != 'ok': return s.end_op(st, t, a, ('panic',))
            L['fut'] = st.alloc(result[1]); L['pending_variant'] = (data['variant'], data.get('oid'))
            s.set_op(st, t, a, 'polling', variant=data['variant'], oid=data.get('oid'))
            return s.push_poll(st, t)
        if phase == 'polling':
            if result[0] != 'ok':
                fut = st.heap.pop(L.pop('fut')); L.pop('pending_variant', None); th.panicking = False
                s.set_op(st, t, a, 'dropping', res=('panic',)); s.M.start_drop(st, th, [fut]); return [st]
            p = result[1]
            if p.variant == 'Pending': return s.end_op(st, t, a, ('pending',))
            st.heap.pop(L.pop('fut')); L.pop('pending_variant', None)
            res = payload(p)
            if data['variant'] == 'add': return s.add_result(st, t, a, res, data['oid'])
            if res.variant == 'Ok': return s.got_object(st, t, a, payload(res), data['variant'] in ('remove', 'timeout_remove'))
            return s.end_op(st, t, a, ('err', s.err_desc(payload(res))))
        if phase == 'dropping':
            if data.get('unwinding'): st.threads[t].panicking = False
            res = data['res'] if result[0] == 'ok' else result
            if data.get('ret') and result[0] == 'ok':
                oid = data['oid']; w = dict(st.gget('where'))
                if w.get(oid) == 'returning':
                    w[oid] = 'destroyed' if st.gget('objs')[oid]['destroyed'] else 'pool'; st.gset('where', w)
            return s.end_op(st, t, a, res, **{k: v for k, v in data.items() if k not in ('res', 'ret', 'unwinding')})
        if phase == 'taking':
            if result[0] != 'ok': return s.end_op(st, t, a, result, oid=data['oid'])
            oid = data['oid']; w = dict(st.gget('where')); w[oid] = 'handed_back'; st.gset('where', w)
            s.W.env.g_obj(st, oid, handed='+1'); st.logev('handed', oid, 'take')
            s.set_op(st, t, a, 'dropping', res=('ok', 'taken'), oid=oid); s.M.start_drop(st, th, [result[1]]); return [st]
        if phase == 'simple':
            if a[0] in ('close', 'tclose') and result[0] == 'ok': st.gset('closed_ret', True)
            return s.end_op(st, t, a, result)
        raise InternalError('op phase ' + phase)

    def add_result(s, st, t, a, r, oid):
        w = dict(st.gget('where'))
        if r.variant == 'Ok':
            if w.get(oid) == 'adding':
                w[oid] = 'pool' if not st.gget('objs')[oid]['destroyed'] else 'destroyed'; st.gset('where', w)
            return s.end_op(st, t, a, ('ok', 'added'), oid=oid)
        tup = payload(r); back = tup.f[0]; e = tup.f[1]
        bid = s.obj_id(st, back)
        w[oid] = 'handed_back'; st.gset('where', w)
        s.W.env.g_obj(st, bid, handed='+1'); st.logev('handed', bid, 'refused_add')
        s.set_op(st, t, a, 'dropping', res=('err', s.err_desc(e)), oid=oid, back=bid)
        s.M.start_drop(st, st.threads[t], [back]); return [st]

    # ------------------------------------------------------------- key / observe
    def key(s, st):
        roots = []
        if st.gget('pool') is not None: roots.append(st.gget('pool'))
        for t in sorted(st.threads):
            L = st.threads[t].local
            if 'fut' in L: roots.append(L['fut'])
            roots.extend(L.get('objs', ()))
        return explore.state_key(st, roots, GHOST_KEYS_U)

    def observe(s, st):
        if st.gget('pool') is None: return None, None
        if s.any_lock_held(st): return 'panic', 'panic'
        sc = st.clone(); r = s.W.call(sc, 'S', s.U('::status'), [Ref(sc.gget('pool'))])
        sc = st.clone(); r2 = s.W.call(sc, 'S', s.U('::verif_snapshot'), [Ref(sc.gget('pool'))])
        if r[0][1] is None or r2[0][1] is None or r[0][1][0] != 'ok' or r2[0][1][0] != 'ok': return 'panic', 'panic'
        S = r[0][1][1]; N = r2[0][1][1]
        def val(x): return (x.signed() if x.w == 64 and x.v >> 63 else x.v) if isinstance(x, I) else (bool(x) if isinstance(x, bool) else repr(x))
        s._raw_slots = (N.f[1], N.f[6])         # size_semaphore permits and max_size as the engine's values (possibly symbolic)
        return [val(S.f[i]) for i in range(4)], {'permits': val(N.f[0]), 'size_permits': val(N.f[1]), 'closed': val(N.f[2]), 'size': val(N.f[3]),
                                                  'available': val(N.f[4]), 'queue': val(N.f[5]), 'max_size': val(N.f[6])}

    def semaphores(s, st):
        found = []
        def walk(v):
            if isinstance(v, Agg):
                if v.ty == 'Semaphore': found.append(v); return
                if v.ty == 'Obj': return
                for x in v.f.values(): walk(x)
        pool = st.heap[st.gget('pool')]
        walk(st.heap[pool.f[0].f[0].root])
        return found

    def queued_tasks(s, st):
        queued = set()
        for sem in s.semaphores(st): queued.update(sem.f[2])
        res = []
        for t in s.tasks:
            L = st.threads[t].local
            if 'fut' not in L: continue
            tk = s.find_ticket(st.heap[L['fut']])
            if tk is not None and tk in queued: res.append(t)
        return res

    # ------------------------------------------------------------- oracles
    def digest(s, st0, a, st):
        V = []
        def vio(prop, what, **kw): V.append(s.vio(prop, what, st, **kw))
        last = st.gget('last') or {}; res = last.get('res'); done = last.get('done', True)
        ev = _events_since_act(st)
        closed = st.gget('closed_ret'); w = st.gget('where', {}); objs = st.gget('objs', {})
        closing = st.gget('close_started')
        for f in st.gget('flags', ()):
            if f[0] == 'dup': vio('C05', f'object {f[1]} was handed out while it was not in the pool (duplicated)')
        # destroyed while the pool is open and responsible for it
        for e in ev:
            if e[0] == 'destroy':
                oid = e[1]; place = st0.gget('where', {}).get(oid) if st0 is not None else None
                if place in ('pool', 'returning', 'adding') and not closing and w.get(oid) not in ('handed_back', 'dropped_by_caller'):
                    if objs[oid]['handed'] == 0:
                        vio('C05', f'object {oid} was dropped by the open pool')
        w2 = dict(w); ch = False
        for e in ev:
            if e[0] == 'destroy' and w2.get(e[1]) in ('pool', 'returning', 'adding'): w2[e[1]] = 'destroyed'; ch = True
        if ch: st.gset('where', w2); w = w2
        if not done: return V
        # results after close
        if res and res[0] == 'ok' and res[1:2] in (('object',), ('removed',)) and a[0] in ('uget', 'poll') and s.started_after_close(st, a):
            vio('C12', 'a get issued after close() returned yielded an object')
        if res and res[0] == 'err' and a[0] in ('uget', 'poll') and res[1] not in ('Closed', 'NoRuntimeSpecified') and s.started_after_close(st, a):
            vio('C12', f'a get issued after close() returned reported {res[1]}, not Closed')
        if res and res[0] == 'panic' and not any(e[0] == 'panic' and e[2] == 'user' for e in st.log):
            vio('C12', 'an unmanaged pool call panicked')
        # ---- C10 (unmanaged part): the single timeout follows the same rules as the managed pool's wait timeout
        tL = st.threads[s.thread_of(a)].local if a[0] in ('uget', 'poll') else None
        is_get = a[0] == 'uget' or (a[0] == 'poll' and st0 is not None and (st0.threads[a[1]].local.get('pending_variant') or ('add',))[0] != 'add')
        if tL is not None and is_get and res:
            tv = tL.get('cur_tv'); rt = s.cfg['runtime']
            expired = any(e[0] == 'env' and e[1] == 'timer' and 'expired' in e for e in ev)
            if res[0] == 'pending':
                if tv in ('zero', 'try'): vio('C10', 'a get with a zero timeout (or try_get) is waiting for an object')
                if tv == 'pos' and not rt: vio('C10', 'a get with a timeout but without a runtime is waiting instead of reporting NoRuntimeSpecified')
            elif res[0] == 'err':
                if res[1] == 'Closed' and not st.gget('close_started'):
                    vio('C12', 'a get reported Closed although close() was never called'); vio('C05', 'a get reported Closed on an open pool')
                if res[1] == 'Timeout':
                    if tv is None: vio('C10', 'a get without any timeout reported Timeout')
                    elif tv == 'pos' and not expired: vio('C10', 'Timeout was reported although the deadline had not passed')
                    elif tv in ('zero', 'try') and st0 is not None and not s.cfg['thread_mode'] and not st0.gget('close_started'):
                        # an object that is not promised to an earlier waiter (the semaphore is fair) must be handed out
                        snap0 = s.observe(st0)[1]
                        if isinstance(snap0, dict) and isinstance(snap0.get('permits'), int) and snap0['permits'] > 0:
                            vio('C10', f'a non-blocking get reported Timeout although {snap0["permits"]} object(s) were free in the pool')
                elif res[1] == 'NoRuntimeSpecified' and not (tv == 'pos' and not rt):
                    vio('C10', f'NoRuntimeSpecified reported for a get with timeout {tv} and runtime {"present" if rt else "absent"}')
            elif res[0] == 'ok' and tv == 'pos' and not rt:
                vio('C10', 'a get with a non-zero timeout but without a runtime yielded an object instead of NoRuntimeSpecified')
        if a[0] == 'uadd' and res:
            v = s.cfg['add_variants'][a[2]]
            n_resp = s.n_responsible(st0) if st0 is not None else 0
            # adders that are already waiting (or have been promised the freed slot) come first: the semaphore is fair
            n_wait = sum(1 for t2 in s.tasks if st0.threads[t2].local.get('pending_variant', (None,))[0] == 'add')
            if res[0] == 'err':
                if last.get('back') != last.get('oid'): vio('C05', f'a refused add did not hand back the object that was passed in')
                if res[1] == 'Timeout':
                    if v != 'try_add': vio('C05', 'add() returned Timeout')
                    elif not s.cfg['thread_mode'] and s.M.feasible(st, z(binop('Lt', I(n_resp + n_wait), st.gget('max_size')))):
                        vio('C05', f'try_add() reported Timeout although the pool held only {n_resp} objects')
                if res[1] == 'Closed' and not st.gget('close_started'): vio('C12', 'add reported Closed on an open pool')
                if res[1] != 'Closed' and s.started_after_close(st, a): vio('C12', f'{v}() issued after close() returned reported {res[1]}, not Closed')
            if res[0] == 'ok':
                if s.started_after_close(st, a): vio('C12', 'an object was added to a pool after close() returned')
                elif not s.cfg['thread_mode'] and not st0.gget('close_started') and s.M.feasible(st, z(binop('Ge', I(n_resp), st.gget('max_size')))):
                    vio('C05', f'add succeeded although the pool already held max_size objects')
        if a[0] == 'drop' and res and res[0] == 'ok' and last.get('after_close'):
            if objs[last['oid']]['destroyed'] != 1: vio('C12', f'object {last["oid"]} returned after close() was not dropped')
        return V

    def started_after_close(s, st, a):
        t = s.thread_of(a)
        return bool(st.threads[t].local.get('cur_after_close'))

    def n_responsible(s, st):
        w = st.gget('where', {})
        return sum(1 for v in w.values() if v == 'pool' or v.startswith('held:') or v == 'returning')

    def check(s, st0, a, st):
        out = []
        if st.gget('pool') is None: return out
        O = s.cfg['oracles']
        if st.gget('deadpool_panics'):
            out.append(s.vio('C12' if ('C12' in O or not O) else O[0], 'panic raised inside deadpool: ' + st.gget('deadpool_panics')[-1], st)); return out
        if st.gget('deadlocks'):
            out.append(s.vio('C12' if ('C12' in O or not O) else O[0], 'self-deadlock on the queue mutex', st)); return out
        for o, r in st.gget('objs', {}).items():
            if r['destroyed'] > 1: out.append(s.vio(O[0] if O else 'C05', f'object {o} destroyed twice', st))
        ms = st.gget('max_size')
        if 'C05' in O and s.M.feasible(st, z(binop('Gt', I(s.n_responsible(st)), ms))):
            out.append(s.vio('C05', f'the pool holds {s.n_responsible(st)} objects, more than max_size', st))
        out.extend(v for v in st.gget('pending_vio', ()) if v['property'] in O)
        return out

    def check_state(s, st):
        out = []
        if st.gget('pool') is None: return out
        O = s.cfg['oracles']
        busy = any(st.threads[t].stack for t in s.tasks + ['C'])
        if busy: return out
        pending = [t for t in s.tasks if 'fut' in st.threads[t].local]
        queued = s.queued_tasks(st)
        at_rest = all(t in queued for t in pending)
        w = st.gget('where', {}); closed = st.gget('closed_ret')
        if closed and 'C12' in O:
            inpool = [o for o, v in w.items() if v == 'pool']
            if inpool: out.append(s.vio('C12', f'a closed pool still holds {inpool}', st))
            if queued: out.append(s.vio('C12', f'{queued} still queued after close() returned', st))
        if 'C05' in O and not st.gget('close_started') and not closed:
            # slots are neither over- nor under-issued: whenever no call is in the middle of a step, the adds that can still succeed
            # (free permits of the size semaphore + permits already assigned to adders that wait to be polled) are max_size - size
            status0, snap0 = s.observe(st)
            if status0 != 'panic' and snap0 is not None:
                promised = [t for t in pending if t not in queued and st.threads[t].local['pending_variant'][0] == 'add']
                sp, mx = s._raw_slots; held = s.n_responsible(st)
                if not s.M.must(st, z(binop('Eq', binop('Add', binop('Add', sp, I(len(promised))), I(held)), mx))):
                    out.append(s.vio('C05', f'slots are mis-issued: {snap0["size_permits"]} free slot(s) + {len(promised)} promised to waiting adders + {held} objects held is not max_size {snap0["max_size"]}', st))
        if at_rest and 'C05' in O and not st.gget('close_started'):
            status, snap = s.observe(st)
            if status == 'panic': return out
            size = s.n_responsible(st); avail = sum(1 for v in w.values() if v == 'pool')
            blocked_get = [t for t in queued if st.threads[t].local['pending_variant'][0] != 'add']
            if status[1] != size: out.append(s.vio('C05', f'at rest status().size is {status[1]}, {size} objects are in the pool or checked out', st))
            if status[2] != avail: out.append(s.vio('C05', f'at rest status().available is {status[2]}, {avail} objects are waiting in the pool', st))
            if status[3] != len(blocked_get):
                out.append(s.vio('C05', f'at rest status().waiting is {status[3]} while {len(blocked_get)} callers are blocked in get()', st))
            if snap['queue'] != avail: out.append(s.vio('C05', f'the queue holds {snap["queue"]} objects, ground truth {avail}', st))
            # every object waiting in the pool can be obtained: one permit of the object semaphore per queued object (no call is in flight here)
            if not pending and isinstance(snap.get('permits'), int) and snap['permits'] != avail:
                out.append(s.vio('C05', f'{avail} object(s) are waiting in the pool but {snap["permits"]} can be obtained (permits of the object semaphore)', st))
            # nobody waits in vain: with every pending call queued (none holds or was promised a permit) a getter may only be queued
            # while no object is in the pool, an adder only while the pool is full
            inflight = [t for t in pending if t not in queued]
            if not inflight:
                blocked_add = [t for t in queued if st.threads[t].local['pending_variant'][0] == 'add']
                if blocked_get and avail > 0:
                    out.append(s.vio('C05', f'{blocked_get} wait(s) in get() although {avail} object(s) are waiting in the pool', st))
                if blocked_add and s.M.must(st, z(binop('Lt', I(size), st.gget('max_size')))):
                    out.append(s.vio('C05', f'{blocked_add} wait(s) in add() although the pool holds only {size} objects', st))
        return out
