"""Check driver: runs the scenario families of a property in worker processes, aggregates, replays
counterexamples natively, applies the known-findings list, writes the evidence file and sets the exit code."""
import os, sys, json, time, argparse, traceback, hashlib, random, subprocess, multiprocessing as mp

HERE = os.path.dirname(os.path.dirname(os.path.abspath(__file__)))
sys.path.insert(0, HERE)


def _worker(job):
    """job = dict(kind, family name, cfg, crates, budget, seed) -> result dict (never raises)"""
    t0 = time.time()
    out = {'family': job['name'], 'ok': False, 'violations': [], 'known': [], 'inconclusive': None}
    try:
        from mirsym import families
        r = families.run(job)
        out.update(r); out['ok'] = True
    except Exception as e:      # Unmodelled / InternalError / anything: inconclusive, never a verdict
        out['inconclusive'] = f'{type(e).__name__}: {e}'[:600]
        out['traceback'] = traceback.format_exc()[-1500:]
    out['wall_s'] = round(time.time() - t0, 2)
    return out


def load_known():
    p = os.path.join(HERE, 'known_findings.json')
    if not os.path.exists(p): return {'known': [], 'fixed': []}
    return json.load(open(p))


def main(argv=None):
    ap = argparse.ArgumentParser()
    ap.add_argument('prop')
    ap.add_argument('--tier', default=os.environ.get('VERIF_TIER', 'quick'), choices=['quick', 'thorough'])
    ap.add_argument('--replay', default=None)
    ap.add_argument('--jobs', type=int, default=int(os.environ.get('VERIF_JOBS', '16')))
    ap.add_argument('--only', default=None, help='run only families whose name contains this')
    ap.add_argument('--no-evidence', action='store_true')
    args = ap.parse_args(argv)
    seed = int(os.environ.get('VERIF_SEED', '0') or 0)
    pid = args.prop.upper()
    from mirsym import families, replay
    if args.replay:
        return replay.replay_file(args.replay, verbose=True)
    t0 = time.time()
    try:
        jobs = families.jobs_for(pid, args.tier, seed)
    except KeyError:
        print(f'no check for property {pid}'); return 2
    if args.only: jobs = [j for j in jobs if args.only in j['name']]
    # the MIR dump is regenerated once here from /repo's working tree and handed to the workers
    from mirsym import dump
    crates = sorted({c for j in jobs for c in j['crates']})
    try:
        blobs = dump.dump_to_cache(crates)
    except dump.DumpError as e:
        print('INCONCLUSIVE: ' + str(e)[:2000]); return 2
    for j in jobs: j['mir_cache'] = blobs
    try:
        replay.build_driver()
    except replay.ReplayError as e:
        print('INCONCLUSIVE: ' + str(e)[:2000]); return 2
    results = []
    # a worker that dies (killed for memory, crashed interpreter) must end the check as inconclusive, never hang it
    from concurrent.futures import ProcessPoolExecutor, as_completed
    from concurrent.futures.process import BrokenProcessPool
    with ProcessPoolExecutor(max_workers=min(args.jobs, max(1, len(jobs)))) as pool:
        futs = {pool.submit(_worker, j): j for j in jobs}
        for f in as_completed(futs):
            try:
                r = f.result()
            except BrokenProcessPool:
                r = {'family': futs[f]['name'], 'ok': False, 'violations': [], 'known': [], 'wall_s': round(time.time() - t0, 2),
                     'inconclusive': 'a worker process died (out of memory?) before this family reported'}
            except Exception as e:
                r = {'family': futs[f]['name'], 'ok': False, 'violations': [], 'known': [], 'wall_s': round(time.time() - t0, 2), 'inconclusive': f'{type(e).__name__}: {e}'[:300]}
            results.append(r)
            tag = 'ok' if r['ok'] and not r['violations'] else ('VIOL' if r['violations'] else 'INCONCLUSIVE')
            print(f"  [{tag}] {r['family']}: {r.get('summary', r.get('inconclusive'))} ({r['wall_s']} s)", flush=True)
    return finish(pid, args, seed, jobs, results, t0)


def finish(pid, args, seed, jobs, results, t0):
    from mirsym import families, replay
    known = load_known()
    inconclusive = [r for r in results if not r['ok'] or r.get('truncated_required')]
    cands = []
    for r in results:
        for v in r['violations']: cands.append((r, v))
    printed_known = {}
    violations = []
    unconfirmed = []
    # de-duplicate candidates by (property, role/what) and replay one trace per class
    classes = {}
    for r, v in cands:
        if v['property'] != pid:
            # an oracle of another property fired inside this property's world: not this check's business
            continue
        key = (v.get('known') or '', v['what'][:90])
        classes.setdefault(key, []).append((r, v))
    replayed = 0
    for key, items in sorted(classes.items()):
        items.sort(key=lambda rv: len(rv[1].get('trace', [])))
        r, v = items[0]
        rep = replay.confirm(pid, v, jobs[0]['mir_cache']) if replayed < 12 else {'status': 'skipped'}
        replayed += 1
        v['replay'] = rep
        kid = rep.get('known')
        listed = kid and any(k['id'] == kid and k['property'] == pid for k in known.get('known', []))
        if rep['status'] == 'engine_only':
            # no native realisation exists for this world (stated in DESIGN.md): reported on the engine's evidence, marked as such
            v['what'] += '  [engine evidence only: ' + rep.get('detail', '') + ']'
            if listed: printed_known[kid] = v
            else: violations.append(v)
        elif rep['status'] == 'confirmed':
            if listed:
                printed_known[kid] = v
            else:
                violations.append(v)
        elif rep['status'] == 'unavailable':
            unconfirmed.append(v)
        elif rep['status'] == 'skipped':
            pass
        else:
            unconfirmed.append(v)
    for kid, v in printed_known.items():
        print(f'KNOWN-FINDING: property={pid} {kid}: {v["what"]}')
    exit_code = 0
    if violations:
        for v in violations:
            print(f'VIOLATION property={pid} replay={v["replay"].get("path")}')
            print('   ' + v['what'])
        exit_code = 1
    if unconfirmed:
        for v in unconfirmed[:5]:
            print(f'INCONCLUSIVE: counterexample for {pid} not reproduced natively ({v["replay"].get("status")}: {v["replay"].get("detail", "")[:300]}): {v["what"]}')
            if v['replay'].get('path'): print('   trace: ' + v['replay']['path'])
        if exit_code == 0: exit_code = 2
    elif inconclusive:
        for r in inconclusive[:5]:
            print(f'INCONCLUSIVE: family {r["family"]}: {r.get("inconclusive") or "required path truncated"}')
            if r.get('traceback') and os.environ.get('VERIF_DEBUG'): print(r['traceback'])
        if exit_code == 0: exit_code = 2          # a confirmed violation stays exit 1
    if not args.no_evidence:
        write_evidence(pid, args.tier, seed, jobs, results, violations, printed_known, unconfirmed, inconclusive, time.time() - t0)
    print(f'{pid} {args.tier}: families={len(results)} states={sum(r.get("states", 0) for r in results)} '
          f'obligations={sum(r.get("obligations", 0) for r in results)} violations={len(violations)} known={len(printed_known)} '
          f'inconclusive={len(inconclusive) + len(unconfirmed)} wall={time.time() - t0:.1f}s exit={exit_code}')
    return exit_code


def write_evidence(pid, tier, seed, jobs, results, violations, known, unconfirmed, inconclusive, wall):
    from mirsym import families
    os.makedirs(os.path.join(HERE, 'evidence'), exist_ok=True)
    meta = families.META[pid]
    fns = {}; models = {}; samples = []
    tot = lambda k: sum(r.get(k, 0) for r in results)
    for r in results:
        fns.update(r.get('functions', {}))
        for k, v in r.get('models', {}).items(): models[k] = models.get(k, 0) + v
        for smp in r.get('samples', [])[:2]:
            if len(samples) < 10: samples.append({'family': r['family'], **smp} if isinstance(smp, dict) else {'family': r['family'], 'case': smp})
    cov = {
        'states': tot('states'), 'transitions': tot('transitions'), 'merged_states': tot('merged'),
        'traces_validated_against_impl': tot('validated'),
        'obligations': tot('obligations'), 'discharged': tot('discharged'),
        'samples': samples or [{'note': 'no sample recorded'}],
        'evaluations': tot('transitions') + tot('obligations'),
        'distinct_nontrivial': tot('states') + tot('discharged'),
        'rule': 'a case is one explored symbolic state (canonical form after merging) or one discharged solver obligation; states are distinct by construction of the merge key',
        'explanation': meta.get('explanation', ''),
        'exhaustive': all(r.get('complete', False) for r in results) and not inconclusive,
        'technique': meta['technique'],
        'functions_interpreted': fns, 'models_used': models,
        'bounds': {r['family']: r.get('bounds', {}) for r in results},
        'families': [{k: r.get(k) for k in ('family', 'summary', 'states', 'transitions', 'merged', 'max_depth', 'complete', 'truncated',
                                            'obligations', 'discharged', 'wall_s', 'inconclusive', 'probes', 'suspension_points')} for r in results],
        'solver_queries': tot('queries'), 'solver_sat': tot('sat'), 'solver_unsat': tot('unsat'), 'solver_s': round(sum(r.get('solver_s', 0) for r in results), 2),
        'solver_cache_hits': tot('cache_hits'), 'mir_blocks_executed': tot('blocks'), 'mir_dump_s': max([r.get('dump_s', 0) for r in results] + [0]),
        'cvc5_cross_checked': tot('cvc5_checked'), 'cvc5_disagreements': tot('cvc5_disagree'),
        'truncated_paths': tot('truncated'),
        'known_findings_seen': sorted(known), 'unconfirmed_counterexamples': len(unconfirmed),
        'inconclusive_families': [r['family'] for r in inconclusive],
        'outside_bounds': meta.get('outside', ''),
    }
    ev = {'property_id': pid, 'tier': tier, 'seed': seed, 'level': meta['level'], 'coverage': cov,
          'assumptions': meta.get('assumptions', []), 'wall_s': round(wall, 2), 'violations': len(violations)}
    with open(os.path.join(HERE, 'evidence', f'{pid}.json'), 'w') as f: json.dump(ev, f, indent=1, default=str)


if __name__ == '__main__':
    sys.exit(main())
