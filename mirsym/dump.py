"""Front end: dump rustc MIR of the crates of /repo's current working tree (every run), parse it."""
import os, re, subprocess, glob, shutil, time, hashlib, fcntl
from . import mir
from .mir import Unmodelled

REPO = os.environ.get('VERIF_REPO', '/repo')
BUILD = os.environ.get('VERIF_BUILD', '/verif/.build')
GUARD = 'deadpool_verif'

# crate -> (package, features, source dir relative to repo)
CRATES = {
    'deadpool': ('deadpool', 'rt_tokio_1,managed,unmanaged', 'src'),
    'deadpool_runtime': ('deadpool-runtime', 'tokio_1', 'runtime/src'),
    'deadpool_sync': ('deadpool-sync', '', 'sync/src'),
    'deadpool_postgres': ('deadpool-postgres', 'rt_tokio_1', 'postgres/src'),
    'deadpool_redis': ('deadpool-redis', 'rt_tokio_1,sentinel,cluster,serde', 'redis/src'),
    'deadpool_sqlite': ('deadpool-sqlite', 'rt_tokio_1', 'sqlite/src'),
    'deadpool_r2d2': ('deadpool-r2d2', 'rt_tokio_1', 'r2d2/src'),
    'deadpool_diesel': ('deadpool-diesel', 'rt_tokio_1,sqlite', 'diesel/src'),
}


SHIM = 'vstd'          # /verif/shim: plain-Rust reference bodies of std combinators (see shim/src/lib.rs), always loaded
SHIM_DIR = os.path.join(os.path.dirname(os.path.dirname(os.path.abspath(__file__))), 'shim')


class DumpError(Exception):
    pass


def dump_shim():
    """MIR of the shim crate (independent of /repo; dumped with the same nightly on every run)"""
    tdir = os.path.join(BUILD, 'mir_shim'); os.makedirs(tdir, exist_ok=True)
    lock = open(os.path.join(BUILD, 'mir.lock'), 'w'); fcntl.flock(lock, fcntl.LOCK_EX)
    try:
        t0 = time.time()
        for p in glob.glob(os.path.join(tdir, 'debug', '.fingerprint', 'vstd-*')): shutil.rmtree(p, ignore_errors=True)
        cmd = ['cargo', '+nightly', 'rustc', '--offline', '--manifest-path', os.path.join(SHIM_DIR, 'Cargo.toml'), '--lib', '--target-dir', tdir,
               '--', '-Zunpretty=mir', '-C', 'debug-assertions=off', '-C', 'overflow-checks=on']
        e = _env(); e.pop('RUSTFLAGS', None)
        r = subprocess.run(cmd, env=e, capture_output=True, text=True, cwd=SHIM_DIR)
        if r.returncode != 0 or 'fn ' not in r.stdout: raise DumpError('MIR dump of the std shim crate failed:\n' + r.stderr[-2000:])
        return r.stdout, {}, time.time() - t0
    finally:
        fcntl.flock(lock, fcntl.LOCK_UN); lock.close()


def _env():
    e = dict(os.environ)
    e['RUSTFLAGS'] = f'--cfg {GUARD}'
    e['CARGO_NET_OFFLINE'] = 'true'
    e['CARGO_INCREMENTAL'] = '0'
    e.pop('RUSTC_WRAPPER', None)
    return e


def dump_crate(crate, want_shims=True):
    """-> (mir text, {coroutine body name: shim text}, seconds).  Always re-runs rustc on the crate."""
    if crate == SHIM: return dump_shim()
    pkg, feats, _ = CRATES[crate]
    tdir = os.path.join(BUILD, 'mir'); os.makedirs(tdir, exist_ok=True)
    ddir = os.path.join(BUILD, 'dump', crate); shutil.rmtree(ddir, ignore_errors=True); os.makedirs(ddir, exist_ok=True)
    lock = open(os.path.join(BUILD, 'mir.lock'), 'w'); fcntl.flock(lock, fcntl.LOCK_EX)
    try:
        t0 = time.time()
        # forget the crate's own unit so that rustc runs on the sources as they are now
        for p in glob.glob(os.path.join(tdir, 'debug', '.fingerprint', pkg + '-*')): shutil.rmtree(p, ignore_errors=True)
        cmd = ['cargo', '+nightly', 'rustc', '--offline', '--manifest-path', os.path.join(REPO, 'Cargo.toml'), '-p', pkg, '--lib',
               '--target-dir', tdir]
        if feats: cmd += ['--features', feats]
        cmd += ['--', '-Zunpretty=mir', '-C', 'debug-assertions=off', '-C', 'overflow-checks=on']
        r = subprocess.run(cmd, env=_env(), capture_output=True, text=True, cwd=REPO)
        if r.returncode != 0 or 'fn ' not in r.stdout:
            raise DumpError(f'MIR dump of {crate} failed (exit {r.returncode}):\n' + r.stderr[-3000:])
        text = r.stdout
        shims = {}
        if want_shims:
            for p in glob.glob(os.path.join(tdir, 'debug', '.fingerprint', pkg + '-*')): shutil.rmtree(p, ignore_errors=True)
            cmd2 = cmd[:cmd.index('--') + 1] + ['-Zdump-mir=coroutine_drop', f'-Zdump-mir-dir={ddir}', '-C', 'debug-assertions=off', '-C', 'overflow-checks=on']
            r2 = subprocess.run(cmd2, env=_env(), capture_output=True, text=True, cwd=REPO)
            if r2.returncode != 0: raise DumpError(f'coroutine_drop dump of {crate} failed:\n' + r2.stderr[-3000:])
            for p in glob.glob(os.path.join(ddir, '*.coroutine_drop.0.mir')):
                shims[p] = open(p).read()
        return text, shims, time.time() - t0
    finally:
        fcntl.flock(lock, fcntl.LOCK_UN); lock.close()


def scan_enums(crate):
    """variant order of the crate's own enums, from the Rust source (cfg-gated variants are skipped when the cfg
    names a feature we do not build)"""
    if crate == SHIM: return {}
    _, feats, src = CRATES[crate]
    feats = set(feats.split(','))
    out = {}
    for path in glob.glob(os.path.join(REPO, src, '**', '*.rs'), recursive=True):
        txt = open(path).read()
        txt = re.sub(r'//[^\n]*', '', txt)
        txt = re.sub(r'/\*.*?\*/', '', txt, flags=re.S)
        for m in re.finditer(r'\benum\s+(\w+)\s*(<[^{]*>)?\s*(where[^{]*)?\{', txt):
            name = m.group(1); i = m.end(); d = 1; j = i
            while j < len(txt) and d > 0:
                if txt[j] == '{': d += 1
                elif txt[j] == '}': d -= 1
                j += 1
            body = txt[i:j - 1]
            vs = []; depth = 0; cur = ''
            for c in body:
                if c in '([{<': depth += 1
                elif c in ')]}>': depth -= 1
                if c == ',' and depth == 0:
                    vs.append(cur); cur = ''
                else:
                    cur += c
            if cur.strip(): vs.append(cur)
            names = []
            for v in vs:
                v = v.strip(); skip = False
                for a in re.finditer(r'#\[cfg\((.*?)\)\]', v, flags=re.S):
                    c = a.group(1)
                    fm = re.match(r'^feature\s*=\s*"([^"]+)"$', c.strip())
                    if fm and fm.group(1) not in feats: skip = True
                    if 'target_arch = "wasm32"' in c and not c.strip().startswith('not'): skip = True
                v = re.sub(r'#\[[^\]]*\]', '', v, flags=re.S).strip()
                mm = re.match(r'^(\w+)', v)
                if mm and not skip: names.append(mm.group(1))
            if names: out.setdefault(name, names)
    return out


def scan_structs(crate):
    """field order of the crate's structs with named fields: {(path relative to the repo, struct name): [field names]}"""
    if crate == SHIM: return {}
    _, feats, src = CRATES[crate]
    out = {}
    for path in glob.glob(os.path.join(REPO, src, '**', '*.rs'), recursive=True):
        txt = open(path).read()
        txt = re.sub(r'//[^\n]*', '', txt)
        txt = re.sub(r'/\*.*?\*/', '', txt, flags=re.S)
        for m in re.finditer(r'\bstruct\s+(\w+)\s*(<[^{;(]*>)?\s*(where[^{]*)?\{', txt):
            name = m.group(1); i = m.end(); d = 1; j = i
            while j < len(txt) and d > 0:
                if txt[j] == '{': d += 1
                elif txt[j] == '}': d -= 1
                j += 1
            body = txt[i:j - 1]
            parts = []; depth = 0; cur = ''
            for c in body:
                if c in '([{<': depth += 1
                elif c in ')]}>': depth -= 1
                if c == ',' and depth == 0:
                    parts.append(cur); cur = ''
                else:
                    cur += c
            if cur.strip(): parts.append(cur)
            names = []
            for v in parts:
                skip = any('target_arch = "wasm32"' in a.group(1) and not a.group(1).strip().startswith('not') for a in re.finditer(r'#\[cfg\((.*?)\)\]', v, flags=re.S))
                v = re.sub(r'#\[[^\]]*\]', '', v, flags=re.S).strip()
                mm = re.match(r'^(?:pub(?:\([^)]*\))?\s+)?(\w+)\s*:', v)
                if mm and not skip: names.append(mm.group(1))
            out[(os.path.relpath(path, REPO), name)] = names
    return out


STD_ENUMS = {
    'Option': ['None', 'Some'], 'Result': ['Ok', 'Err'], 'Poll': ['Ready', 'Pending'], 'ControlFlow': ['Continue', 'Break'],
    'TryAcquireError': ['Closed', 'NoPermits'], 'Cow': ['Borrowed', 'Owned'], 'TryLockError': ['Poisoned', 'WouldBlock'],
    'Ordering': ['Less', 'Equal', 'Greater'], 'Infallible': [],
}


class Program:
    """parsed MIR of one or more crates + drop shims + enum tables"""

    def __init__(s):
        s.fns = {}; s.shims = {}; s.enums = dict(STD_ENUMS); s.dump_s = 0.0; s.crates = []; s.lines = 0; s.structs = {}

    def add_crate(s, crate):
        text, shims, dt = dump_crate(crate)
        s.dump_s += dt; s.crates.append(crate); s.lines += text.count('\n')
        before = set(s.fns)
        mir.parse_mir_text(text, crate, s.fns)
        for p, t in shims.items():
            d = mir.parse_mir_text(t, crate, {})
            for n, f in d.items(): s.shims[n] = f
        for k, v in scan_enums(crate).items(): s.enums.setdefault(k, v)
        s.structs.update(scan_structs(crate))
        if len(set(s.fns) - before) == 0: raise DumpError('empty MIR dump for ' + crate)
        return s

    def selftest(s):
        return mir.parse_all(s.fns) + mir.parse_all(s.shims)


def load(crates):
    p = Program()
    for c in list(crates) + ([SHIM] if SHIM not in crates else []): p.add_crate(c)
    return p


def dump_to_cache(crates):
    """dump every crate once (from the current working tree) and store the texts for the worker processes"""
    import json, tempfile
    out = {}
    d = os.path.join(BUILD, 'run', str(os.getpid())); shutil.rmtree(d, ignore_errors=True); os.makedirs(d, exist_ok=True)
    for c in list(crates) + ([SHIM] if SHIM not in crates else []):
        text, shims, dt = dump_crate(c)
        p = os.path.join(d, c + '.mir'); open(p, 'w').write(text)
        sp = os.path.join(d, c + '.shims.json'); json.dump(shims, open(sp, 'w'))
        out[c] = {'mir': p, 'shims': sp, 'dump_s': round(dt, 2), 'enums': scan_enums(c), 'structs': [[list(k), v] for k, v in scan_structs(c).items()]}
    # old run directories are removed (keep the 4 most recent)
    # run directories older than two hours are removed
    now = time.time()
    for x in os.listdir(os.path.join(BUILD, 'run')):
        px = os.path.join(BUILD, 'run', x)
        try:
            if now - os.path.getmtime(px) > 7200: shutil.rmtree(px, ignore_errors=True)
        except OSError: pass
    return out


def load_cached(blobs, crates):
    import json
    p = Program()
    for c in list(crates) + ([SHIM] if SHIM not in crates and SHIM in blobs else []):
        b = blobs[c]
        text = open(b['mir']).read(); p.dump_s += b['dump_s']; p.crates.append(c); p.lines += text.count('\n')
        mir.parse_mir_text(text, c, p.fns)
        for _, t in json.load(open(b['shims'])).items():
            for n, f in mir.parse_mir_text(t, c, {}).items(): p.shims[n] = f
        for k, v in b['enums'].items(): p.enums.setdefault(k, v)
        for k, v in b.get('structs', []): p.structs[tuple(k)] = v
    return p
