//! Round trip of deadpool's `PoolConfig` / `Timeouts` / `QueueMode` through their *derived* `Serialize` / `Deserialize`
//! implementations and a minimal self-describing token format (no text, no number formatting: the format is not the subject,
//! the derive attributes and serde's own `Duration` / `Option` implementations are).
//!
//! The same code runs under Kani (inputs = `kani::any()`, decided by CBMC) and natively (inputs = the bytes of a counterexample).
use deadpool::managed::{PoolConfig, QueueMode, Timeouts};
use serde::de::{self, DeserializeSeed, EnumAccess, MapAccess, VariantAccess, Visitor};
use serde::ser::{self, SerializeStruct};
use serde::{Deserialize, Serialize};
use std::fmt;
use std::time::Duration;

pub const CAP: usize = 34;

#[derive(Clone, Copy, Debug, PartialEq, Eq)]
pub enum Tok {
    Struct(&'static str),
    Field(&'static str),
    End,
    /// a number; the value lives in `Toks::nums` (the token array itself stays free of symbolic data)
    U64(u8),
    U32(u8),
    None,
    Some,
    UnitVariant(&'static str),
    Pad,
}

#[derive(Debug)]
pub struct Error;
/// Every error is a verdict here (the documents are produced by the serializer under test or are valid by construction), so under
/// Kani an error ends the path with a failed check instead of flowing on as a value: error paths that re-join the main path would
/// make the read position symbolic for the solver.
/// The `missing_*` harnesses read fully concrete documents in which an error is an *expected* outcome; they switch to errors as values.
pub static mut SOFT_ERRORS: bool = false;
#[inline(always)]
fn fail() -> Error {
    #[cfg(kani)]
    if !unsafe { SOFT_ERRORS } { panic!("serialisation / deserialisation reported an error"); }
    #[allow(unreachable_code)]
    Error
}
impl fmt::Display for Error { fn fmt(&self, f: &mut fmt::Formatter<'_>) -> fmt::Result { f.write_str("token format error") } }
impl std::error::Error for Error {}
impl ser::Error for Error { fn custom<T: fmt::Display>(_m: T) -> Self { fail() } }
impl de::Error for Error { fn custom<T: fmt::Display>(_m: T) -> Self { fail() } }

pub struct Toks { pub t: [Tok; CAP], pub n: usize, pub nums: [u64; 8], pub nn: usize }
impl Toks {
    pub fn new() -> Self { Toks { t: [Tok::Pad; CAP], n: 0, nums: [0; 8], nn: 0 } }
    fn num(&mut self, v: u64) -> Result<u8, Error> { if self.nn >= 8 { return Err(fail()); } self.nums[self.nn] = v; self.nn += 1; Ok((self.nn - 1) as u8) }
    fn push(&mut self, t: Tok) -> Result<(), Error> { if self.n >= CAP { return Err(fail()); } self.t[self.n] = t; self.n += 1; Ok(()) }
}

// ------------------------------------------------------------------ serializer
pub struct Ser<'a>(pub &'a mut Toks);
pub struct SerStruct<'a>(&'a mut Toks);
pub struct Never;
macro_rules! unsupported { ($($f:ident($($t:ty),*)),* $(,)?) => { $( fn $f(self $(, _: $t)*) -> Result<Self::Ok, Error> { Err(fail()) } )* } }
impl<'a> ser::Serializer for Ser<'a> {
    type Ok = (); type Error = Error;
    type SerializeSeq = Never; type SerializeTuple = Never; type SerializeTupleStruct = Never; type SerializeTupleVariant = Never;
    type SerializeMap = Never; type SerializeStruct = SerStruct<'a>; type SerializeStructVariant = Never;
    fn serialize_u64(self, v: u64) -> Result<(), Error> { let i = self.0.num(v)?; self.0.push(Tok::U64(i)) }
    fn serialize_u32(self, v: u32) -> Result<(), Error> { let i = self.0.num(v as u64)?; self.0.push(Tok::U32(i)) }
    fn serialize_none(self) -> Result<(), Error> { self.0.push(Tok::None) }
    fn serialize_some<T: ?Sized + Serialize>(self, v: &T) -> Result<(), Error> { self.0.push(Tok::Some)?; v.serialize(Ser(self.0)) }
    fn serialize_unit_variant(self, _n: &'static str, _i: u32, variant: &'static str) -> Result<(), Error> { self.0.push(Tok::UnitVariant(variant)) }
    fn serialize_struct(self, name: &'static str, _len: usize) -> Result<SerStruct<'a>, Error> { self.0.push(Tok::Struct(name))?; Ok(SerStruct(self.0)) }
    unsupported!(serialize_bool(bool), serialize_i8(i8), serialize_i16(i16), serialize_i32(i32), serialize_i64(i64), serialize_u8(u8), serialize_u16(u16),
                 serialize_f32(f32), serialize_f64(f64), serialize_char(char), serialize_str(&str), serialize_bytes(&[u8]), serialize_unit(), serialize_unit_struct(&'static str));
    fn serialize_newtype_struct<T: ?Sized + Serialize>(self, _n: &'static str, _v: &T) -> Result<(), Error> { Err(fail()) }
    fn serialize_newtype_variant<T: ?Sized + Serialize>(self, _n: &'static str, _i: u32, _v: &'static str, _x: &T) -> Result<(), Error> { Err(fail()) }
    fn serialize_seq(self, _l: Option<usize>) -> Result<Never, Error> { Err(fail()) }
    fn serialize_tuple(self, _l: usize) -> Result<Never, Error> { Err(fail()) }
    fn serialize_tuple_struct(self, _n: &'static str, _l: usize) -> Result<Never, Error> { Err(fail()) }
    fn serialize_tuple_variant(self, _n: &'static str, _i: u32, _v: &'static str, _l: usize) -> Result<Never, Error> { Err(fail()) }
    fn serialize_map(self, _l: Option<usize>) -> Result<Never, Error> { Err(fail()) }
    fn serialize_struct_variant(self, _n: &'static str, _i: u32, _v: &'static str, _l: usize) -> Result<Never, Error> { Err(fail()) }
}
impl<'a> SerializeStruct for SerStruct<'a> {
    type Ok = (); type Error = Error;
    fn serialize_field<T: ?Sized + Serialize>(&mut self, key: &'static str, value: &T) -> Result<(), Error> { self.0.push(Tok::Field(key))?; value.serialize(Ser(self.0)) }
    fn end(self) -> Result<(), Error> { self.0.push(Tok::End) }
}
macro_rules! never_impl { ($($tr:ident { $($m:ident)* }),*) => { $( impl ser::$tr for Never { type Ok = (); type Error = Error;
    $( fn $m<T: ?Sized + Serialize>(&mut self, _v: &T) -> Result<(), Error> { Err(fail()) } )* fn end(self) -> Result<(), Error> { Err(fail()) } } )* } }
never_impl!(SerializeSeq { serialize_element }, SerializeTuple { serialize_element }, SerializeTupleStruct { serialize_field }, SerializeTupleVariant { serialize_field });
impl ser::SerializeMap for Never { type Ok = (); type Error = Error;
    fn serialize_key<T: ?Sized + Serialize>(&mut self, _k: &T) -> Result<(), Error> { Err(fail()) }
    fn serialize_value<T: ?Sized + Serialize>(&mut self, _v: &T) -> Result<(), Error> { Err(fail()) }
    fn end(self) -> Result<(), Error> { Err(fail()) } }
impl ser::SerializeStructVariant for Never { type Ok = (); type Error = Error;
    fn serialize_field<T: ?Sized + Serialize>(&mut self, _k: &'static str, _v: &T) -> Result<(), Error> { Err(fail()) }
    fn end(self) -> Result<(), Error> { Err(fail()) } }

// ------------------------------------------------------------------ deserializer
pub struct De<'a> { pub t: &'a Toks, pub pos: usize }
impl<'a> De<'a> {
    fn peek(&self) -> Tok { if self.pos < self.t.n { self.t.t[self.pos] } else { Tok::Pad } }
    fn next(&mut self) -> Tok { let t = self.peek(); self.pos += 1; t }
}
struct Name(&'static str);
macro_rules! fwd_any { ($($f:ident)*) => { $( fn $f<V: Visitor<'de>>(self, v: V) -> Result<V::Value, Error> { self.deserialize_any(v) } )* } }
impl<'de> de::Deserializer<'de> for Name {
    type Error = Error;
    fn deserialize_any<V: Visitor<'de>>(self, v: V) -> Result<V::Value, Error> { v.visit_str(self.0) }
    fwd_any!(deserialize_bool deserialize_i8 deserialize_i16 deserialize_i32 deserialize_i64 deserialize_u8 deserialize_u16 deserialize_u32 deserialize_u64 deserialize_f32 deserialize_f64
             deserialize_char deserialize_str deserialize_string deserialize_bytes deserialize_byte_buf deserialize_option deserialize_unit deserialize_seq deserialize_map deserialize_identifier deserialize_ignored_any);
    fn deserialize_unit_struct<V: Visitor<'de>>(self, _n: &'static str, v: V) -> Result<V::Value, Error> { self.deserialize_any(v) }
    fn deserialize_newtype_struct<V: Visitor<'de>>(self, _n: &'static str, v: V) -> Result<V::Value, Error> { self.deserialize_any(v) }
    fn deserialize_tuple<V: Visitor<'de>>(self, _l: usize, v: V) -> Result<V::Value, Error> { self.deserialize_any(v) }
    fn deserialize_tuple_struct<V: Visitor<'de>>(self, _n: &'static str, _l: usize, v: V) -> Result<V::Value, Error> { self.deserialize_any(v) }
    fn deserialize_struct<V: Visitor<'de>>(self, _n: &'static str, _f: &'static [&'static str], v: V) -> Result<V::Value, Error> { self.deserialize_any(v) }
    fn deserialize_enum<V: Visitor<'de>>(self, _n: &'static str, _vs: &'static [&'static str], v: V) -> Result<V::Value, Error> { self.deserialize_any(v) }
}
impl<'de, 'a, 'b> de::Deserializer<'de> for &'b mut De<'a> {
    type Error = Error;
    fn deserialize_any<V: Visitor<'de>>(self, v: V) -> Result<V::Value, Error> {
        match self.next() {
            Tok::U64(i) => v.visit_u64(self.t.nums[i as usize]),
            Tok::U32(i) => v.visit_u32(self.t.nums[i as usize] as u32),
            Tok::None => v.visit_none(),
            Tok::Some => v.visit_some(self),
            Tok::Struct(_) => v.visit_map(Fields(self)),
            Tok::UnitVariant(name) => v.visit_enum(Variant(name)),
            _ => Err(fail()),
        }
    }
    fn deserialize_option<V: Visitor<'de>>(self, v: V) -> Result<V::Value, Error> {
        match self.peek() { Tok::None => { self.pos += 1; v.visit_none() } Tok::Some => { self.pos += 1; v.visit_some(self) } _ => Err(fail()) }
    }
    fn deserialize_ignored_any<V: Visitor<'de>>(self, v: V) -> Result<V::Value, Error> {
        // skip one value
        let mut depth = 0usize;
        loop {
            match self.next() {
                Tok::Struct(_) => depth += 1,
                Tok::End => { if depth == 0 { return Err(fail()); } depth -= 1; if depth == 0 { break; } }
                Tok::Some | Tok::Field(_) => continue,
                Tok::Pad => return Err(fail()),
                _ => { if depth == 0 { break; } }
            }
        }
        v.visit_unit()
    }
    fwd_any!(deserialize_bool deserialize_i8 deserialize_i16 deserialize_i32 deserialize_i64 deserialize_u8 deserialize_u16 deserialize_u32 deserialize_u64 deserialize_f32 deserialize_f64
             deserialize_char deserialize_str deserialize_string deserialize_bytes deserialize_byte_buf deserialize_unit deserialize_seq deserialize_map deserialize_identifier);
    fn deserialize_unit_struct<V: Visitor<'de>>(self, _n: &'static str, v: V) -> Result<V::Value, Error> { self.deserialize_any(v) }
    fn deserialize_newtype_struct<V: Visitor<'de>>(self, _n: &'static str, v: V) -> Result<V::Value, Error> { self.deserialize_any(v) }
    fn deserialize_tuple<V: Visitor<'de>>(self, _l: usize, v: V) -> Result<V::Value, Error> { self.deserialize_any(v) }
    fn deserialize_tuple_struct<V: Visitor<'de>>(self, _n: &'static str, _l: usize, v: V) -> Result<V::Value, Error> { self.deserialize_any(v) }
    fn deserialize_struct<V: Visitor<'de>>(self, n: &'static str, _f: &'static [&'static str], v: V) -> Result<V::Value, Error> {
        // serde's own `Duration` (not deadpool code) is read positionally: its visitor accepts a sequence (secs, nanos) as well as a map,
        // and the sequence form has no loop over field names.  deadpool's derived structs are always read as maps (by field name).
        if n == "Duration" {
            return match self.next() {
                Tok::Struct(_) => { let r = v.visit_seq(Elems(&mut *self))?; if self.next() == Tok::End { Ok(r) } else { Err(fail()) } }
                _ => Err(fail()),
            };
        }
        self.deserialize_any(v)
    }
    fn deserialize_enum<V: Visitor<'de>>(self, _n: &'static str, _vs: &'static [&'static str], v: V) -> Result<V::Value, Error> { self.deserialize_any(v) }
}
struct Elems<'b, 'a>(&'b mut De<'a>);
impl<'de, 'a, 'b> de::SeqAccess<'de> for Elems<'b, 'a> {
    type Error = Error;
    fn next_element_seed<S: DeserializeSeed<'de>>(&mut self, seed: S) -> Result<Option<S::Value>, Error> {
        match self.0.next() { Tok::End => Ok(None), Tok::Field(_) => seed.deserialize(&mut *self.0).map(Some), _ => Err(fail()) }
    }
}
struct Fields<'b, 'a>(&'b mut De<'a>);
impl<'de, 'a, 'b> MapAccess<'de> for Fields<'b, 'a> {
    type Error = Error;
    fn next_key_seed<K: DeserializeSeed<'de>>(&mut self, seed: K) -> Result<Option<K::Value>, Error> {
        match self.0.next() { Tok::End => Ok(None), Tok::Field(name) => seed.deserialize(Name(name)).map(Some), _ => Err(fail()) }
    }
    fn next_value_seed<S: DeserializeSeed<'de>>(&mut self, seed: S) -> Result<S::Value, Error> { seed.deserialize(&mut *self.0) }
}
struct Variant(&'static str);
impl<'de> EnumAccess<'de> for Variant {
    type Error = Error; type Variant = Unit;
    fn variant_seed<S: DeserializeSeed<'de>>(self, seed: S) -> Result<(S::Value, Unit), Error> { Ok((seed.deserialize(Name(self.0))?, Unit)) }
}
struct Unit;
impl<'de> VariantAccess<'de> for Unit {
    type Error = Error;
    fn unit_variant(self) -> Result<(), Error> { Ok(()) }
    fn newtype_variant_seed<S: DeserializeSeed<'de>>(self, _s: S) -> Result<S::Value, Error> { Err(fail()) }
    fn tuple_variant<V: Visitor<'de>>(self, _l: usize, _v: V) -> Result<V::Value, Error> { Err(fail()) }
    fn struct_variant<V: Visitor<'de>>(self, _f: &'static [&'static str], _v: V) -> Result<V::Value, Error> { Err(fail()) }
}

// ------------------------------------------------------------------ the properties
/// source of inputs: `kani::any()` under Kani, the bytes of a counterexample natively
pub trait Src { fn u64(&mut self) -> u64; }

/// The *shape* of the document is concrete: which timeouts are present (bits of `mask`), the queue mode, and the sub-second part
/// of every duration (`nanos`, one entry per timeout).  `Option<Duration>` keeps its discriminant in the niche of the nanosecond
/// field, so a symbolic nanosecond value would make the very first `match` on the option a symbolic branch and, with it, every
/// token position.  Seconds (all of u64) and max_size (all of usize) are arbitrary.
pub fn any_duration<S: Src>(s: &mut S, present: bool, nanos: u32) -> Option<Duration> {
    if !present { return None; }
    let secs = s.u64();
    Some(Duration::new(secs, nanos % 1_000_000_000))
}
pub fn any_config<S: Src>(s: &mut S, mask: u8, lifo: bool, nanos: [u32; 3]) -> PoolConfig {
    let max_size = s.u64() as usize;
    let wait = any_duration(s, mask & 1 != 0, nanos[0]); let create = any_duration(s, mask & 2 != 0, nanos[1]); let recycle = any_duration(s, mask & 4 != 0, nanos[2]);
    let queue_mode = if lifo { QueueMode::Lifo } else { QueueMode::Fifo };
    PoolConfig { max_size, timeouts: Timeouts { wait, create, recycle }, queue_mode }
}
fn same_mode(a: QueueMode, b: QueueMode) -> bool { matches!((a, b), (QueueMode::Fifo, QueueMode::Fifo) | (QueueMode::Lifo, QueueMode::Lifo)) }
pub fn same(a: &PoolConfig, b: &PoolConfig) -> Result<(), &'static str> {
    if a.max_size != b.max_size { return Err("max_size differs after the round trip"); }
    if a.timeouts.wait != b.timeouts.wait { return Err("timeouts.wait differs after the round trip"); }
    if a.timeouts.create != b.timeouts.create { return Err("timeouts.create differs after the round trip"); }
    if a.timeouts.recycle != b.timeouts.recycle { return Err("timeouts.recycle differs after the round trip"); }
    if !same_mode(a.queue_mode, b.queue_mode) { return Err("queue_mode differs after the round trip"); }
    Ok(())
}
/// PoolConfig -> tokens -> PoolConfig
pub fn roundtrip(c: &PoolConfig) -> Result<PoolConfig, &'static str> {
    let mut t = Toks::new();
    c.serialize(Ser(&mut t)).map_err(|_| "serialising a PoolConfig failed")?;
    let mut d = De { t: &t, pos: 0 };
    let r = PoolConfig::deserialize(&mut d).map_err(|_| "deserialising what was just serialised failed")?;
    Ok(r)
}
/// a document that names only `max_size` (and, depending on `with`, some of the optional sections): omitted sections take the documented defaults
pub fn omitted(max_size: u64, with_timeouts: bool, with_mode: bool, inner: u8) -> Result<PoolConfig, &'static str> {
    let mut t = Toks::new();
    t.nums[0] = max_size; t.nn = 1;
    let mut p = |x: Tok| { let _ = t.push(x); };
    p(Tok::Struct("PoolConfig")); p(Tok::Field("max_size")); p(Tok::U64(0));
    if with_timeouts {
        // a timeouts section in which only some of the three entries are present (bit mask `inner`), each of them None
        p(Tok::Field("timeouts")); p(Tok::Struct("Timeouts"));
        if inner & 1 != 0 { p(Tok::Field("wait")); p(Tok::None); }
        if inner & 2 != 0 { p(Tok::Field("create")); p(Tok::None); }
        if inner & 4 != 0 { p(Tok::Field("recycle")); p(Tok::None); }
        p(Tok::End);
    }
    if with_mode { p(Tok::Field("queue_mode")); p(Tok::UnitVariant("Fifo")); }
    p(Tok::End);
    let mut d = De { t: &t, pos: 0 };
    PoolConfig::deserialize(&mut d).map_err(|_| "a document that omits optional sections is rejected")
}

/// a document that does NOT name `max_size` (only, depending on the flags, the optional sections).  `max_size` has no serde default: the
/// documented default (`cpu_count * 4`) is that of `PoolConfig::default()`.  Such a document is either rejected or - should the
/// field ever become optional - must come out with that documented value; it must not silently become some other number.
pub fn missing_max_size(with_timeouts: bool, with_mode: bool) -> Result<PoolConfig, &'static str> {
    let mut t = Toks::new();
    let mut p = |x: Tok| { let _ = t.push(x); };
    p(Tok::Struct("PoolConfig"));
    if with_timeouts { p(Tok::Field("timeouts")); p(Tok::Struct("Timeouts")); p(Tok::Field("wait")); p(Tok::None); p(Tok::End); }
    if with_mode { p(Tok::Field("queue_mode")); p(Tok::UnitVariant("Lifo")); }
    p(Tok::End);
    let mut d = De { t: &t, pos: 0 };
    PoolConfig::deserialize(&mut d).map_err(|_| "rejected")
}

#[cfg(kani)]
mod proofs {
    use super::*;
    struct K;
    impl Src for K {
        fn u64(&mut self) -> u64 { kani::any() }
    }
    fn shape(mask: u8, lifo: bool, nanos: [u32; 3]) {
        let c = any_config(&mut K, mask, lifo, nanos);
        let r = roundtrip(&c);
        kani::cover!(r.is_ok(), "vacuity witness: the round trip completes");
        assert!(r.is_ok(), "PoolConfig does not survive serialisation + deserialisation");
        assert!(same(&c, r.as_ref().unwrap()).is_ok(), "PoolConfig changed in a serialise / deserialise round trip");
    }
    const N1: [u32; 3] = [999_999_999, 0, 1];
    const N2: [u32; 3] = [1_000_000, 999_999, 500_000_000];
    macro_rules! shape_proofs { ($($name:ident = ($m:expr, $l:expr, $n:expr)),* $(,)?) => { $( #[kani::proof] #[kani::unwind(13)] fn $name() { shape($m, $l, $n); } )* } }
    shape_proofs!(roundtrip_shape_0_fifo = (0, false, N1), roundtrip_shape_1_fifo = (1, false, N1), roundtrip_shape_2_fifo = (2, false, N1), roundtrip_shape_3_fifo = (3, false, N1),
                  roundtrip_shape_4_fifo = (4, false, N1), roundtrip_shape_5_fifo = (5, false, N1), roundtrip_shape_6_fifo = (6, false, N1), roundtrip_shape_7_fifo = (7, false, N1),
                  roundtrip_shape_0_lifo = (0, true, N1), roundtrip_shape_1_lifo = (1, true, N1), roundtrip_shape_2_lifo = (2, true, N1), roundtrip_shape_3_lifo = (3, true, N1),
                  roundtrip_shape_4_lifo = (4, true, N1), roundtrip_shape_5_lifo = (5, true, N1), roundtrip_shape_6_lifo = (6, true, N1), roundtrip_shape_7_lifo = (7, true, N1),
                  thorough_shape_1_fifo = (1, false, N2), thorough_shape_2_lifo = (2, true, N2), thorough_shape_3_fifo = (3, false, N2), thorough_shape_4_lifo = (4, true, N2),
                  thorough_shape_5_fifo = (5, false, N2), thorough_shape_6_lifo = (6, true, N2), thorough_shape_7_fifo = (7, false, N2), thorough_shape_7_lifo = (7, true, N2));

    fn omit(wt: bool, wm: bool, inner: u8) {
        let ms: u64 = kani::any();
        let r = omitted(ms, wt, wm, inner);
        assert!(r.is_ok(), "a document that omits optional sections is rejected");
        let c = r.unwrap();
        assert!(c.max_size == ms as usize && c.timeouts.wait.is_none() && c.timeouts.create.is_none() && c.timeouts.recycle.is_none() && same_mode(c.queue_mode, QueueMode::Fifo),
                "an omitted section did not take its documented default");
    }
    fn missing(wt: bool, wm: bool) {
        unsafe { SOFT_ERRORS = true; }
        let r = missing_max_size(wt, wm);
        kani::cover!(true, "vacuity witness: the document was read to the end");
        // cpu_count * 4 with cpu_count >= 1 is a positive multiple of 4 (the exact number needs /proc and is compared in the native replay)
        assert!(match r { Err(_) => true, Ok(c) => c.max_size >= 4 && c.max_size % 4 == 0 },
                "a document that omits max_size was accepted with a value that cannot be the documented default cpu_count * 4");
    }
    macro_rules! missing_proofs { ($($name:ident = ($t:expr, $m:expr)),* $(,)?) => { $( #[kani::proof] #[kani::unwind(13)] fn $name() { missing($t, $m); } )* } }
    missing_proofs!(missing_max_size_only = (false, false), missing_max_size_timeouts = (true, false), missing_max_size_mode = (false, true), missing_max_size_both = (true, true));
    macro_rules! omit_proofs { ($($name:ident = ($t:expr, $m:expr, $i:expr)),* $(,)?) => { $( #[kani::proof] #[kani::unwind(13)] fn $name() { omit($t, $m, $i); } )* } }
    omit_proofs!(omitted_all = (false, false, 0), omitted_timeouts = (false, true, 0), omitted_mode = (true, false, 7), timeouts_empty = (true, true, 0),
                 timeouts_only_wait = (true, false, 1), timeouts_only_create = (true, false, 2), timeouts_only_recycle = (true, true, 4), timeouts_two = (true, false, 5));
}
