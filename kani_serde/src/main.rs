//! native replay of a Kani counterexample: `dp-serde-replay roundtrip <u64 max_size> <w> <c> <r> <lifo 0|1>` where each timeout is `-` or `secs:nanos`;
//! `dp-serde-replay omitted <max_size> <with_timeouts 0|1> <with_mode 0|1> <inner mask>`
use dp_serde_roundtrip::*;
use deadpool::managed::{PoolConfig, QueueMode, Timeouts};
use std::time::Duration;
fn dur(s: &str) -> Option<Duration> { if s == "-" { None } else { let (a, b) = s.split_once(':').unwrap(); Some(Duration::new(a.parse().unwrap(), b.parse().unwrap())) } }
fn main() {
    let a: Vec<String> = std::env::args().collect();
    match a[1].as_str() {
        "roundtrip" => {
            let c = PoolConfig { max_size: a[2].parse::<u64>().unwrap() as usize, timeouts: Timeouts { wait: dur(&a[3]), create: dur(&a[4]), recycle: dur(&a[5]) },
                                 queue_mode: if a[6] == "1" { QueueMode::Lifo } else { QueueMode::Fifo } };
            match roundtrip(&c) { Err(e) => println!("VIOLATED {}", e), Ok(r) => match same(&c, &r) { Ok(()) => println!("HOLDS {:?}", r), Err(e) => println!("VIOLATED {}: {:?} -> {:?}", e, c, r) } }
        }
        "omitted" => {
            let ms: u64 = a[2].parse().unwrap();
            match omitted(ms, a[3] == "1", a[4] == "1", a[5].parse().unwrap()) {
                Err(e) => println!("VIOLATED {}", e),
                Ok(c) => if c.max_size == ms as usize && c.timeouts.wait.is_none() && c.timeouts.create.is_none() && c.timeouts.recycle.is_none() && matches!(c.queue_mode, QueueMode::Fifo) { println!("HOLDS {:?}", c) } else { println!("VIOLATED defaults: {:?}", c) }
            }
        }
        "missing" => {
            match missing_max_size(a[2] == "1", a[3] == "1") {
                Err(_) => println!("HOLDS rejected"),
                Ok(c) => if c.max_size == PoolConfig::default().max_size { println!("HOLDS {:?}", c) } else { println!("VIOLATED a document without max_size is accepted with max_size {} (documented default: {})", c.max_size, PoolConfig::default().max_size) }
            }
        }
        _ => panic!("usage"),
    }
}
