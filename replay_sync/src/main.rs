//! Native replay for C14 / C15: a real SyncWrapper (and the real deadpool-r2d2 Manager::recycle) on a tokio runtime whose
//! blocking pool has ONE thread, so that blocking tasks run in spawn order; the closures and backend callbacks supplied by
//! this driver wait for the trace's `run k` action before they proceed.  One JSON line of observations per action.
use std::collections::HashMap;
use std::future::Future;
use std::pin::Pin;
use std::sync::{Arc, Condvar, Mutex};
use std::task::{Context, Poll, RawWaker, RawWakerVTable, Waker};
use std::thread::ThreadId;
use std::time::Duration;

use deadpool::managed::{Manager as _, Metrics};
use deadpool::Runtime;
use deadpool_sync::{InteractError, SyncWrapper};
use serde_json::{json, Value};

struct Shared { events: Vec<Value>, gates: HashMap<u64, bool>, finished: HashMap<u64, bool>, arrived: HashMap<u64, bool>, busy: Option<(i64, std::time::Instant)>, async_thread: Option<ThreadId>, cur_gate: u64, backend: Value }
type Sh = Arc<(Mutex<Shared>, Condvar)>;

fn kind(sh: &Sh) -> &'static str {
    let g = sh.0.lock().unwrap();
    if Some(std::thread::current().id()) == g.async_thread { "async" } else { "blocking" }
}
fn ev(sh: &Sh, v: Value) { sh.0.lock().unwrap().events.push(v); }
fn wait_gate(sh: &Sh, k: u64) {
    let mut g = sh.0.lock().unwrap();
    g.arrived.insert(k, true); sh.1.notify_all();
    while !g.gates.get(&k).copied().unwrap_or(false) { g = sh.1.wait(g).unwrap(); }
}
fn finish(sh: &Sh, k: u64) { let mut g = sh.0.lock().unwrap(); g.finished.insert(k, true); sh.1.notify_all(); }
fn release_and_wait(sh: &Sh, k: u64, gated: bool) -> bool {
    { let mut g = sh.0.lock().unwrap(); g.gates.insert(k, true); sh.1.notify_all(); }
    let g = sh.0.lock().unwrap();
    let (g, to) = sh.1.wait_timeout_while(g, Duration::from_secs(5), |s| !s.finished.get(&k).copied().unwrap_or(false)).unwrap();
    let _ = gated; drop(g);
    std::thread::sleep(Duration::from_millis(20));       // let the blocking task itself (not only our closure) finish
    !to.timed_out()
}

struct Val { sh: Sh, drop_task: Arc<Mutex<Option<u64>>> }
impl Drop for Val {
    fn drop(&mut self) {
        let k = kind(&self.sh);
        ev(&self.sh, json!(["val_drop", k]));
        if let Some(t) = *self.drop_task.lock().unwrap() { finish(&self.sh, t); }
    }
}

// scripted r2d2 manager
struct R2 { sh: Sh }
#[derive(Debug)] struct R2Err;
impl std::fmt::Display for R2Err { fn fmt(&self, f: &mut std::fmt::Formatter<'_>) -> std::fmt::Result { write!(f, "scripted") } }
impl std::error::Error for R2Err {}
impl r2d2::ManageConnection for R2 {
    type Connection = Val; type Error = R2Err;
    fn connect(&self) -> Result<Val, R2Err> { unreachable!() }
    fn is_valid(&self, _c: &mut Val) -> Result<(), R2Err> {
        let o = self.sh.0.lock().unwrap().backend["is_valid"].as_str().unwrap_or("ok").to_string();
        ev(&self.sh, json!(["backend", "is_valid", kind(&self.sh), o]));
        let t = self.sh.0.lock().unwrap().cur_gate; finish(&self.sh, t);
        if o == "ok" { Ok(()) } else { Err(R2Err) }
    }
    fn has_broken(&self, _c: &mut Val) -> bool {
        let t = self.sh.0.lock().unwrap().cur_gate;
        if kind(&self.sh) == "blocking" { wait_gate(&self.sh, t); }     // on the async thread nobody could open the gate
        let o = self.sh.0.lock().unwrap().backend["has_broken"].as_bool().unwrap_or(false);
        ev(&self.sh, json!(["backend", "has_broken", kind(&self.sh), o]));
        if o { finish(&self.sh, t); }
        o
    }
}

fn noop_waker() -> Waker {
    fn clone(_: *const ()) -> RawWaker { RawWaker::new(std::ptr::null(), &VT) }
    fn noop(_: *const ()) {}
    static VT: RawWakerVTable = RawWakerVTable::new(clone, noop, noop, noop);
    unsafe { Waker::from_raw(RawWaker::new(std::ptr::null(), &VT)) }
}

enum Out { Created(Result<SyncWrapper<Val>, String>), Interact(u64, String, Result<u64, InteractError>), Recycle(Result<(), String>) }
type Fut = Pin<Box<dyn Future<Output = Out>>>;

fn main() {
    let path = std::env::args().nth(1).expect("usage: dp-replay-sync <trace.json>");
    let trace: Value = serde_json::from_str(&std::fs::read_to_string(&path).unwrap()).unwrap();
    if std::env::var("DP_REPLAY_DEBUG").is_err() { std::panic::set_hook(Box::new(|_| {})); }
    let sh: Sh = Arc::new((Mutex::new(Shared { events: vec![], gates: HashMap::new(), finished: HashMap::new(), arrived: HashMap::new(), busy: None, async_thread: Some(std::thread::current().id()), cur_gate: 0, backend: trace["backend"].clone() }), Condvar::new()));
    // watchdog: an action of the async thread that does not come back (it waits for a lock a running closure holds) is
    // reported as ["blocked"] and ends the replay
    { let sh = sh.clone();
      std::thread::spawn(move || loop {
          std::thread::sleep(Duration::from_millis(50));
          let mut g = sh.0.lock().unwrap();
          if let Some((i, t0)) = g.busy {
              if t0.elapsed() > Duration::from_millis(1500) {
                  let events = std::mem::take(&mut g.events);
                  println!("{}", json!({"i": i, "res": ["blocked"], "events": events}));
                  std::process::exit(0);
              }
          }
      }); }
    let rt = tokio::runtime::Builder::new_current_thread().enable_time().max_blocking_threads(1).build().unwrap();
    rt.block_on(async {
        let waker = noop_waker();
        let mut ntask: u64 = 0;
        let drop_task = Arc::new(Mutex::new(None));
        let wrapper: Arc<Mutex<Option<SyncWrapper<Val>>>> = Arc::new(Mutex::new(None));
        // a wrapper that is owned here but can be borrowed by 'static futures: leak a Box and free it on drop_wrapper
        let mut wptr: Option<*mut SyncWrapper<Val>> = None;
        let mut fut: Option<Fut> = None;
        let mut ninteract: u64 = 0;
        let r2mgr = deadpool_r2d2::Manager::new(R2 { sh: sh.clone() }, Runtime::Tokio1);
        let r2ptr: &'static deadpool_r2d2::Manager<R2> = Box::leak(Box::new(r2mgr));
        // creation
        ntask += 1; let t = ntask;
        { let sh2 = sh.clone(); let dt = drop_task.clone();
          fut = Some(Box::pin(async move {
              let r = SyncWrapper::new(Runtime::Tokio1, move || { wait_gate(&sh2, t); ev(&sh2, json!(["create_run", kind(&sh2)])); finish(&sh2, t); Ok::<Val, String>(Val { sh: sh2.clone(), drop_task: dt }) }).await;
              Out::Created(r)
          })); }
        let mut cx = Context::from_waker(&waker);
        let _ = fut.as_mut().unwrap().as_mut().poll(&mut cx);
        println!("{}", json!({"i": -1, "res": ["pending"], "events": std::mem::take(&mut sh.0.lock().unwrap().events)}));
        let _ = &wrapper;
        for (i, a) in trace["actions"].as_array().unwrap().iter().enumerate() {
            let kindv = a[0].as_str().unwrap();
            let mut res = json!(["ok"]);
            if kindv != "run" { sh.0.lock().unwrap().busy = Some((i as i64, std::time::Instant::now())); }
            match kindv {
                "run" => {
                    let k = a[1].as_u64().unwrap();
                    match a.get(2).and_then(|x| x.as_str()).unwrap_or("ran") {
                        "running" => {
                            // the task is picked up by the blocking pool on its own: wait until its closure has been entered
                            let g = sh.0.lock().unwrap();
                            let (_g, to) = sh.1.wait_timeout_while(g, Duration::from_secs(3), |s| !s.arrived.get(&k).copied().unwrap_or(false)).unwrap();
                            res = if to.timed_out() { json!(["run_timeout"]) } else { json!(["running"]) };
                        }
                        "blocked" => {
                            std::thread::sleep(Duration::from_millis(300));
                            let g = sh.0.lock().unwrap();
                            let moved = g.arrived.get(&k).copied().unwrap_or(false) || g.finished.get(&k).copied().unwrap_or(false);
                            res = if moved { json!(["not_blocked"]) } else { json!(["blocked"]) };
                        }
                        _ => {
                            let ok = release_and_wait(&sh, k, true);
                            res = if ok { json!(["ran"]) } else { json!(["run_timeout"]) };
                        }
                    }
                }
                "interact" => {
                    let want = a[1].as_str().unwrap().to_string(); ninteract += 1; let k = ninteract; ntask += 1; let t = ntask;
                    let w: &'static SyncWrapper<Val> = unsafe { &*wptr.expect("no wrapper") };
                    let sh2 = sh.clone(); let want2 = want.clone();
                    fut = Some(Box::pin(async move {
                        let r = w.interact(move |_v: &mut Val| { wait_gate(&sh2, t); ev(&sh2, json!(["closure_run", k, kind(&sh2)])); finish(&sh2, t); if want2 == "panic" { panic!("scripted") } k }).await;
                        Out::Interact(k, want, r)
                    }));
                    res = poll_fut(&mut fut, &mut cx, &mut wptr);
                }
                "poll" => { res = poll_fut(&mut fut, &mut cx, &mut wptr); }
                "cancel" => { fut = None; res = json!(["ok"]); }
                "drop_wrapper" => {
                    ntask += 1; *drop_task.lock().unwrap() = Some(ntask);
                    let p = wptr.take().expect("no wrapper");
                    if a.get(1).and_then(|x| x.as_str()) == Some("unwinding") {
                        // the owner of the wrapper panics: the wrapper is dropped while this thread unwinds
                        let b = unsafe { Box::from_raw(p) };
                        let _ = std::panic::catch_unwind(std::panic::AssertUnwindSafe(move || { let _w = b; std::panic::resume_unwind(Box::new("scripted unwinding")); }));
                    } else {
                        unsafe { drop(Box::from_raw(p)); }
                    }
                    res = json!(["ok"]);
                }
                "is_poisoned" => { let w = unsafe { &*wptr.expect("no wrapper") }; res = json!(["ok", w.is_mutex_poisoned()]); }
                "recycle" => {
                    ntask += 1; sh.0.lock().unwrap().cur_gate = ntask;
                    let w: &'static mut SyncWrapper<Val> = unsafe { &mut *wptr.expect("no wrapper") };
                    fut = Some(Box::pin(async move { let m = Metrics::default(); Out::Recycle(r2ptr.recycle(w, &m).await.map_err(|e| format!("{:?}", e))) }));
                    res = poll_fut(&mut fut, &mut cx, &mut wptr);
                }
                other => panic!("unknown action {}", other),
            }
            sh.0.lock().unwrap().busy = None;
            let events = std::mem::take(&mut sh.0.lock().unwrap().events);
            println!("{}", json!({"i": i, "res": res, "events": events}));
        }
        std::process::exit(0);
    });
}

fn poll_fut(fut: &mut Option<Fut>, cx: &mut Context<'_>, wptr: &mut Option<*mut SyncWrapper<Val>>) -> Value {
    let mut f = fut.take().expect("no future");
    let r = std::panic::catch_unwind(std::panic::AssertUnwindSafe(|| f.as_mut().poll(cx)));
    match r {
        Err(_) => json!(["panic"]),
        Ok(Poll::Pending) => { *fut = Some(f); json!(["pending"]) }
        Ok(Poll::Ready(Out::Created(Ok(w)))) => { *wptr = Some(Box::into_raw(Box::new(w))); json!(["created", "Ok"]) }
        Ok(Poll::Ready(Out::Created(Err(_)))) => json!(["created", "Err"]),
        Ok(Poll::Ready(Out::Interact(k, want, r))) => {
            let d = match r { Ok(_) => "Ok", Err(InteractError::Panic(_)) => "Panic", Err(InteractError::Aborted) => "Aborted" };
            json!(["interact", k, want, d])
        }
        Ok(Poll::Ready(Out::Recycle(r))) => json!(["recycle", if r.is_ok() { "Ok" } else { "Err" }]),
    }
}
