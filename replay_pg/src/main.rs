//! Native replay for the configuration properties (C18 postgres, C19 redis): builds the concrete Config described by the
//! JSON file, calls the real translation function and prints what it returns.
use serde_json::{json, Value};
use std::net::IpAddr;
use std::time::Duration;

fn s(v: &Value) -> Option<String> { v.as_str().map(|x| x.to_string()) }

fn pg(case: &Value) -> Value {
    use deadpool_postgres::{ChannelBinding, Config, ConfigError, LoadBalanceHosts, SslMode, TargetSessionAttrs};
    let c = &case["config"];
    let mut cfg = Config::new();
    cfg.url = s(&c["url"]); cfg.user = s(&c["user"]); cfg.password = s(&c["password"]); cfg.dbname = s(&c["dbname"]);
    cfg.options = s(&c["options"]); cfg.application_name = s(&c["application_name"]); cfg.host = s(&c["host"]);
    cfg.hosts = c["hosts"].as_array().map(|a| a.iter().map(|x| x.as_str().unwrap().to_string()).collect());
    cfg.hostaddr = c["hostaddr"].as_str().map(|x| x.parse::<IpAddr>().unwrap());
    cfg.hostaddrs = c["hostaddrs"].as_array().map(|a| a.iter().map(|x| x.as_str().unwrap().parse::<IpAddr>().unwrap()).collect());
    cfg.port = c["port"].as_u64().map(|x| x as u16);
    cfg.ports = c["ports"].as_array().map(|a| a.iter().map(|x| x.as_u64().unwrap() as u16).collect());
    cfg.connect_timeout = c["connect_timeout"].as_u64().map(Duration::from_secs);
    cfg.keepalives = c["keepalives"].as_bool();
    cfg.keepalives_idle = c["keepalives_idle"].as_u64().map(Duration::from_secs);
    cfg.ssl_mode = c["ssl_mode"].as_str().map(|x| match x { "Disable" => SslMode::Disable, "Prefer" => SslMode::Prefer, _ => SslMode::Require });
    cfg.target_session_attrs = c["target_session_attrs"].as_str().map(|x| match x { "Any" => TargetSessionAttrs::Any, _ => TargetSessionAttrs::ReadWrite });
    cfg.channel_binding = c["channel_binding"].as_str().map(|x| match x { "Disable" => ChannelBinding::Disable, "Prefer" => ChannelBinding::Prefer, _ => ChannelBinding::Require });
    cfg.load_balance_hosts = c["load_balance_hosts"].as_str().map(|x| match x { "Disable" => LoadBalanceHosts::Disable, _ => LoadBalanceHosts::Random });
    match case["env_user"].as_str() { Some(u) => std::env::set_var("USER", u), None => std::env::remove_var("USER") }
    let r = std::panic::catch_unwind(|| cfg.get_pg_config());
    match r {
        Err(_) => json!({"result": "panic"}),
        Ok(Err(ConfigError::InvalidUrl(_))) => json!({"result": "InvalidUrl"}),
        Ok(Err(ConfigError::DbnameMissing)) => json!({"result": "DbnameMissing"}),
        Ok(Err(ConfigError::DbnameEmpty)) => json!({"result": "DbnameEmpty"}),
        Ok(Ok(p)) => {
            let hosts: Vec<Value> = p.get_hosts().iter().map(|h| match h {
                tokio_postgres::config::Host::Tcp(t) => json!(["tcp", t]),
                #[cfg(unix)]
                tokio_postgres::config::Host::Unix(u) => json!(["unix", u.to_string_lossy()]),
            }).collect();
            json!({"result": "Ok", "user": p.get_user(), "password": p.get_password().map(|x| String::from_utf8_lossy(x).to_string()),
                   "dbname": p.get_dbname(), "options": p.get_options(), "application_name": p.get_application_name(),
                   "ssl_mode": format!("{:?}", p.get_ssl_mode()), "hosts": hosts,
                   "hostaddrs": p.get_hostaddrs().iter().map(|a| a.to_string()).collect::<Vec<_>>(), "ports": p.get_ports(),
                   "connect_timeout": p.get_connect_timeout().map(|d| d.as_secs()), "keepalives": p.get_keepalives(),
                   "keepalives_idle": p.get_keepalives_idle().as_secs(),
                   "target_session_attrs": format!("{:?}", p.get_target_session_attrs()), "channel_binding": format!("{:?}", p.get_channel_binding()),
                   "load_balance_hosts": format!("{:?}", p.get_load_balance_hosts())})
        }
    }
}

fn main() {
    let path = std::env::args().nth(1).expect("usage: dp-replay-pg <case.json>");
    let case: Value = serde_json::from_str(&std::fs::read_to_string(&path).unwrap()).unwrap();
    std::panic::set_hook(Box::new(|_| {}));
    let out = match case["kind"].as_str().unwrap() {
        "pgconfig" => pg(&case),
        k => panic!("unknown kind {}", k),
    };
    println!("{}", out);
}
