//! Verification model of the part of tokio that deadpool uses (lean, array based).
pub mod sync {
    use std::cell::UnsafeCell;
    use std::future::Future;
    use std::pin::Pin;
    use std::task::{Context, Poll};

    pub const MAXW: usize = 3;

    #[derive(Debug, PartialEq, Eq)]
    pub enum TryAcquireError { Closed, NoPermits }
    #[derive(Debug)]
    pub struct AcquireError(());

    struct State {
        permits: usize,
        closed: bool,
        /// waiting tickets, q[0] oldest; 0 = empty
        q: [u32; MAXW],
        qlen: usize,
        /// tickets that were handed a permit while queued and have not been polled since
        assigned: [u32; MAXW],
        next_ticket: u32,
    }

    pub struct Semaphore { st: UnsafeCell<State> }
    unsafe impl Send for Semaphore {}
    unsafe impl Sync for Semaphore {}
    impl std::fmt::Debug for Semaphore {
        fn fmt(&self, f: &mut std::fmt::Formatter<'_>) -> std::fmt::Result { f.write_str("Semaphore") }
    }

    #[must_use]
    #[derive(Debug)]
    pub struct SemaphorePermit<'a> { sem: &'a Semaphore, permits: u32 }

    impl State {
        fn q_remove(&mut self, t: u32) {
            let mut i = 0; let mut j = 0;
            while i < MAXW {
                if i < self.qlen && self.q[i] != t { self.q[j] = self.q[i]; j += 1; }
                i += 1;
            }
            self.qlen = j;
        }
        fn take_assigned(&mut self, t: u32) -> bool {
            let mut i = 0;
            while i < MAXW {
                if self.assigned[i] == t { self.assigned[i] = 0; return true; }
                i += 1;
            }
            false
        }
        fn release(&mut self, mut n: usize) {
            while n > 0 && self.qlen > 0 {
                let t = self.q[0];
                self.q_remove(t);
                let mut i = 0;
                while i < MAXW { if self.assigned[i] == 0 { self.assigned[i] = t; break; } i += 1; }
                n -= 1;
            }
            self.permits += n;
        }
    }

    impl Semaphore {
        #[allow(clippy::mut_from_ref)]
        fn st(&self) -> &mut State { unsafe { &mut *self.st.get() } }
        pub fn new(permits: usize) -> Self {
            Self { st: UnsafeCell::new(State { permits, closed: false, q: [0; MAXW], qlen: 0, assigned: [0; MAXW], next_ticket: 1 }) }
        }
        pub fn available_permits(&self) -> usize { self.st().permits }
        pub fn is_closed(&self) -> bool { self.st().closed }
        pub fn close(&self) { let st = self.st(); st.closed = true; st.qlen = 0; }
        pub fn try_acquire(&self) -> Result<SemaphorePermit<'_>, TryAcquireError> { self.try_acquire_many(1) }
        pub fn try_acquire_many(&self, n: u32) -> Result<SemaphorePermit<'_>, TryAcquireError> {
            let st = self.st();
            if st.closed { return Err(TryAcquireError::Closed); }
            if st.permits < n as usize { return Err(TryAcquireError::NoPermits); }
            st.permits -= n as usize;
            Ok(SemaphorePermit { sem: self, permits: n })
        }
        pub fn add_permits(&self, n: usize) { self.st().release(n) }
        pub fn acquire(&self) -> Acquire<'_> { Acquire { sem: self, ticket: 0 } }
    }

    pub struct Acquire<'a> { sem: &'a Semaphore, ticket: u32 }

    impl<'a> Future for Acquire<'a> {
        type Output = Result<SemaphorePermit<'a>, AcquireError>;
        fn poll(mut self: Pin<&mut Self>, _cx: &mut Context<'_>) -> Poll<Self::Output> {
            let sem = self.sem;
            let st = sem.st();
            if st.closed { return Poll::Ready(Err(AcquireError(()))); }
            if self.ticket != 0 {
                let t = self.ticket;
                if st.take_assigned(t) { self.ticket = 0; return Poll::Ready(Ok(SemaphorePermit { sem, permits: 1 })); }
                if st.permits >= 1 { st.permits -= 1; st.q_remove(t); self.ticket = 0; return Poll::Ready(Ok(SemaphorePermit { sem, permits: 1 })); }
                return Poll::Pending;
            }
            if st.permits >= 1 { st.permits -= 1; return Poll::Ready(Ok(SemaphorePermit { sem, permits: 1 })); }
            assert!(st.qlen < MAXW, "model bound: too many waiters");
            let t = st.next_ticket; st.next_ticket += 1;
            self.ticket = t;
            let l = st.qlen; st.q[l] = t; st.qlen = l + 1;
            Poll::Pending
        }
    }
    impl Drop for Acquire<'_> {
        fn drop(&mut self) {
            if self.ticket == 0 { return; }
            let st = self.sem.st();
            let t = self.ticket;
            st.q_remove(t);
            if st.take_assigned(t) { st.release(1); }
        }
    }
    impl SemaphorePermit<'_> { pub fn forget(mut self) { self.permits = 0; } }
    impl Drop for SemaphorePermit<'_> {
        fn drop(&mut self) { if self.permits > 0 { self.sem.st().release(self.permits as usize); } }
    }
}
