#![allow(dead_code, unused_imports)]
use deadpool::managed::{self, Metrics, Pool, RecycleResult};
use std::future::Future;
use std::pin::Pin;
use std::task::{Context, Poll, RawWaker, RawWakerVTable, Waker};

struct Mgr;
impl managed::Manager for Mgr {
    type Type = u8;
    type Error = ();
    async fn create(&self) -> Result<u8, ()> { Ok(7) }
    async fn recycle(&self, _o: &mut u8, _m: &Metrics) -> RecycleResult<()> { Ok(()) }
}

fn noop_raw() -> RawWaker {
    fn clone(_: *const ()) -> RawWaker { noop_raw() }
    fn noop(_: *const ()) {}
    static VT: RawWakerVTable = RawWakerVTable::new(clone, noop, noop, noop);
    RawWaker::new(std::ptr::null(), &VT)
}
fn waker() -> Waker { unsafe { Waker::from_raw(noop_raw()) } }
fn poll_once<F: Future>(f: Pin<&mut F>) -> Poll<F::Output> {
    let w = waker();
    let mut cx = Context::from_waker(&w);
    f.poll(&mut cx)
}

#[repr(C)]
struct RawTs { s: i64, n: u32 }
static mut CLOCK_S: i64 = 0;
fn stub_now() -> std::time::Instant {
    #[cfg(kani)]
    let d: u8 = kani::any();
    #[cfg(not(kani))]
    let d: u8 = 1;
    unsafe {
        CLOCK_S += d as i64;
        let raw = RawTs { s: CLOCK_S, n: 0 };
        std::mem::transmute::<RawTs, std::time::Instant>(raw)
    }
}
fn stub_lock<T>(m: &std::sync::Mutex<T>) -> std::sync::LockResult<std::sync::MutexGuard<'_, T>> {
    match m.try_lock() {
        Ok(g) => Ok(g),
        Err(std::sync::TryLockError::Poisoned(e)) => Err(e),
        Err(std::sync::TryLockError::WouldBlock) => panic!("self-deadlock: lock() while the same mutex is held"),
    }
}
fn stub_cpus() -> usize { 1 }

#[cfg(kani)]
#[kani::proof]
#[kani::unwind(2)]
#[kani::stub(num_cpus::get_physical, stub_cpus)]
#[kani::stub(std::time::Instant::now, stub_now)]
#[kani::stub(std::sync::Mutex::lock, stub_lock)]
fn probe_get_once() {
    let pool: Pool<Mgr> = Pool::builder(Mgr).max_size(1).build().unwrap();
    {
        let mut fut = std::pin::pin!(pool.get());
        match poll_once(fut.as_mut()) {
            Poll::Ready(Ok(obj)) => {
                assert_eq!(*obj, 7);
                let st = pool.status();
                assert_eq!(st.size, 1);
                assert_eq!(st.available, 0);
                std::mem::forget(obj);
            }
            Poll::Ready(Err(_)) => panic!("err"),
            Poll::Pending => panic!("pending"),
        }
    }
    std::mem::forget(pool);
}

#[cfg(kani)]
#[kani::proof]
#[kani::unwind(4)]
#[kani::stub(num_cpus::get_physical, stub_cpus)]
#[kani::stub(std::time::Instant::now, stub_now)]
#[kani::stub(std::sync::Mutex::lock, stub_lock)]
fn probe_resize() {
    let pool: Pool<Mgr> = Pool::builder(Mgr).max_size(1).build().unwrap();
    let n: usize = kani::any();
    kani::assume(n <= 2);
    pool.resize(n);
    let st = pool.status();
    assert_eq!(st.max_size, n);
    assert_eq!(st.size, 0);
    std::mem::forget(pool);
}
