#!/usr/bin/env python3-vt
"""mirsym draft (design-round probe): symbolic interpreter for rustc MIR text, enough to run the
managed pool's get()/return/get end to end (coroutines, nested futures, drops, closures)."""
import re, sys, copy, time, itertools
import z3

BV64 = lambda x: z3.BitVecVal(x, 64)
def BVw(x, w): return z3.BitVecVal(x, w)

# ============================================================== parser
class Fn:
    def __init__(s, name, params, ret): s.name=name; s.params=params; s.ret=ret; s.locals={}; s.blocks={}
class Block:
    def __init__(s): s.stmts=[]; s.term=None; s.cleanup=False

def split_top(s, sep=','):
    out=[]; depth=0; cur=''; i=0; n=len(s)
    while i<n:
        c=s[i]
        if c in '([{': depth+=1
        elif c in ')]}': depth-=1
        elif c=='<': depth+=1
        elif c=='>' and not (i>0 and s[i-1] in '-='): depth-=1
        if c==sep and depth==0: out.append(cur.strip()); cur=''
        else: cur+=c
        i+=1
    if cur.strip(): out.append(cur.strip())
    return out

def parse_mir(text):
    fns={}; cur=None; blk=None
    for line in text.split('\n'):
        if line.startswith('fn '):
            m=re.match(r'fn (.*?)\((.*)\) -> (.*) \{$', line)
            if not m: raise Exception('header '+line)
            params=[]
            for p in split_top(m.group(2)):
                mm=re.match(r'(_\d+): (.*)$', p)
                params.append((mm.group(1), mm.group(2)))
            f=Fn(m.group(1), params, m.group(3))
            cur=f
            if f.name not in fns: fns[f.name]=f
            continue
        if cur is None: continue
        s=line.strip()
        m=re.match(r'let (?:mut )?(_\d+): (.*);$', s)
        if m: cur.locals[m.group(1)]=m.group(2); continue
        m=re.match(r'(bb\d+)( \(cleanup\))?: \{$', s)
        if m: blk=Block(); blk.cleanup=bool(m.group(2)); cur.blocks[m.group(1)]=blk; continue
        if s=='}': blk=None; continue
        if blk is None or s.startswith(('debug ','scope ')): continue
        blk.stmts.append(s[:-1] if s.endswith(';') else s)
    for f in fns.values():
        for b in f.blocks.values():
            if b.stmts: b.term=b.stmts.pop()
    return fns

# ============================================================== values
class Ref:
    __slots__=('root','path')
    def __init__(s, root, path=()): s.root=root; s.path=tuple(path)
    def __repr__(s): return f'&{s.root}{list(s.path)}'
class Agg:
    """struct/tuple/enum/closure/coroutine. f: dict key->value ; key = int (field) or (variant,int)"""
    __slots__=('ty','f','variant','discr')
    def __init__(s, ty, fields=(), variant=None, discr=None):
        s.ty=ty; s.f={i:v for i,v in enumerate(fields)} if not isinstance(fields,dict) else dict(fields); s.variant=variant; s.discr=discr
    def __repr__(s): return f'{s.ty}{"::"+str(s.variant) if s.variant is not None else ""}{ {k:v for k,v in s.f.items()} }'
class Opaque:
    __slots__=('tag',)
    def __init__(s, tag): s.tag=tag
    def __repr__(s): return f'<{s.tag}>'
class FnItem:
    def __init__(s, name): s.name=name
    def __repr__(s): return f'fn:{s.name[:40]}'
UNINIT=Opaque('uninit'); UNIT=Agg('()')

STD_ENUMS={'Option':['None','Some'],'Result':['Ok','Err'],'Poll':['Ready','Pending'],'ControlFlow':['Continue','Break'],
 'TryAcquireError':['Closed','NoPermits'],'PoolError':['Timeout','Backend','Closed','NoRuntimeSpecified','PostCreateHook'],
 'TimeoutType':['Wait','Create','Recycle'],'QueueMode':['Fifo','Lifo'],'Hook':['Fn','AsyncFn'],'HookError':['Message','Backend'],
 'RecycleError':['Message','Backend'],'Runtime':['Tokio1']}
def enum_of(tytext):
    t=tytext.strip()
    # drop generic argument lists (balanced <...>)
    out=''; d=0
    for i,c in enumerate(t):
        if c=='<': d+=1
        elif c=='>' and (i==0 or t[i-1] not in '-='): d-=1
        elif d==0: out+=c
    segs=[x for x in out.split('::') if x.strip()]
    return segs[-1].strip() if segs else ''
def mk_enum(ename, vname, fields=()):
    return Agg(ename, {(vname,i):v for i,v in enumerate(fields)}, variant=vname)
def discr_of(v):
    if v.ty in STD_ENUMS and v.variant in STD_ENUMS[v.ty]: return STD_ENUMS[v.ty].index(v.variant)
    if v.discr is not None: return v.discr
    raise Unmodelled(f'discriminant of {v.ty}::{v.variant}')

class Violation(Exception): pass
class Unmodelled(Exception): pass
class Panic(Exception): pass

class State:
    def __init__(s): s.heap={}; s.pc=[]; s.events=[]; s.n=0; s.ghost={}
    def alloc(s, v, hint='h'):
        s.n+=1; k=f'{hint}#{s.n}'; s.heap[k]=v; return k
    def clone(s):
        t=State(); t.heap=copy.deepcopy(s.heap); t.pc=list(s.pc); t.events=list(s.events); t.n=s.n; t.ghost=copy.deepcopy(s.ghost); return t

# ============================================================== interpreter
class Interp:
    def __init__(s, fns, env):
        s.fns=fns; s.env=env; s.queries=0; s.solver_s=0.0; s.stmts=0
        s.by_span={}     # '{closure@span}' / '{async block@span}' -> fn name
        s.by_last={}     # last path segment -> [fn names]
        for n,f in fns.items():
            if f.params:
                m=re.search(r'\{(?:closure|async block|async closure)@([^}]*?)\}', f.params[0][1])
                if m and '{closure#' in n.split('::')[-1]: s.by_span[m.group(1)]=n
            s.by_last.setdefault(n.split('::')[-1],[]).append(n)
    # ---------------- solver
    def sat(s, st, cond):
        if z3.is_true(cond): return True
        if z3.is_false(cond): return False
        sol=z3.Solver(); sol.add(*st.pc); sol.add(cond); t=time.time(); r=sol.check(); s.solver_s+=time.time()-t; s.queries+=1
        if r==z3.unknown: raise Unmodelled('solver unknown')
        return r==z3.sat
    # ---------------- places
    def parse_place(s, t):
        t=t.strip()
        while t.startswith('(') and t.endswith(')') and s._bal(t[1:-1]): t=t[1:-1].strip()
        if re.match(r'^_\d+$', t): return (t, [])
        if t.startswith('*'):
            b,p=s.parse_place(t[1:]); return (b,p+['*'])
        # strip trailing ": Type" at depth 0
        d=0; colon=None
        for i,c in enumerate(t):
            if c in '([{<': d+=1
            elif c in ')]}': d-=1
            elif c=='>' and t[i-1] not in '-=': d-=1
            elif c==':' and d==0 and t[i:i+2]==': ': colon=i; break
        if colon is not None: t=t[:colon].strip()
        m=re.match(r'^(.*)\.(\d+)$', t)
        if m and s._bal(m.group(1)):
            b,p=s.parse_place(m.group(1)); return (b,p+[int(m.group(2))])
        m=re.match(r'^(.*) as ([\w#]+)$', t)
        if m and s._bal(m.group(1)):
            b,p=s.parse_place(m.group(1)); return (b,p+[('v',m.group(2))])
        raise Unmodelled('place '+t)
    @staticmethod
    def _bal(t):
        d=0
        for c in t:
            if c=='(': d+=1
            elif c==')':
                d-=1
                if d<0: return False
        return d==0
    def resolve(s, st, fr, place):
        base,proj=place; root=fr[base]; path=[]; pend=None
        for pr in proj:
            if pr=='*':
                v=s.load(st,root,path)
                if not isinstance(v,Ref): raise Unmodelled(f'deref non-ref {v!r} at {place}')
                root,path=v.root,list(v.path); pend=None
            elif isinstance(pr,tuple): pend=pr[1]
            else:
                path.append((pend,pr) if pend is not None else pr); pend=None
        return root,path
    def load(s, st, root, path):
        v=st.heap[root]
        for p in path:
            if not isinstance(v,Agg): raise Unmodelled(f'field {p} of non-agg {v!r} ({root}{path})')
            if p not in v.f: raise Unmodelled(f'read of unset field {p} in {v.ty} ({root}{path})')
            v=v.f[p]
        return v
    def store(s, st, root, path, val):
        if not path: st.heap[root]=val; return
        v=st.heap[root]
        for p in path[:-1]: v=v.f[p]
        v.f[path[-1]]=val
    # ---------------- operands / rvalues
    def const(s, c):
        m=re.match(r'^(-?\d+)_(usize|u64|isize|i64)$', c)
        if m: return BV64(int(m.group(1)))
        m=re.match(r'^(-?\d+)_(u128|i128)$', c)
        if m: return BVw(int(m.group(1)),128)
        m=re.match(r'^(-?\d+)_(u32|i32)$', c)
        if m: return BVw(int(m.group(1)),32)
        if c=='true': return z3.BoolVal(True)
        if c=='false': return z3.BoolVal(False)
        if c=='()': return UNIT
        m=re.match(r'^([\w:]+)::<.*>::(\w+)$', c) or re.match(r'^([\w:]+)::(\w+)$', c)
        if m and enum_of(m.group(1)) in STD_ENUMS: return mk_enum(enum_of(m.group(1)), m.group(2))
        if c.startswith('ZeroSized'): return UNIT
        if c.startswith('"'): return Opaque('str:'+c)
        return Opaque('const:'+c)
    def operand(s, st, fr, t):
        t=t.strip()
        if t.startswith('const '): return s.const(t[6:])
        for kw in ('move ','copy ','no_retag copy ','no_retag move '):
            if t.startswith(kw):
                root,path=s.resolve(st,fr,s.parse_place(t[len(kw):])); v=s.load(st,root,path)
                if v is UNINIT: raise Unmodelled(f'read of uninit {t}')
                if kw.endswith('move ') and isinstance(v,Agg): s.store(st,root,path,UNINIT)
                return v
        if t.startswith('<') or re.match(r'^[\w:]+(::<.*>)?::\w+$', t): return FnItem(t)
        raise Unmodelled('operand '+t)
    def rvalue(s, st, fr, rv, fname):
        rv=rv.strip()
        if rv.startswith('&') :
            m=re.match(r'^&(mut |raw mut |raw const )?(.*)$', rv)
            root,path=s.resolve(st,fr,s.parse_place(m.group(2))); return Ref(root,path)
        m=re.match(r'^(Le|Lt|Ge|Gt|Eq|Ne|Add|Sub|SubWithOverflow|AddWithOverflow)\((.*)\)$', rv)
        if m:
            a,b=[s.operand(st,fr,x) for x in split_top(m.group(2))]; op=m.group(1)
            return {'Le':lambda:z3.ULE(a,b),'Lt':lambda:z3.ULT(a,b),'Ge':lambda:z3.UGE(a,b),'Gt':lambda:z3.UGT(a,b),
                    'Eq':lambda:a==b,'Ne':lambda:a!=b,'Add':lambda:a+b,'Sub':lambda:a-b,
                    'SubWithOverflow':lambda:Agg('tuple',[a-b,z3.ULT(a,b)]),'AddWithOverflow':lambda:Agg('tuple',[a+b,z3.ULT(a+b,a)])}[op]()
        m=re.match(r'^Not\((.*)\)$', rv)
        if m: return z3.Not(s.operand(st,fr,m.group(1)))
        m=re.match(r'^discriminant\((.*)\)$', rv)
        if m:
            root,path=s.resolve(st,fr,s.parse_place(m.group(1))); v=s.load(st,root,path)
            if isinstance(v,Agg) and v.ty.startswith('{coroutine'): return BVw(v.discr,32)
            return BV64(discr_of(v))
        if rv.startswith(('move ','copy ','const ','no_retag ')): return s.operand(st,fr,rv)
        m=re.match(r'^\{(coroutine|closure)@([^}]*?)( \(#\d+\))?\}( \{ (.*) \})?$', rv)
        if m:
            caps=[x.split(': ',1)[1] for x in split_top(m.group(5))] if m.group(5) else []
            body=s.by_span.get(m.group(2)) or (fname+'::{closure#0}')
            a=Agg('{'+m.group(1)+'@'+m.group(2)+'}', [s.operand(st,fr,x) for x in caps]); a.variant=body
            if m.group(1)=='coroutine': a.discr=0
            return a
        m=re.match(r'^\((.*)\)$', rv)
        if m and s._bal(m.group(1)): return Agg('tuple',[s.operand(st,fr,x) for x in split_top(m.group(1))])
        m=re.match(r'^(.+?) \{ (.*) \}$', rv)
        if m: return Agg(enum_of(m.group(1)), [s.operand(st,fr,x.split(': ',1)[1]) for x in split_top(m.group(2))])
        m=re.match(r'^(.+)::(\w+)\((.*)\)$', rv)          # enum variant ctor with payload
        if m and enum_of(m.group(1)) in STD_ENUMS: return mk_enum(enum_of(m.group(1)), m.group(2), [s.operand(st,fr,x) for x in split_top(m.group(3))])
        m=re.match(r'^(.+)::(\w+)$', rv)                  # unit variant
        if m and enum_of(m.group(1)) in STD_ENUMS: return mk_enum(enum_of(m.group(1)), m.group(2))
        if rv.startswith('std::sync::atomic::Ordering::'): return Opaque(rv)
        m=re.match(r'^([\w:]+?)(::<.*>)?\((.*)\)$', rv)       # tuple-struct constructor
        if m: return Agg(m.group(1).split('::')[-1], [s.operand(st,fr,x) for x in split_top(m.group(3))])
        raise Unmodelled('rvalue '+rv)
    # ---------------- execution
    def call_fn(s, st, fname, args):
        """run MIR fn to completion; yields (state, retval) per feasible path. Panics propagate as Panic(state)."""
        f=s.fns[fname]; fr={}
        for l in itertools.chain(f.locals, (p for p,_ in f.params), ['_0']): fr[l]=st.alloc(UNINIT, l)
        for (p,_),a in zip(f.params,args): st.heap[fr[p]]=a
        work=[(st,fr,'bb0')]
        while work:
            st,fr,bb=work.pop()
            for kind,st2,x in s.run_block(st,fr,f,bb):
                if kind=='ret':
                    rv=st2.heap[fr['_0']]
                    for l in fr.values(): st2.heap.pop(l,None)
                    yield st2, rv
                else: work.append((st2,fr,x))
    def run_block(s, st, fr, f, bb):
        b=f.blocks[bb]
        for stmt in b.stmts: s.stmt(st,fr,stmt,f.name)
        t=b.term; s.stmts+=len(b.stmts)+1
        if t=='return': return [('ret',st,None)]
        if t=='unreachable': raise Unmodelled('reached unreachable in '+f.name+' '+bb)
        m=re.match(r'^goto -> (bb\d+)$', t)
        if m: return [('go',st,m.group(1))]
        m=re.match(r'^switchInt\((.*)\) -> \[(.*)\]$', t)
        if m:
            v=s.operand(st,fr,m.group(1)); out=[]; seen=[]
            for a in m.group(2).split(', '):
                k,tgt=a.split(': ')
                if k=='otherwise': cond=z3.And(*[z3.Not(c) for c in seen]) if seen else z3.BoolVal(True)
                else:
                    cond=(v==z3.BoolVal(bool(int(k)))) if z3.is_bool(v) else (v==z3.BitVecVal(int(k), v.size()))
                    seen.append(cond)
                cond=z3.simplify(cond)
                if s.sat(st,cond): out.append((cond,tgt))
            if len(out)==1: return [('go',st,out[0][1])]
            res=[]
            for cond,tgt in out:
                st2=st.clone(); st2.pc.append(cond); res.append(('go',st2,tgt))
            return res
        m=re.match(r'^assert\((!?)(.*?), "(.*?)".*\) -> \[success: (bb\d+), unwind.*\]$', t)
        if m:
            v=s.operand(st,fr,m.group(2)); ok=z3.Not(v) if m.group(1) else v
            if s.sat(st,z3.Not(ok)): raise Violation(f'panic: {m.group(3)} in {f.name} {bb}')
            return [('go',st,m.group(4))]
        m=re.match(r'^drop\((.*)\) -> \[return: (bb\d+), unwind.*\]$', t)
        if m:
            root,path=s.resolve(st,fr,s.parse_place(m.group(1))); v=s.load(st,root,path)
            s.store(st,root,path,UNINIT); s.drop_value(st,v)
            return [('go',st,m.group(2))]
        m=re.match(r'^(.*) -> \[return: (bb\d+), unwind.*\]$', t)
        if m:
            body,tgt=m.groups(); d=0; cut=None
            for i,c in enumerate(body):
                if c=='(': d+=1
                elif c==')': d-=1
                elif d==0 and body.startswith(' = ',i): cut=i; break
            dest=body[:cut]; rest=body[cut+3:]
            # callee(args): args = last balanced paren group
            d=0
            for i in range(len(rest)-1,-1,-1):
                if rest[i]==')': d+=1
                elif rest[i]=='(':
                    d-=1
                    if d==0: break
            callee=rest[:i]; argtxt=rest[i+1:-1]
            args=[s.operand(st,fr,a) for a in split_top(argtxt)]
            res=[]
            for st2,rv in s.dispatch(st,callee,args):
                root,path=s.resolve(st2,fr,s.parse_place(dest)); s.store(st2,root,path,rv); res.append(('go',st2,tgt))
            return res
        raise Unmodelled('terminator '+t)
    def stmt(s, st, fr, stmt, fname):
        if stmt.startswith(('StorageLive','StorageDead','nop','FakeRead','PlaceMention','AscribeUserType','Retag','Coverage','ConstEvalCounter')): return
        m=re.match(r'^discriminant\((.*)\) = (\d+)$', stmt)
        if m:
            root,path=s.resolve(st,fr,s.parse_place(m.group(1))); s.load(st,root,path).discr=int(m.group(2)); return
        d=0; cut=None
        for i,c in enumerate(stmt):
            if c=='(': d+=1
            elif c==')': d-=1
            elif d==0 and stmt.startswith(' = ',i): cut=i; break
        if cut is None: raise Unmodelled('stmt '+stmt)
        val=s.rvalue(st,fr,stmt[cut+3:],fname)
        root,path=s.resolve(st,fr,s.parse_place(stmt[:cut])); s.store(st,root,path,val)
    # ---------------- call dispatch
    def local_fn(s, callee):
        """resolve a call-site path to a dumped body: last segment + self-type name"""
        mq=re.match(r'^<(.+) as (.+)>::(\w+)(::<.*>)?$', callee)
        if mq:
            tyname=enum_of(mq.group(1).lstrip('&').replace('mut ','')); last=mq.group(3)
        else:
            flat=callee
            for _ in range(6): flat=re.sub(r'<[^<>]*>','',flat)
            segs=[x for x in flat.split('::') if x]
            last=segs[-1]; tyname=segs[-2] if len(segs)>=2 else None
        cands=[c for c in s.by_last.get(last,[])]
        if not cands: return None
        if len(cands)==1 and not mq: return cands[0]
        def mentions(f):
            txt=(f.params[0][1] if f.params else '')+' -> '+f.ret
            return tyname is not None and re.search(r'(?<![\w])'+re.escape(tyname)+r'(?![\w])', txt) is not None
        c2=[c for c in cands if mentions(s.fns[c])]
        if 'unmanaged' in callee: c2=[c for c in c2 if 'unmanaged' in c]
        elif len(c2)>1: c2=[c for c in c2 if 'unmanaged' not in c]
        return c2[0] if len(c2)==1 else None
    def dispatch(s, st, callee, args):
        r=s.env.model(s, st, callee, args)
        if r is not None: return r
        fn=s.local_fn(callee)
        if fn: return list(s.call_fn(st, fn, args))
        raise Unmodelled('call '+callee)
    def poll(s, st, fut_ref, cx):
        """poll the future stored at fut_ref (Ref to coroutine Agg or model future)"""
        v=s.load(st,fut_ref.root,fut_ref.path)
        if isinstance(v,Agg) and v.ty.startswith('{coroutine'):
            return list(s.call_fn(st, v.variant, [Agg('Pin',[fut_ref]), cx]))
        return s.env.poll_model(s, st, v, fut_ref, cx)
    # ---------------- drops (value directed)
    def drop_value(s, st, v):
        if not isinstance(v,Agg): return
        if s.env.drop_model(s, st, v): return
        if v.ty.startswith('{coroutine'):
            if v.discr in (0,):      # unresumed: drop captures
                for k,x in list(v.f.items()):
                    if isinstance(k,int): s.drop_value(st,x)
                return
            if v.discr in (1,2): return
            raise Unmodelled(f'drop of suspended coroutine {v.variant} state {v.discr}: needs coroutine_drop shim')
        dfn=None
        for n,f in s.fns.items():
            if n.endswith('::drop') and len(f.params)==1 and re.match(r'&mut (\w+::)*'+re.escape(v.ty)+r'\b', f.params[0][1]): dfn=n
        if dfn:
            tmp=st.alloc(v,'dropped')
            outs=list(s.call_fn(st,dfn,[Ref(tmp)]))
            assert len(outs)==1 and outs[0][0] is st, 'forking Drop impl unsupported in draft'
            v=st.heap.pop(tmp)
        for k,x in list(v.f.items()):
            if x is not UNINIT: s.drop_value(st,x)

# ============================================================== environment models (managed-pool world)
class Env:
    def __init__(s): s.next_obj=1
    def tgt(s, I, st, ref): return I.load(st, ref.root, ref.path)
    def model(s, I, st, callee, args):
        one=lambda v:[(st,v)]
        c=callee
        if ' as Deref>::deref' in c or ' as DerefMut>::deref_mut' in c:
            v=s.tgt(I,st,args[0])
            if isinstance(v,Agg) and v.ty in ('Arc','MutexGuard'): return one(v.f[0])
            if isinstance(v,Agg) and v.ty=='Object': return None
            raise Unmodelled('deref of '+repr(v)[:80])
        if c.startswith('Atomic::<usize>::fetch_add'):
            old=s.tgt(I,st,args[0]); I.store(st,args[0].root,list(args[0].path),old+args[1]); return one(old)
        if c.startswith('Atomic::<usize>::fetch_sub'):
            old=s.tgt(I,st,args[0]); I.store(st,args[0].root,list(args[0].path),old-args[1])
            if I.sat(st, old==BV64(0)): raise Violation('users counter wraps below zero')
            return one(old)
        if c.startswith('Atomic::<usize>::load'): return one(s.tgt(I,st,args[0]))
        if re.match(r'^std::sync::Mutex::<.*>::lock$', c):
            m=s.tgt(I,st,args[0])
            if I.sat(st, m.f[1]): raise Violation('self-deadlock on slots mutex')
            m.f[1]=z3.BoolVal(True)
            return one(mk_enum('Result','Ok',[Agg('MutexGuard',[m.f[0], args[0]])]))
        if c.startswith('Result::<') and (c.endswith('::is_err') or c.endswith('::is_ok')):
            r=s.tgt(I,st,args[0]); return one(z3.BoolVal((r.variant=='Err')==c.endswith('::is_err')))
        if c.startswith('Result::<') and c.endswith('::unwrap'):
            if args[0].variant!='Ok': raise Violation('unwrap on Err in deadpool code')
            return one(args[0].f[('Ok',0)])
        if c.startswith('std::mem::forget::<'): return one(UNIT)
        if c.startswith('std::mem::drop::<'): I.drop_value(st,args[0]); return one(UNIT)
        if c.startswith('Duration::as_nanos'): return one(z3.ZeroExt(64, s.tgt(I,st,args[0]).f[0]))
        # ---- VecDeque
        if c.startswith('VecDeque::<') :
            op=c.split('::')[-1]
            dq=s.tgt(I,st,args[0]) if isinstance(args[0],Ref) else None
            if op=='push_back': n=len(dq.f); dq.f[n]=args[1]; return one(UNIT)
            if op in ('pop_front','pop_back'):
                n=len(dq.f)
                if n==0: return one(mk_enum('Option','None'))
                items=[dq.f[i] for i in range(n)]
                x=items.pop(0) if op=='pop_front' else items.pop()
                dq.f={i:v for i,v in enumerate(items)}
                return one(mk_enum('Option','Some',[x]))
        # ---- Semaphore (model: permits, closed; waiters omitted in draft)
        if c.startswith('Semaphore::try_acquire'):
            sem=s.tgt(I,st,args[0]); outs=[]
            if I.sat(st, sem.f[1]):
                st2=st.clone(); st2.pc.append(sem.f[1]); outs.append((st2,mk_enum('Result','Err',[mk_enum('TryAcquireError','Closed')])))
            cond=z3.And(z3.Not(sem.f[1]), sem.f[0]==BV64(0))
            if I.sat(st, cond):
                st2=st.clone(); st2.pc.append(cond); outs.append((st2,mk_enum('Result','Err',[mk_enum('TryAcquireError','NoPermits')])))
            cond=z3.And(z3.Not(sem.f[1]), z3.UGT(sem.f[0],BV64(0)))
            if I.sat(st, cond):
                st2=st.clone(); st2.pc.append(cond); sem2=s.tgt(I,st2,args[0]); sem2.f[0]=sem2.f[0]-1
                outs.append((st2,mk_enum('Result','Ok',[Agg('SemaphorePermit',[args[0], z3.BoolVal(True)])])))
            return outs
        if c.startswith('Semaphore::acquire'): return one(Agg('AcquireFuture',[args[0]]))
        if c.startswith('Semaphore::add_permits'):
            sem=s.tgt(I,st,args[0]); sem.f[0]=sem.f[0]+args[1]; st.events.append(('add_permits',)); return one(UNIT)
        if c.startswith('SemaphorePermit::<') and c.endswith('::forget'): return one(UNIT)   # by-value: consumed, no release
        # ---- Option/Result/Try plumbing
        if c.endswith(' as Try>::branch'):
            v=args[0]
            if v.variant in ('Ok','Some'): return one(mk_enum('ControlFlow','Continue',[v.f.get((v.variant,0),UNIT)]))
            return one(mk_enum('ControlFlow','Break',[mk_enum(v.ty, v.variant, [v.f[(v.variant,0)]] if (v.variant,0) in v.f else [])]))
        if ' as FromResidual<' in c:
            v=args[0]; e=v.f[('Err',0)]
            return one(mk_enum('Result','Err',[s.into_poolerror(e)]))
        if '::map_err::<' in c:
            v,f=args
            if v.variant=='Ok': return one(v)
            e=v.f[('Err',0)]
            if isinstance(f,Agg) and f.ty.startswith('{closure'):
                outs=list(I.call_fn(st,f.variant,[f,e])); return [(st2,mk_enum('Result','Err',[rv])) for st2,rv in outs]
            return one(mk_enum('Result','Err',[s.into_poolerror(e)]))
        if re.match(r'^<.* as Fn(Once|Mut)?<.*>>::call(_once|_mut)?$', c):
            f=args[0]; fv=s.tgt(I,st,f) if isinstance(f,Ref) else f
            if isinstance(fv,Agg) and fv.ty.startswith('{closure'):
                extra=[args[1].f[i] for i in sorted(args[1].f)] if len(args)>1 and isinstance(args[1],Agg) else []
                return list(I.call_fn(st, fv.variant, [f]+extra))
            raise Unmodelled('call of non-closure '+repr(fv)[:60])
        if c.endswith(' as IntoFuture>::into_future'): return one(args[0])
        if c.startswith('Pin::<') and c.endswith('::new_unchecked'): return one(Agg('Pin',[args[0]]))
        if c.endswith(' as Future>::poll'):
            return I.poll(st, args[0].f[0], args[1])
        if c.endswith(' as Into<W>>::into'): return one(args[0])
        if 'Weak::<' in c and c.endswith('::upgrade'): return one(mk_enum('Option','Some',[Agg('Arc',[s.tgt(I,st,args[0]).f[0]])]))
        if c.startswith('Arc::<') and c.endswith('::downgrade'): return one(Agg('Weak',[s.tgt(I,st,args[0]).f[0]]))
        if c.startswith('Option::<') and (c.endswith('::as_mut') or c.endswith('::as_ref')):
            o=s.tgt(I,st,args[0])
            if o.variant=='Some': return one(mk_enum('Option','Some',[Ref(args[0].root, list(args[0].path)+[('Some',0)])]))
            return one(mk_enum('Option','None'))
        if c.startswith('Option::<') and c.endswith('::unwrap'):
            if args[0].variant!='Some': raise Violation('unwrap on None in deadpool code')
            return one(args[0].f[('Some',0)])
        if c.startswith('Option::<') and c.endswith('::take'):
            o=s.tgt(I,st,args[0]); I.store(st,args[0].root,list(args[0].path),mk_enum('Option','None')); return one(o)
        if c.startswith('Option::<') and c.endswith('::is_some'): return one(z3.BoolVal(s.tgt(I,st,args[0]).variant=='Some'))
        if 'Instant::now' in c:
            t=z3.BitVec(f'now{st.n}',64); st.n+=1; st.pc.append(z3.UGE(t, st.ghost.get('clock',BV64(0)))); st.ghost['clock']=t; return one(Agg('Instant',[t]))
        if c.endswith('Metrics as Default>::default') : return None
        # ---- manager
        if c.endswith(' as Manager>::create'): return one(Agg('CreateFuture',[]))
        if c.endswith(' as Manager>::recycle'): return one(Agg('RecycleFuture',[args[1]]))
        if c.endswith(' as Manager>::detach'):
            st.events.append(('detach', s.tgt(I,st,args[1]))); return one(UNIT)
        if c.startswith('<&Vec<Hook<M>> as IntoIterator>::into_iter'): return one(Agg('SliceIter',[args[0], 0]))
        if c.endswith(' as Iterator>::next') and 'Hook<M>' in c:
            it=s.tgt(I,st,args[0]); vec=s.tgt(I,st,it.f[0])
            if it.f[1] >= len(vec.f): return one(mk_enum('Option','None'))
            raise Unmodelled('hooks in draft')
        return None
    def into_poolerror(s, e):
        if isinstance(e,Agg) and e.ty=='PoolError': return e
        return mk_enum('PoolError','Backend',[e])
    def poll_model(s, I, st, v, ref, cx):
        if v.ty=='AcquireFuture':
            sem=s.tgt(I,st,v.f[0]); outs=[]
            if I.sat(st, sem.f[1]):
                st2=st.clone(); st2.pc.append(sem.f[1]); outs.append((st2,mk_enum('Poll','Ready',[mk_enum('Result','Err',[Opaque('AcquireError')])])))
            cond=z3.And(z3.Not(sem.f[1]), z3.UGT(sem.f[0],BV64(0)))
            if I.sat(st, cond):
                st2=st.clone(); st2.pc.append(cond); sem2=s.tgt(I,st2,v.f[0]); sem2.f[0]=sem2.f[0]-1
                outs.append((st2,mk_enum('Poll','Ready',[mk_enum('Result','Ok',[Agg('SemaphorePermit',[v.f[0], z3.BoolVal(True)])])])))
            cond=z3.And(z3.Not(sem.f[1]), sem.f[0]==BV64(0))
            if I.sat(st, cond):
                st2=st.clone(); st2.pc.append(cond); outs.append((st2,mk_enum('Poll','Pending')))
            return outs
        if v.ty=='CreateFuture':
            outs=[]
            k=st.ghost.get('create_calls',0); st.ghost['create_calls']=k+1
            ok=z3.Bool(f'create_ok_{k}')
            st1=st.clone(); st1.pc.append(ok); oid=st1.ghost.get('next_obj',1); st1.ghost['next_obj']=oid+1
            st1.events.append(('create',oid)); outs.append((st1,mk_enum('Poll','Ready',[mk_enum('Result','Ok',[Agg('Obj',[oid])])])))
            st2=st.clone(); st2.pc.append(z3.Not(ok)); st2.events.append(('create_err',)); outs.append((st2,mk_enum('Poll','Ready',[mk_enum('Result','Err',[Opaque('MgrErr')])])))
            return outs
        if v.ty=='RecycleFuture':
            k=st.ghost.get('recycle_calls',0); st.ghost['recycle_calls']=k+1
            ok=z3.Bool(f'recycle_ok_{k}'); obj=s.tgt(I,st,v.f[0]); outs=[]
            st1=st.clone(); st1.pc.append(ok); st1.events.append(('recycle_ok',obj.f[0])); outs.append((st1,mk_enum('Poll','Ready',[mk_enum('Result','Ok',[UNIT])])))
            st2=st.clone(); st2.pc.append(z3.Not(ok)); st2.events.append(('recycle_err',obj.f[0])); outs.append((st2,mk_enum('Poll','Ready',[mk_enum('Result','Err',[mk_enum('RecycleError','Backend',[Opaque('MgrErr')])])])))
            return outs
        raise Unmodelled('poll of '+v.ty)
    def drop_model(s, I, st, v):
        if v.ty=='MutexGuard':
            m=I.load(st,v.f[1].root,v.f[1].path); m.f[1]=z3.BoolVal(False); return True
        if v.ty=='SemaphorePermit':
            sem=I.load(st,v.f[0].root,v.f[0].path); sem.f[0]=sem.f[0]+1; st.events.append(('permit_released',)); return True
        if v.ty=='Obj': st.events.append(('destroy',v.f[0])); return True
        if v.ty in ('AcquireFuture','CreateFuture','RecycleFuture','Weak','Arc','Pin','Instant','tuple','()'): return True
        return False

# ============================================================== experiment: get / return / get on a symbolic pool
def main():
    t0=time.time()
    fns=parse_mir(open(sys.argv[1] if len(sys.argv)>1 else '/tmp/mirprobe/deadpool_rt.mir').read())
    env=Env(); I=Interp(fns,env)
    get=[n for n in fns if n.endswith('::get') and 'unmanaged' not in n and 'managed::' in n][0]
    objdrop=[n for n,f in fns.items() if n.endswith('::drop') and f.params and f.params[0][1].startswith('&mut managed::Object<')][0]
    st=State()
    maxs=z3.BitVec('max_size',64); st.pc+=[z3.ULE(maxs,BV64(2))]
    qmode=z3.Bool('lifo')
    slots=st.alloc(Agg('Slots',[Agg('VecDeque',[]),BV64(0),maxs]),'slots')
    timeouts=Agg('Timeouts',[mk_enum('Option','None'),mk_enum('Option','None'),mk_enum('Option','None')])
    cfg=Agg('PoolConfig',[maxs,timeouts,mk_enum('QueueMode','Fifo')])
    hooks=Agg('Hooks',[Agg('HookVec',[Agg('Vec',[])]),Agg('HookVec',[Agg('Vec',[])]),Agg('HookVec',[Agg('Vec',[])])])
    inner=st.alloc(Agg('PoolInner',[Opaque('mgr'),Agg('Mutex',[Ref(slots),z3.BoolVal(False)]),BV64(0),Agg('Semaphore',[maxs,z3.BoolVal(False)]),cfg,mk_enum('Option','None'),hooks]),'inner')
    pool=st.alloc(Agg('Pool',[Agg('Arc',[Ref(inner)])]),'pool')
    cx=Opaque('cx')
    results=[]
    def run_get(st):
        outs=[]
        for st1,fut in I.call_fn(st, get, [Ref(pool)]):
            fr=st1.alloc(fut,'getfut')
            for st2,pr in I.poll(st1, Ref(fr), cx): outs.append((st2,pr,fr))
        return outs
    n_paths=0
    for st1,pr,fr in run_get(st):
        if pr.variant=='Pending':
            n_paths+=1; results.append(('get1 pending (max_size=0)', st1)); continue
        res=pr.f[('Ready',0)]
        if res.variant=='Err':
            n_paths+=1; results.append(('get1 err '+res.f[('Err',0)].variant, st1)); continue
        obj=res.f[('Ok',0)]
        # status check: size==1, users==1
        sl=st1.heap[slots]; pi=st1.heap[inner]
        assert not I.sat(st1, z3.Not(z3.And(sl.f[1]==BV64(1), pi.f[2]==BV64(1), pi.f[3].f[0]==maxs-1))), 'state after get1'
        # return it
        o=st1.alloc(obj,'obj')
        for st2,_ in I.call_fn(st1, objdrop, [Ref(o)]):
            sl=st2.heap[slots]; pi=st2.heap[inner]
            assert not I.sat(st2, z3.Not(z3.And(sl.f[1]==BV64(1), pi.f[2]==BV64(0), pi.f[3].f[0]==maxs))), 'state after return'
            for st3,pr3,fr3 in run_get(st2):
                n_paths+=1
                results.append(('get1 ok, return, get2 -> '+(pr3.variant if pr3.variant=='Pending' else pr3.f[('Ready',0)].variant+(' '+pr3.f[('Ready',0)].f[('Err',0)].variant if pr3.f[('Ready',0)].variant=='Err' else '')), st3))
    for name,stx in results:
        sl=stx.heap[slots]; pi=stx.heap[inner]
        sol=z3.Solver(); sol.add(*stx.pc); sol.check(); m=sol.model()
        print(f'{name:45s} events={[e for e in stx.events]}  size={z3.simplify(sl.f[1])} users={z3.simplify(pi.f[2])} permits={z3.simplify(pi.f[3].f[0])}  e.g. max_size={m.eval(maxs,model_completion=True)}')
    print(f'paths={n_paths} stmts={I.stmts} queries={I.queries} solver_s={I.solver_s:.2f} wall={time.time()-t0:.2f}s')
main()
