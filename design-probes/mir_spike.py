#!/usr/bin/env python3-vt
"""Feasibility spike (scratch, not framework): parse -Zunpretty=mir text, symbolically execute
return_object / status with z3 from an arbitrary symbolic rest state."""
import re, sys, copy, time
import z3

# ---------------------------------------------------------------- parser
class Fn:
    def __init__(s, name, header): s.name=name; s.header=header; s.locals={}; s.blocks={}; s.params=[]
class Block:
    def __init__(s): s.stmts=[]; s.term=None; s.cleanup=False

def split_top(s, sep=','):
    out=[]; depth=0; cur=''
    i=0
    while i < len(s):
        c=s[i]
        if c in '([{<':
            if c=='<' and i>0 and s[i-1]==' ' : pass
            depth+=1
        elif c in ')]}>':
            if c=='>' and i>0 and s[i-1] in '-=': pass
            else: depth-=1
        if c==sep and depth==0: out.append(cur.strip()); cur=''
        else: cur+=c
        i+=1
    if cur.strip(): out.append(cur.strip())
    return out

def parse_mir(text):
    fns={}
    cur=None; blk=None
    for line in text.split('\n'):
        if line.startswith('fn '):
            m=re.match(r'fn (.*?)\((.*)\) -> (.*) \{$', line)
            name=m.group(1)
            cur=Fn(name, line)
            cur.params=re.findall(r'(_\d+): ', m.group(2))
            cur.ptypes=dict(re.findall(r'(_\d+): ([^,]+(?:<.*?>)?)', m.group(2)))
            fns.setdefault(name, cur)   # first def wins (ctor shims are duplicated)
            if fns[name] is not cur: cur=Fn(name,line)  # parse & discard dup
            continue
        if cur is None: continue
        s=line.strip()
        m=re.match(r'let (?:mut )?(_\d+): (.*);$', s)
        if m: cur.locals[m.group(1)]=m.group(2); continue
        m=re.match(r'(bb\d+)( \(cleanup\))?: \{$', s)
        if m: blk=Block(); blk.cleanup=bool(m.group(2)); cur.blocks[m.group(1)]=blk; continue
        if s=='}':
            if blk is not None: blk=None
            continue
        if blk is None: continue
        if s.startswith('debug ') or s.startswith('scope ') : continue
        blk.stmts.append(s.rstrip(';'))
    for f in fns.values():
        for b in f.blocks.values():
            if b.stmts: b.term=b.stmts.pop()
    return fns

# ---------------------------------------------------------------- values
BV=lambda x: z3.BitVecVal(x,64)
class Ref:
    def __init__(s, root, path): s.root=root; s.path=tuple(path)
    def __repr__(s): return f'&{s.root}{list(s.path)}'
class Agg:      # struct / tuple / enum payload: positional fields
    def __init__(s, ty, fields, variant=None): s.ty=ty; s.f=list(fields); s.variant=variant
    def __repr__(s): return f'{s.ty}#{s.variant}{s.f}'
class Opaque:
    def __init__(s, tag): s.tag=tag
    def __repr__(s): return f'<{s.tag}>'
UNINIT=Opaque('uninit')

class Violation(Exception): pass
class Unmodelled(Exception): pass

class State:
    def __init__(s): s.heap={}; s.pc=[]; s.events=[]; s.n=0
    def fresh_root(s, v, hint='h'):
        s.n+=1; k=f'{hint}{s.n}'; s.heap[k]=v; return k
    def clone(s):
        t=State(); t.heap=copy.deepcopy(s.heap); t.pc=list(s.pc); t.events=list(s.events); t.n=s.n; return t

# ---------------------------------------------------------------- interpreter
class Interp:
    def __init__(s, fns): s.fns=fns; s.queries=0; s.solver_s=0.0
    def feasible(s, st, cond):
        sol=z3.Solver(); sol.add(*st.pc); sol.add(cond); t=time.time(); r=sol.check(); s.solver_s+=time.time()-t; s.queries+=1
        return r==z3.sat
    # place handling -------------------------------------------------
    def parse_place(s, txt):
        """returns (base_local, [proj...]) ; proj: ('deref',) | ('field',i) | ('variant',name)"""
        txt=txt.strip()
        # strip type annotations "(X: T)" -> X  (innermost first)
        def strip(t):
            t=t.strip()
            while t.startswith('(') and t.endswith(')') and balanced(t[1:-1]): t=t[1:-1].strip()
            return t
        def balanced(t):
            d=0
            for c in t:
                if c=='(':d+=1
                elif c==')':
                    d-=1
                    if d<0: return False
            return d==0
        t=strip(txt)
        m=re.match(r'^(_\d+)$', t)
        if m: return (t, [])
        if t.startswith('*'):
            b,p=s.parse_place(t[1:]); return (b,p+[('deref',)])
        # "X as Variant"
        m=re.match(r'^(.*) as ([\w#]+)$', t)
        if m and balanced(m.group(1)):
            b,p=s.parse_place(m.group(1)); return (b,p+[('variant',m.group(2))])
        # "X.i: T"  or "X.i"
        # find last '.<digits>' at depth 0 followed by ':' or end
        d=0; idx=None
        for i,c in enumerate(t):
            if c in '(<[': d+=1
            elif c in ')>]': d-=1
            elif c=='.' and d==0:
                m2=re.match(r'\.(\d+)(: .*)?$', t[i:])
                if m2: idx=i; fi=int(m2.group(1)); break
        if idx is not None:
            b,p=s.parse_place(t[:idx]); return (b,p+[('field',fi)])
        raise Unmodelled('place '+txt)
    def resolve(s, st, frame, place):
        base,proj=place
        root=frame['roots'][base]; path=[]
        for pr in proj:
            if pr[0]=='deref':
                v=s.load_at(st,root,path)
                if not isinstance(v,Ref): raise Unmodelled(f'deref of non-ref {v}')
                root,path=v.root,list(v.path)
            elif pr[0]=='field': path.append(pr[1])
            elif pr[0]=='variant': path.append(('v',pr[1]))
        return root,path
    def load_at(s, st, root, path):
        v=st.heap[root]
        for p in path:
            if isinstance(p,tuple): continue   # variant downcast: payload fields live in same Agg
            v=v.f[p]
        return v
    def store_at(s, st, root, path, val):
        path=[p for p in path if not isinstance(p,tuple)]
        if not path: st.heap[root]=val; return
        v=st.heap[root]
        for p in path[:-1]: v=v.f[p]
        while len(v.f)<=path[-1]: v.f.append(UNINIT)
        v.f[path[-1]]=val
    # operands ---------------------------------------------------------
    def operand(s, st, frame, txt):
        txt=txt.strip()
        if txt.startswith('const '):
            c=txt[6:]
            m=re.match(r'^(-?\d+)_(usize|u64|u32|isize|i64|u128|u8|u16|i32)$', c)
            if m: return BV(int(m.group(1)))
            if c=='true': return z3.BoolVal(True)
            if c=='false': return z3.BoolVal(False)
            if c=='()': return Agg('()',[])
            return Opaque('const:'+c)
        for kw in ('move ','copy '):
            if txt.startswith(kw):
                pl=s.parse_place(txt[len(kw):]); root,path=s.resolve(st,frame,pl)
                v=s.load_at(st,root,path)
                return v
        raise Unmodelled('operand '+txt)
    # run -----------------------------------------------------------------
    def call(s, st, fname, args, depth=0):
        """generator of (state, retval) for each feasible path"""
        f=s.fns[fname]
        frame={'roots':{}}
        for l in list(f.locals)+f.params+['_0']:
            frame['roots'][l]=st.fresh_root(UNINIT, l)
        for p,a in zip(f.params,args): st.heap[frame['roots'][p]]=a
        work=[(st,frame,'bb0')]
        while work:
            st,frame,bb=work.pop()
            res=s.run_block(st,frame,f,bb)
            for r in res:
                if r[0]=='ret': yield r[1], r[2]
                else: work.append((r[1],frame if r[1] is st else s.reframe(frame), r[2]))
    def reframe(s, frame): return {'roots':dict(frame['roots'])}
    def run_block(s, st, frame, f, bb):
        b=f.blocks[bb]
        for stmt in b.stmts: s.stmt(st,frame,stmt)
        t=b.term
        if t=='return': return [('ret',st,st.heap[frame['roots']['_0']])]
        m=re.match(r'goto -> (bb\d+)$',t)
        if m: return [('go',st,m.group(1))]
        m=re.match(r'switchInt\((.*)\) -> \[(.*)\]$',t)
        if m:
            v=s.operand(st,frame,m.group(1)); out=[]
            arms=[a.strip() for a in m.group(2).split(',')]
            taken=[]
            for a in arms:
                k,tgt=a.split(': ')
                if k=='otherwise': cond=z3.And(*[z3.Not(c) for c in taken]) if taken else z3.BoolVal(True)
                else:
                    kv=int(k)
                    cond=(v==z3.BoolVal(bool(kv))) if z3.is_bool(v) else (v==BV(kv))
                    taken.append(cond)
                if s.feasible(st,cond):
                    st2=st.clone(); st2.pc.append(cond); out.append(('go',st2,tgt))
            return out
        m=re.match(r'assert\((!?)(.*?), "(.*?)".*\) -> \[success: (bb\d+), unwind.*\]$',t)
        if m:
            v=s.operand(st,frame,m.group(2)); ok=z3.Not(v) if m.group(1) else v
            if s.feasible(st,z3.Not(ok)): raise Violation(f'panic: {m.group(3)} in {f.name} {bb}')
            st.pc.append(ok); return [('go',st,m.group(4))]
        m=re.match(r'drop\((.*)\) -> \[return: (bb\d+), unwind.*\]$',t)
        if m:
            pl=s.parse_place(m.group(1)); root,path=s.resolve(st,frame,pl)
            v=s.load_at(st,root,path); s.drop_value(st,v); s.store_at(st,root,path,UNINIT)
            return [('go',st,m.group(2))]
        m=re.match(r'(.*?) = (.*)\((.*)\) -> \[return: (bb\d+), unwind.*\]$',t)
        if m:
            dest,callee,argtxt,tgt=m.groups()
            args=[s.operand(st,frame,a) for a in split_top(argtxt)]
            rv=s.libcall(st,callee,args)
            root,path=s.resolve(st,frame,s.parse_place(dest)); s.store_at(st,root,path,rv)
            return [('go',st,tgt)]
        raise Unmodelled('terminator '+t)
    def stmt(s, st, frame, stmt):
        if stmt.startswith(('StorageLive','StorageDead','nop','FakeRead','PlaceMention','AscribeUserType','Retag','Coverage')): return
        m=re.match(r'^(.*?) = (.*)$',stmt)
        if not m: raise Unmodelled('stmt '+stmt)
        dest,rv=m.groups()
        val=s.rvalue(st,frame,rv)
        root,path=s.resolve(st,frame,s.parse_place(dest)); s.store_at(st,root,path,val)
    def rvalue(s, st, frame, rv):
        rv=rv.strip()
        m=re.match(r'^&(mut )?(raw )?(.*)$',rv)
        if m and not rv.startswith('&&'):
            root,path=s.resolve(st,frame,s.parse_place(m.group(3))); return Ref(root,path)
        m=re.match(r'^(Le|Lt|Ge|Gt|Eq|Ne|Add|Sub|SubWithOverflow|AddWithOverflow)\((.*)\)$',rv)
        if m:
            a,b=[s.operand(st,frame,x) for x in split_top(m.group(2))]
            op=m.group(1)
            if op=='Le': return z3.ULE(a,b)
            if op=='Lt': return z3.ULT(a,b)
            if op=='Ge': return z3.UGE(a,b)
            if op=='Gt': return z3.UGT(a,b)
            if op=='Eq': return a==b
            if op=='Ne': return a!=b
            if op=='SubWithOverflow': return Agg('(usize,bool)',[a-b, z3.ULT(a,b)])
            if op=='AddWithOverflow': return Agg('(usize,bool)',[a+b, z3.ULT(a+b,a)])
            if op=='Add': return a+b
            if op=='Sub': return a-b
        m=re.match(r'^Not\((.*)\)$',rv)
        if m: return z3.Not(s.operand(st,frame,m.group(1)))
        if rv.startswith(('move ','copy ','const ')): return s.operand(st,frame,rv)
        m=re.match(r'^\((.*)\)$',rv)
        if m: return Agg('tuple',[s.operand(st,frame,x) for x in split_top(m.group(1))])
        m=re.match(r'^([\w:<>, ]+?) \{ (.*) \}$',rv)
        if m:
            fields=[x.split(': ',1)[1] for x in split_top(m.group(2))]
            return Agg(m.group(1),[s.operand(st,frame,x) for x in fields])
        m=re.match(r'^std::sync::atomic::Ordering::\w+$',rv)
        if m: return Opaque(rv)
        raise Unmodelled('rvalue '+rv)
    # library models -------------------------------------------------------
    def libcall(s, st, callee, args):
        c=re.sub(r'<[^<>]*>','',callee)
        for _ in range(4): c=re.sub(r'<[^<>]*>','',c)
        def tgt(ref): return s.load_at(st,ref.root,ref.path)
        if 'as Deref>::deref' in callee or 'as DerefMut>::deref_mut' in callee:
            v=tgt(args[0])
            if isinstance(v,Agg) and v.ty in ('Arc','MutexGuard'): return v.f[0]
            raise Unmodelled('deref of '+repr(v))
        if callee.startswith('Atomic::<usize>::fetch_sub'):
            old=tgt(args[0]); s.store_at(st,args[0].root,list(args[0].path),old-args[1]); st.events.append(('fetch_sub',old)); return old
        if callee.startswith('Atomic::<usize>::load'): return tgt(args[0])
        if 'Mutex::<' in callee and callee.endswith('::lock'):
            m=tgt(args[0])   # Agg('Mutex',[data_root_ref, locked])
            if s.feasible(st, m.f[1]): raise Violation('self deadlock')
            m.f[1]=z3.BoolVal(True)
            return Agg('Result',[Agg('MutexGuard',[m.f[0], Ref(args[0].root,args[0].path)])],variant='Ok')
        if callee.startswith('Result::<') and callee.endswith('::unwrap'): return args[0].f[0]
        if callee.startswith('std::mem::drop::<'): s.drop_value(st,args[0]); return Agg('()',[])
        if callee.startswith('VecDeque::<') and callee.endswith('::push_back'):
            dq=tgt(args[0]); dq.f.append(args[1]); st.events.append(('push_back',args[1])); return Agg('()',[])
        if callee.startswith('Semaphore::add_permits'):
            sem=tgt(args[0]); sem.f[0]=sem.f[0]+args[1]; st.events.append(('add_permits',args[1])); return Agg('()',[])
        if callee.endswith('as Manager>::detach'):
            st.events.append(('detach',tgt(args[1]))); return Agg('()',[])
        raise Unmodelled('call '+callee)
    def drop_value(s, st, v):
        if isinstance(v,Agg):
            if v.ty=='MutexGuard':
                m=s.load_at(st,v.f[1].root,v.f[1].path); m.f[1]=z3.BoolVal(False); return
            if v.ty=='ObjectInner': st.events.append(('destroy',v.f[0])); return
            for x in v.f: s.drop_value(st,x)

# ---------------------------------------------------------------- experiment
def main():
    fns=parse_mir(open('/tmp/mirprobe/deadpool.mir').read())
    print('parsed fns:',len(fns))
    ro=[n for n in fns if n.endswith('::return_object')][0]
    stf=[n for n in fns if n.endswith('::status') and 'managed::' in n and 'unmanaged' not in n][0]
    I=Interp(fns)
    st=State()
    size,maxs,users,permits,idle,out=[z3.BitVec(n,64) for n in 'size max_size users permits idle out'.split()]
    # arbitrary rest state with one object out being returned
    inv=[size==idle+out, users==out, permits+out==maxs, z3.ULE(size,maxs), z3.UGE(out,BV(1)), z3.ULE(idle,BV(3)),
         z3.ULE(maxs,BV(2**61))]
    st.pc+=inv
    slots=st.fresh_root(Agg('Slots',[Agg('VecDeque',[]),size,maxs]),'slots')
    inner=st.fresh_root(Agg('PoolInner',[Opaque('mgr'),Agg('Mutex',[Ref(slots,[]),z3.BoolVal(False)]),users,Agg('Semaphore',[permits,z3.BoolVal(False)]),Opaque('cfg'),Opaque('rt'),Opaque('hooks')]),'inner')
    obj=Agg('ObjectInner',[Opaque('obj#1'),Opaque('metrics')])
    t=time.time(); n=0
    for st2,rv in I.call(st, ro, [Ref(inner,[]), obj]):
        n+=1
        pi=st2.heap[inner]; sl=st2.heap[slots]
        size2,max2,users2,permits2=sl.f[1],sl.f[2],pi.f[2],pi.f[3].f[0]
        pushed=len(sl.f[0].f)
        idle2=idle+pushed; out2=out-1
        post=z3.And(size2==idle2+out2, users2==out2, permits2+out2==max2, z3.ULE(size2,max2))
        sol=z3.Solver(); sol.add(*st2.pc); sol.add(z3.Not(post)); r=sol.check()
        print('path',n,'events',[e[0] for e in st2.events],'post-inv violated?',r)
        if r==z3.sat: print(sol.model())
    print('return_object paths',n,'queries',I.queries,'solver_s %.3f'%I.solver_s,'wall %.3f'%(time.time()-t))
    # status(): no wrap, available<=size
    st=State(); st.pc+=[size==idle+out, users==out]
    slots=st.fresh_root(Agg('Slots',[Agg('VecDeque',[]),size,maxs]),'slots')
    inner=st.fresh_root(Agg('PoolInner',[Opaque('mgr'),Agg('Mutex',[Ref(slots,[]),z3.BoolVal(False)]),users,Agg('Semaphore',[permits,z3.BoolVal(False)]),Opaque('cfg'),Opaque('rt'),Opaque('hooks')]),'inner')
    pool=st.fresh_root(Agg('Pool',[Agg('Arc',[Ref(inner,[])])]),'pool')
    for st2,rv in I.call(st, stf, [Ref(pool,[])]):
        sol=z3.Solver(); sol.add(*st2.pc); sol.add(z3.Not(z3.And(rv.f[0]==maxs, rv.f[1]==size, rv.f[2]==idle, rv.f[3]==BV(0))))
        print('status path ->',rv.f[2],rv.f[3],'exact at rest violated?',sol.check())
main()
